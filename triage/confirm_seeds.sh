#!/bin/bash
# round 2: demo on clean / patched and sharded suite for each seed in /tmp/seed/out2, using worktree /tmp/seed/R4_<P>
for s in "$@"; do
  P=${s%/*}; N=${s#*/}; D=/tmp/seed/out4/$P/$N; WT=/tmp/seed/R4_$P
  [ -f $D/patch.diff ] || continue
  git -C $WT checkout -q -- . ; git -C $WT clean -fdq
  if [ ! -s $D/eval.json ]; then
    NB=$(mktemp -d /tmp/nbc_XXXX)
    (cd $WT && NUMBA_CACHE_DIR=$NB PYTHONDONTWRITEBYTECODE=1 PYTHONPATH=$WT timeout 1200 /venv/bin/python $D/demo.py > $D/demo_clean.out 2>&1); RC0=$?
    git -C $WT apply $D/patch.diff || { echo "$s APPLY-FAILED"; continue; }
    (cd $WT && NUMBA_CACHE_DIR=$NB PYTHONDONTWRITEBYTECODE=1 PYTHONPATH=$WT timeout 1200 /venv/bin/python $D/demo.py > $D/demo_patched.out 2>&1); RC1=$?
    rm -rf $NB
    echo "{\"demo_clean_rc\": $RC0, \"demo_patched_rc\": $RC1}" > $D/eval.json
  else
    git -C $WT apply $D/patch.diff || { echo "$s APPLY-FAILED"; continue; }
  fi
  if [ ! -s $D/suite_confirm.txt ]; then
    (cd $WT && CB_SHARDS=6 GBSA_REPO=$WT PYTHONPATH=$WT /venv/bin/python /verif/triage/check_baseline.py > $D/suite_confirm.txt.tmp 2>&1)
    mv $D/suite_confirm.txt.tmp $D/suite_confirm.txt
  fi
  git -C $WT checkout -q -- . ; git -C $WT clean -fdq
  echo "$s: $(cat $D/eval.json) $(head -1 $D/suite_confirm.txt | cut -c1-100)"
done
