"""Developer helper (not a check): run every quick check against behaviour-preserving refactorings; any VIOLATION or
ANALYSIS-ERROR is a false alarm of the framework.  usage: refactor_static.py <dir with patch.diff>..."""
import json, os, subprocess, sys
WT = os.environ.get("SEED_WT", "/tmp/seed/EVAL")
def sh(cmd, **kw):
    return subprocess.run(cmd, shell=True, capture_output=True, text=True, **kw)
for d in sys.argv[1:]:
    d = d.rstrip("/")
    sh(f"git -C {WT} checkout -q -- . && git -C {WT} clean -fdq")
    r = sh(f"git -C {WT} apply {d}/patch.diff")
    if r.returncode:
        print(f"{d}: APPLY-FAILED {r.stderr[:100]}"); continue
    r = sh("/venv/bin/python -m gbsa.cli --all --no-evidence", cwd="/verif", env=dict(os.environ, GBSA_REPO=WT))
    bad = [l for l in (r.stdout + r.stderr).splitlines() if l.startswith(("VIOLATION", "ANALYSIS-ERROR")) or (" — " in l and not l.startswith(("  rule", "KNOWN-FINDING")))]
    sh(f"git -C {WT} checkout -q -- . && git -C {WT} clean -fdq")
    json.dump({"false_alarms": bad[:30]}, open(f"{d}/static.json", "w"), indent=1)
    print(f"{d}: {'SILENT' if not bad else 'FALSE-ALARM'}", flush=True)
    for l in bad[:8]:
        print("     ", l[:330])
