"""Developer helper: regenerate gbsa/inventory.json from the CURRENT /repo (run only when the rules have been re-confirmed on
that tree).  For every function: its qualified name, its parameter names and the names it calls / reads as attributes - the
fingerprint normalize.py uses to recognise a private function that was merely renamed."""
import ast, json, os, subprocess, sys
sys.path.insert(0, "/verif")
ROOT = os.environ.get("GBSA_REPO", "/repo")
PKG = os.path.join(ROOT, "groupby_lib")
out, details = [], {}


def fingerprint(fn: ast.FunctionDef):
    calls = set()
    for n in ast.walk(fn):
        if isinstance(n, ast.Call):
            f = n.func
            calls.add(f.attr if isinstance(f, ast.Attribute) else f.id if isinstance(f, ast.Name) else "")
        elif isinstance(n, ast.Attribute):
            calls.add("." + n.attr)
    calls.discard("")
    calls.discard(fn.name)
    a = fn.args
    params = [x.arg for x in a.posonlyargs + a.args + a.kwonlyargs] + ([("*" + a.vararg.arg)] if a.vararg else []) + ([("**" + a.kwarg.arg)] if a.kwarg else [])
    return {"params": params, "names": sorted(calls), "n_stmts": sum(1 for x in ast.walk(fn) if isinstance(x, ast.stmt))}


def visit(body, prefix, modname):
    for st in body:
        if isinstance(st, ast.FunctionDef):
            q = prefix + st.name
            out.append(f"{modname}:{q}")
            details[f"{modname}:{q}"] = fingerprint(st)
            visit(st.body, q + ".", modname)
        elif isinstance(st, ast.ClassDef):
            visit(st.body, prefix + st.name + ".", modname)
        elif isinstance(st, (ast.If, ast.Try, ast.With, ast.For, ast.While)):
            for fld in ("body", "orelse", "finalbody"):
                visit(getattr(st, fld, []) or [], prefix, modname)
            for h in getattr(st, "handlers", []) or []:
                visit(h.body, prefix, modname)


for dp, dn, fns in sorted(os.walk(PKG)):
    for fn in sorted(fns):
        if fn.endswith(".py"):
            full = os.path.join(dp, fn)
            inner = os.path.relpath(full, PKG)[:-3].replace(os.sep, ".")
            if inner.endswith(".__init__"):
                inner = inner[:-9]
            visit(ast.parse(open(full).read()).body, "", inner)
head = subprocess.run(f"git -C {ROOT} log --format=%h -1", shell=True, capture_output=True, text=True).stdout.strip()
json.dump({"comment": f"functions of /repo the framework was validated on (commit {head}); private helpers that are NOT listed here are "
                      "inlined at their call sites before the rules run, and a listed private function that is missing while an unlisted one "
                      "with the same parameters and a similar body exists is taken to be renamed (gbsa/normalize.py)",
           "functions": sorted(set(out)), "details": details}, open("/verif/gbsa/inventory.json", "w"), indent=0)
print(len(set(out)), "functions")
