"""Developer helper (not a check): run (part of) the baseline suite sharded over independent
processes, each with a private numba cache (numba's on-disk cache index cannot be extended from
a second process when a kernel takes a dispatcher argument), and compare with BASELINE stable_pass.
Usage: check_baseline.py [pytest paths...]   (env GBSA_REPO = tree to test, default /repo)"""
import json, subprocess, sys, tempfile, os, shutil, xml.etree.ElementTree as ET
from concurrent.futures import ThreadPoolExecutor
paths = [a for a in sys.argv[1:] if not a.startswith('-')]
NSHARD = int(os.environ.get('CB_SHARDS', '16'))
repo = os.environ.get('GBSA_REPO', '/repo')
base = json.load(open('/root/.vp/BASELINE.json'))
stable = set(base['stable_pass'])
work = tempfile.mkdtemp(prefix='cb_', dir='/tmp')
env0 = dict(os.environ, NUMBA_CACHE_DIR=os.path.join(work, 'nbc_collect'), PYTHONDONTWRITEBYTECODE='1')
r = subprocess.run(['/venv/bin/python', '-m', 'pytest', '--collect-only', '-q', '-p', 'no:cacheprovider',
                    '--continue-on-collection-errors'] + paths, cwd=repo, capture_output=True, text=True, env=env0)
ids = [l.strip() for l in r.stdout.splitlines() if '::' in l and not l.startswith(' ')]
shards = [ids[i::NSHARD] for i in range(NSHARD)]
shards = [s for s in shards if s]
def run(i):
    out = os.path.join(work, f's{i}.xml')
    argf = os.path.join(work, f'args{i}.txt')
    open(argf, 'w').write('\n'.join(shards[i]))
    env = dict(os.environ, NUMBA_CACHE_DIR=os.path.join(work, f'nbc{i}'), PYTHONDONTWRITEBYTECODE='1')
    cmd = ['/venv/bin/python', '-m', 'pytest', '-q', '-p', 'no:cacheprovider', '--timeout=900',
           f'--junitxml={out}', f'@{argf}']
    subprocess.run(cmd, cwd=repo, capture_output=True, text=True, env=env)
    return out
with ThreadPoolExecutor(len(shards)) as ex:
    outs = list(ex.map(run, range(len(shards))))
passed = set(); seen = set(); failed = {}
for out in outs:
    if not os.path.exists(out):
        print('shard produced no junit:', out); continue
    for tc in ET.parse(out).iter('testcase'):
        tid = f"{tc.get('classname')}::{tc.get('name')}"
        seen.add(tid)
        bad = [ch for ch in tc if ch.tag in ('failure', 'error', 'skipped')]
        if not bad:
            passed.add(tid)
        else:
            failed[tid] = (bad[0].get('message') or '')[:150]
shutil.rmtree(work, ignore_errors=True)
if paths:
    mods = [p.replace('/', '.').removesuffix('.py') for p in paths]
    relevant = {t for t in stable if t in seen or any(t.startswith(m + '.') or t.startswith(m + '::') for m in mods)}
else:
    relevant = stable
broken = sorted(relevant - passed)
newly = sorted(passed - stable)
print(f"collected {len(ids)}; ran {len(seen)}; passed {len(passed)}; stable in scope {len(relevant)}; "
      f"still passing {len(relevant & passed)}; BROKEN {len(broken)}; newly passing {len(newly)}")
for t in broken[:40]:
    print('  BROKEN', t, '|', failed.get(t, 'not run'))
if os.environ.get('CB_VERBOSE'):
    for t in newly[:60]:
        print('  new', t)
sys.exit(1 if broken else 0)
