"""Developer helper (not a check): copy confirmed seeded changes from the scratch area into /verif/seeded/<id>/.
A seed is kept only when: demo exits 0 on the clean tree and 1 with the patch (eval.json), and the sharded baseline
suite with the patch applied shows no BROKEN stable test other than the load-sensitive timing test
test_multi_key_large_data (suite_confirm.txt).  usage: import_seeds.py [/tmp/seed/out]"""
import json, os, re, shutil, sys
src = sys.argv[1] if len(sys.argv) > 1 else "/tmp/seed/out"
dst = "/verif/seeded"
os.makedirs(dst, exist_ok=True)
kept = skipped = 0
for P in sorted(os.listdir(src)):
    if not re.fullmatch(r"C\d\d", P):
        continue
    for n in sorted(os.listdir(os.path.join(src, P))):
        d = os.path.join(src, P, n)
        if not (n.isdigit() and os.path.exists(f"{d}/patch.diff") and os.path.exists(f"{d}/demo.py")):
            continue
        sid = f"R4-{P}-{n}" if "out4" in src else f"R3-{P}-{n}" if "out3" in src else f"R2-{P}-{n}" if "out2" in src else f"{P}-{n}"
        ev = json.load(open(f"{d}/eval.json")) if os.path.exists(f"{d}/eval.json") else {}
        suite = open(f"{d}/suite_confirm.txt").read() if os.path.exists(f"{d}/suite_confirm.txt") else ""
        static = json.load(open(f"{d}/static.json")) if os.path.exists(f"{d}/static.json") else {}
        if not suite or not ev or not static:
            print(f"{sid}: pending (eval={bool(ev)} suite={bool(suite)} static={bool(static)})"); skipped += 1; continue
        head = suite.splitlines()[0] if suite.strip() else ""
        broken = [l.strip() for l in suite.splitlines() if l.strip().startswith("BROKEN")]
        real_broken = [b for b in broken if "test_multi_key_large_data" not in b]
        ok = ev.get("demo_clean_rc") == 0 and ev.get("demo_patched_rc") == 1 and not real_broken and head.startswith("collected")
        if not ok:
            print(f"{sid}: NOT KEPT demo=({ev.get('demo_clean_rc')},{ev.get('demo_patched_rc')}) broken={real_broken[:3]} head={head[:80]}")
            skipped += 1
            continue
        out = os.path.join(dst, sid)
        os.makedirs(out, exist_ok=True)
        if os.path.exists(f"{d}/patch.rebased.diff"):
            # the patch was written against an earlier commit of /repo and no longer applies: re-done by hand on the current HEAD
            shutil.copy(f"{d}/patch.rebased.diff", f"{out}/patch.diff")
            shutil.copy(f"{d}/patch.diff", f"{out}/patch.orig_base.diff")
        else:
            shutil.copy(f"{d}/patch.diff", f"{out}/patch.diff")
        shutil.copy(f"{d}/demo.py", f"{out}/demo.py")
        note = open(f"{d}/note.md").read() if os.path.exists(f"{d}/note.md") else ""
        if note:
            open(f"{out}/note.md", "w").write(note)
        files = sorted(set(re.findall(r"^\+\+\+ b/(\S+)", open(f"{d}/patch.diff").read(), re.M)))
        meta = {
            "id": sid,
            "property": P,
            "origin": "independent sub-agent given only the property text and a scratch worktree (nothing from /verif)",
            "round": 4 if "out4" in src else 3 if "out3" in src else 2 if "out2" in src else 1,
            "files_touched": files,
            "needs_to_manifest": (re.search(r"(?is)(needs?|what it needs|circumstances|trigger)[^\n]*\n(.{0,900})", note) or [None, None, note[:600]])[2].strip()[:900] if note else "",
            "confirmed": {
                "demo_on_clean_tree_rc": ev.get("demo_clean_rc"),
                "demo_with_patch_rc": ev.get("demo_patched_rc"),
                "demo_cmd": "cd <worktree> && PYTHONPATH=<worktree> /venv/bin/python demo.py",
                "baseline_suite_with_patch": head,
                "baseline_broken_ignoring_timing_test": real_broken,
                "baseline_broken_timing_only": [b for b in broken if "test_multi_key_large_data" in b],
                "suite_cmd": "CB_SHARDS=8 GBSA_REPO=<worktree> /venv/bin/python /verif/triage/check_baseline.py  (sharded run of the BASELINE.json command, compared with stable_pass)",
            },
            "static_checks": {
                "cmd": "GBSA_REPO=<worktree with patch> /venv/bin/python -m gbsa.cli --all --no-evidence",
                "violation_properties": static.get("violations", []),
                "analysis_error_properties": static.get("analysis_errors", []),
                "target_property_reports_violation": P in static.get("violations", []),
                "reports": static.get("reports", [])[:6],
            },
        }
        json.dump(meta, open(f"{out}/meta.json", "w"), indent=1)
        kept += 1
        print(f"{sid}: kept (caught by {static.get('violations')})")
# index of all kept seeds
rows = []
for sid in sorted(os.listdir(dst)):
    mp = os.path.join(dst, sid, "meta.json")
    if os.path.exists(mp):
        m = json.load(open(mp))
        rows.append((sid, m["property"], ", ".join(m["files_touched"]), m["static_checks"]["violation_properties"],
                     m["static_checks"]["target_property_reports_violation"],
                     [r.split(" — ")[0].split(": ")[-1] for r in m["static_checks"]["reports"]][:3]))
with open(os.path.join(dst, "INDEX.md"), "w") as fh:
    fh.write("# Seeded changes kept in /verif/seeded (generated by triage/import_seeds.py)\n\n"
             "Each directory holds patch.diff (apply with `git -C /repo apply <file>`, undo with `git -C /repo checkout -- .`), "
             "demo.py (exit 0 = property holds for its scenario, exit 1 = violated), note.md (the author's description) and "
             "meta.json (what was confirmed and which checks report it).\n\n"
             "| seed | property | files | checks that report a VIOLATION | targeted check fires | first reports (rule) |\n|---|---|---|---|---|---|\n")
    for sid, P, files, viol, hit, reps in rows:
        fh.write(f"| {sid} | {P} | {files} | {' '.join(viol)} | {'yes' if hit else 'NO'} | {'; '.join(reps)} |\n")
print(f"kept {kept}, not kept / pending {skipped}")
