"""Developer helper (not a check): behaviour-preserving stress test of every rule.  For each function of the analysed
modules (that does not use locals()), all local variables are renamed consistently (x -> x_rn); the edited module is
analysed in memory by every rule and any NEW violation or ANALYSIS-ERROR is a brittleness finding (a rule bound to the
spelling of a local variable).   usage: rename_locals.py [function-name-filter]"""
import ast, copy, os, sys, builtins
sys.path.insert(0, '/verif')
from concurrent.futures import ProcessPoolExecutor
from gbsa.model import Repo, AnalysisError, CORE_MODULES
from gbsa import registry

FILTER = sys.argv[1] if len(sys.argv) > 1 else ""


def locals_of(fn):
    params = set()
    for a in ast.walk(fn):
        if isinstance(a, ast.arguments):
            for x in a.posonlyargs + a.args + a.kwonlyargs:
                params.add(x.arg)
            if a.vararg: params.add(a.vararg.arg)
            if a.kwarg: params.add(a.kwarg.arg)
    stored = set()
    for n in ast.walk(fn):
        if isinstance(n, ast.Name) and isinstance(n.ctx, ast.Store):
            stored.add(n.id)
        if isinstance(n, (ast.Global, ast.Nonlocal)):
            params.update(n.names)
        if isinstance(n, (ast.FunctionDef, ast.ClassDef)) and n is not fn:
            params.add(n.name)
    return {s for s in stored - params if not s.startswith("__") and s != "self"}


def uses_locals(fn):
    return any(isinstance(n, ast.Call) and isinstance(n.func, ast.Name) and n.func.id in ("locals", "vars", "eval", "exec")
               for n in ast.walk(fn))


def rename(fn, names):
    for n in ast.walk(fn):
        if isinstance(n, ast.Name) and n.id in names:
            n.id = n.id + "_rn"


def variants(repo):
    out = []
    for inner in CORE_MODULES:
        name = inner[:-3].replace("/", ".")
        m = repo.modules[name]
        for q, f in m.functions.items():
            if f.parent is not None:
                continue          # nested functions are renamed with their parent
            if FILTER and FILTER not in q:
                continue
            if uses_locals(f.node):
                continue
            names = locals_of(f.node)
            if not names:
                continue
            tree = copy.deepcopy(m.tree)
            # locate the same function in the copy by position
            target = None
            for n in ast.walk(tree):
                if isinstance(n, ast.FunctionDef) and n.name == f.node.name and n.lineno == f.node.lineno:
                    target = n
            rename(target, names)
            out.append((name, q, m.relpath, ast.unparse(tree), len(names)))
    return out


BASE = None
def run_one(v):
    modname, q, rel, src, nn = v
    try:
        compile(src, rel, "exec")
    except SyntaxError as e:
        return (q, "SYNTAX", str(e))
    repo = Repo(overrides={rel: src})
    base = Repo()
    problems = []
    only = [x for x in os.environ.get("RULES", "").split(",") if x]
    for r, fn in sorted(registry.RULES.items()):
        if only and r not in only:
            continue
        try:
            b = {(x.rule, x.function, x.construct.replace("_rn", "")) for x in fn(base).violations}
        except AnalysisError:
            b = set()
        try:
            res = fn(repo)
            new = [x for x in res.violations if (x.rule, x.function, x.construct.replace("_rn", "")) not in b]
            if new:
                problems.append((r, "VIOLATION", new[0].text()[:200]))
        except AnalysisError as e:
            problems.append((r, "ANALYSIS-ERROR", str(e)[:200]))
        except Exception as e:
            problems.append((r, "CRASH", f"{type(e).__name__}: {e}"[:200]))
    return (q, nn, problems)


if __name__ == "__main__":
    vs = variants(Repo())
    print(len(vs), "functions to rename")
    with ProcessPoolExecutor(max_workers=int(os.environ.get("JOBS", "8"))) as ex:
        for q, nn, problems in ex.map(run_one, vs, chunksize=1):
            for r, kind, msg in problems:
                print(f"{q:55s} {r:5s} {kind}: {msg}")
    print("done")
