"""Triage reproductions of the genuine defects listed in DESIGN.md section 6.

NOT part of any registered check (the checks are static).  These scripts exist only to show the
failing input of each finding against the real code, as the brief asks when a check reports a
violation on the unchanged tree.  Usage:  /venv/bin/python triage/repro.py [n ...]
Each case prints  DEFECT-PRESENT / DEFECT-ABSENT  and the observed value.
"""
import atexit
import os
import shutil
import sys
import tempfile
import warnings

# private numba cache: never touch /repo's on-disk cache from a triage run
_nbc = tempfile.mkdtemp(prefix="nbc_triage_")
os.environ["NUMBA_CACHE_DIR"] = _nbc
atexit.register(lambda: shutil.rmtree(_nbc, ignore_errors=True))
sys.dont_write_bytecode = True

import numpy as np
import pandas as pd

warnings.filterwarnings("ignore")

import groupby_lib  # noqa: E402
from groupby_lib import GroupBy, ema, ema_grouped  # noqa: E402
from groupby_lib.groupby import numba as nbf  # noqa: E402
from groupby_lib.groupby import core  # noqa: E402
from groupby_lib.groupby.factorization import factorize_2d, monotonic_factorization  # noqa: E402

CASES = {}


def case(n):
    def deco(f):
        CASES[n] = f
        return f
    return deco


@case(1)
def m1():
    r = nbf.group_min(np.array([0, 0, 1, 1]), np.array([1., 2, 3, 4]), 2, n_threads=2)
    return not np.array_equal(r, [1., 3.]), r


@case(2)
def p3():
    try:
        r = GroupBy(np.array([2, 1, 2, 1])).sum(np.array([np.nan, 1, np.nan, 2]))
        return not (list(r.index) == [1, 2] and list(r.values) == [3.0, 0.0]), r.to_dict()
    except Exception as e:
        return True, repr(e)


@case(3)
def k2_weight():
    gb = GroupBy([np.array([0, 1, 1, 1]), np.array([0, np.nan, 0, 1])])
    codes = np.asarray(gb.group_ikey)
    return codes[1] != -1, codes


@case(4)
def k2_f2d():
    codes, idx = factorize_2d(np.array([2, np.nan, 1, 2]), np.array([1, 1, 1, 1]), sort=True)
    return codes[1] != -1, codes


@case(5)
def k2_unify():
    old = core.THRESHOLD_FOR_CHUNKED_FACTORIZE
    core.THRESHOLD_FOR_CHUNKED_FACTORIZE = 8
    try:
        keys = np.array([3., 1, np.nan, 2, 1, 3, np.nan, 2, 2, 1, 3, np.nan])
        gb = GroupBy(keys)
        assert gb.key_is_chunked
        r = gb.cumsum(np.ones(len(keys)))
        nullrows = np.isnan(keys)
        return not np.isnan(r.values[nullrows]).all(), r.values
    finally:
        core.THRESHOLD_FOR_CHUNKED_FACTORIZE = old


@case(6)
def k1_ema():
    r = ema_grouped(np.array([0, -1, 1, -1, 1]), 2, np.array([1., 100, 2, 100, 3]), alpha=.5)
    clean = ema_grouped(np.array([0, 1, 1]), 2, np.array([1., 2, 3]), alpha=.5)
    return not np.allclose(r[[0, 2, 4]], clean), r


@case(7)
def k1_nearby():
    r = nbf.group_nearby_members(np.array([0, -1, 1, -1, 1]), np.array([1., 1, 1, 1, 1]), 0.5, 2)
    return r[1] != -1 or r[3] != -1, r


@case(8)
def k5():
    v = np.array([2 ** 60 + 1, 2 ** 60 + 3, 2 ** 60 + 2]).astype("M8[ns]")
    r = GroupBy(np.zeros(3, dtype=int)).rolling_max(v, window=2, min_periods=1)
    return not np.array_equal(r.values.view("int64"), [2 ** 60 + 1, 2 ** 60 + 3, 2 ** 60 + 3]), r.values.view("int64")


@case(9)
def p1_cum():
    v = pd.to_datetime(["2020-01-01", "2020-01-02", "2020-01-03"]).values
    r = nbf.cummax(np.array([0, -1, 0]), v, 1)
    return r.dtype.kind != "M", r.dtype


@case(10)
def k4():
    n = 70000
    keys = np.zeros(n, dtype=int)
    out = []
    try:
        r = GroupBy(keys).nth(np.arange(n), 66000, keep_input_index=True)
        bad1 = list(r.values) != [66000]
        out.append(list(r.values)[:3])
    except Exception as e:
        bad1 = True
        out.append(repr(e)[:60])
    r = GroupBy(keys).rolling_sum(np.ones(n), window=40000, min_periods=1)
    bad2 = r.values[-1] != 40000.0
    out.append(r.values[-1])
    return bad1 or bad2, out


@case(11)
def e1():
    a = ema_grouped(np.zeros(3, dtype=int), 1, np.array([1., 2, 3]), halflife=2.5)
    b = ema(np.array([1., 2, 3]), halflife=2.5)
    return not np.allclose(a, b), (a, b)


@case(12)
def a2():
    try:
        ema(np.array([1., 2, 3]), halflife="1s", times=pd.date_range("2020", periods=2, freq="s"))
        return True, "returned"
    except ValueError as e:
        return False, repr(e)[:80]


@case(13)
def a1_rowsel():
    try:
        r = GroupBy(np.array([0, 0, 1])).head(np.arange(5), 1, keep_input_index=True)
        return True, list(r.values)
    except ValueError as e:
        return False, repr(e)[:80]


@case(14)
def a1_times():
    k = pd.Series([0, 0, 1])
    v = pd.Series([1., 2, 3])
    t = pd.Series(pd.date_range("2020", periods=3, freq="s"), index=[5, 6, 7])
    try:
        GroupBy(k).ema(v, halflife="1s", times=t)
        return True, "returned"
    except ValueError as e:
        return False, repr(e)[:80]


@case(15)
def s1():
    old = core.THRESHOLD_FOR_CHUNKED_FACTORIZE
    core.THRESHOLD_FOR_CHUNKED_FACTORIZE = 8
    try:
        keys = np.array([3, 1, 2, 2, 1, 3, 2, 2, 1, 3, 1, 1])
        gb = GroupBy(keys)
        assert gb.key_is_chunked
        gb.groups
        try:
            r = gb.sum(np.ones(len(keys)), transform=True)
            return False, r.values
        except UnboundLocalError as e:
            return True, repr(e)[:80]
    finally:
        core.THRESHOLD_FOR_CHUNKED_FACTORIZE = old


@case(16)
def s3():
    try:
        r = GroupBy(GroupBy(np.array([1, 2, 1]))).sum(np.array([1., 2, 3]))
        return list(r.values) != [4.0, 2.0], r.to_dict()
    except AttributeError as e:
        return True, repr(e)[:80]


@case(17)
def s2():
    old = core.THRESHOLD_FOR_CHUNKED_FACTORIZE
    core.THRESHOLD_FOR_CHUNKED_FACTORIZE = 8
    try:
        keys = np.array([3, 1, 2, 2, 1, 3, 2, 2, 1, 3, 1, 1])
        vals = np.arange(12.0)
        gb = GroupBy(keys)
        assert gb.key_is_chunked
        r = gb.ema(vals, alpha=.5)
        core.THRESHOLD_FOR_CHUNKED_FACTORIZE = old
        ref = GroupBy(keys).ema(vals, alpha=.5)
        return not np.allclose(r.values, ref.values), (r.values, ref.values)
    finally:
        core.THRESHOLD_FOR_CHUNKED_FACTORIZE = old


@case(18)
def a8():
    try:
        r = GroupBy(np.array([1, 2, 1])).sum(np.array([1., 2, 3]), margins=True)
        return False, r.to_dict()
    except ModuleNotFoundError as e:
        return True, repr(e)[:80]


@case(19)
def a3_agg():
    k = pd.Categorical(["a", "b", "a"], categories=["a", "b", "c"])
    r = GroupBy(k).agg(np.array([1., 2, 3]), "sum", observed_only=False)
    return "c" not in r.index, list(r.index)


@case(20)
def facade():
    groupby_lib.install_groupby_fast()
    df = pd.DataFrame({"k": [1, 1, 2], "a": [1., 2, 3], "b": [4., 5, 6]}, index=[10, 20, 30])
    out = []
    bad = False
    r = df.groupby_fast("k")[["a"]].cumsum()
    out.append(list(r.columns))
    bad |= list(r.columns) != ["a"]
    try:
        r = df.groupby_fast("k").cumcount()
        out.append(list(np.asarray(r)))
        bad |= list(np.asarray(r)) != [0, 1, 0]
    except Exception as e:
        bad = True
        out.append(repr(e)[:60])
    try:
        got = {k: list(g.index) for k, g in df.groupby_fast("k")}
        out.append(got)
        bad |= got != {1: [10, 20], 2: [30]}
    except Exception as e:
        bad = True
        out.append(repr(e)[:60])
    return bad, out


@case(21)
def vc_mask():
    r = core.value_counts(np.array([1, 1, 2]), mask=np.array([True, False, False]))
    return r.to_dict() != {1: 1}, r.to_dict()


@case(22)
def p10():
    v = np.array([1, 3, 6]).astype("M8[s]")
    r = GroupBy(np.zeros(3, dtype=int)).diff(v)
    got = r.values[1:].astype("m8[ns]").astype("int64")
    return list(got) != [2 * 10 ** 9, 3 * 10 ** 9], r.values


@case(23)
def f1():
    cutoff, codes, labels = monotonic_factorization(np.array([1., 2, np.nan, 3]))
    return cutoff == 4, (cutoff, codes[:cutoff], list(labels))


@case(24)
def p5_apply():
    try:
        r = GroupBy(np.array([2, 1, 2])).median(np.array([10., 50, 30]), transform=True)
        return list(np.asarray(r)) != [20., 50., 20.], list(np.asarray(r))
    except Exception as e:
        return True, repr(e)[:80]


@case(25)
def k3_ema():
    r = ema_grouped(np.zeros(3, dtype=int), 1, np.array([1., 2, 3]), alpha=.5, mask=np.array([True, False, True]))
    f = ema_grouped(np.zeros(2, dtype=int), 1, np.array([1., 3]), alpha=.5)
    return not np.isclose(r[2], f[1]), (r, f)


@case(26)
def o1():
    idx = pd.RangeIndex(4, name="orig")
    GroupBy({"renamed": idx})
    return idx.name != "orig", idx.name


@case(27)
def mono_uint32():
    old = core.THRESHOLD_FOR_CHUNKED_FACTORIZE
    core.THRESHOLD_FOR_CHUNKED_FACTORIZE = 8
    try:
        k = np.array([1., 2, 2, 3, 4, 4, 5, 5, 6, 1, np.nan, 2])
        try:
            r = GroupBy(k).sum(np.ones(12))
            return r.to_dict() != {1.0: 2.0, 2.0: 3.0, 3.0: 1.0, 4.0: 2.0, 5.0: 2.0, 6.0: 1.0}, r.to_dict()
        except Exception as e:
            return True, repr(e)[:80]
    finally:
        core.THRESHOLD_FOR_CHUNKED_FACTORIZE = old


if __name__ == "__main__":
    which = [int(a) for a in sys.argv[1:]] or sorted(CASES)
    for n in which:
        try:
            present, obs = CASES[n]()
        except Exception as e:  # noqa
            present, obs = True, "EXC " + repr(e)[:120]
        print(f"defect {n:2d} {CASES[n].__name__:12s} {'DEFECT-PRESENT' if present else 'DEFECT-ABSENT '}  observed: {str(obs)[:160]}")
