"""Developer helper (not a check): run every registered quick check against each seeded change and report which
properties raise a VIOLATION / ANALYSIS-ERROR.  usage: seed_static.py <seed dir>...   (dirs holding patch.diff)
Uses the scratch worktree /tmp/seed/EVAL (git worktree of /repo); it is reset before and after each seed."""
import json, os, subprocess, sys
WT = os.environ.get("SEED_WT", "/tmp/seed/EVAL")
def sh(cmd, **kw):
    return subprocess.run(cmd, shell=True, capture_output=True, text=True, **kw)
rows = []
for d in sys.argv[1:]:
    d = d.rstrip("/")
    sh(f"git -C {WT} checkout -q -- . && git -C {WT} clean -fdq")
    pf = f"{d}/patch.rebased.diff" if os.path.exists(f"{d}/patch.rebased.diff") else f"{d}/patch.diff"
    r = sh(f"git -C {WT} apply {pf}")
    if r.returncode:
        rows.append((d, "APPLY-FAILED", [], [])); continue
    r = sh("/venv/bin/python -m gbsa.cli --all --no-evidence", cwd="/verif", env=dict(os.environ, GBSA_REPO=WT))
    viol, err, reports = set(), set(), []
    for line in (r.stdout + r.stderr).splitlines():
        if line.startswith("VIOLATION"):
            viol.add(line.split("property=")[1].split()[0])
        elif line.startswith("ANALYSIS-ERROR"):
            err.add(line.split("property=")[1].split()[0])
        elif " — " in line and not line.startswith(("  rule", "KNOWN-FINDING")):
            reports.append(line[:300])
    sh(f"git -C {WT} checkout -q -- . && git -C {WT} clean -fdq")
    meta = {}
    if os.path.exists(f"{d}/meta.json"):
        meta = json.load(open(f"{d}/meta.json"))
    target = meta.get("property") or os.path.basename(os.path.dirname(d))
    rows.append((d, target, sorted(viol), sorted(err)))
    json.dump({"violations": sorted(viol), "analysis_errors": sorted(err), "reports": sorted(set(reports))[:20]},
              open(f"{d}/static.json", "w"), indent=1)
    hit = "TARGET-HIT" if target in viol else ("other-hit" if viol else ("error-only" if err else "MISSED"))
    print(f"{d:40s} target={target} {hit:10s} viol={sorted(viol)} err={sorted(err)}", flush=True)
