"""Developer helper: run the self-validation variants of given rules and print every result.
usage: runvariants.py K1 K3 ...   (no args = all rules with specs)"""
import sys, json
sys.path.insert(0, '/verif')
from gbsa.model import Repo
from gbsa import variants, variant_specs
rules = sys.argv[1:] or sorted(variant_specs.SPECS)
r = variants.run('dev', rules, Repo(), 0)
for x in r['results']:
    print(f"{x['status']:12s} {x['kind']:5s} {x['name']}" + (f"\n      -> {x['detail']}" if x['status'] != 'pass' or '-v' in sys.argv else ''))
print({k: r[k] for k in ('variants', 'breaking', 'preserving', 'inapplicable', 'failed', 'degraded_rules', 'wall_s')})
