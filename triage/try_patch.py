"""Developer helper (not a check): apply a unified diff IN MEMORY to /repo's working tree and run the rules of one property
(or the named rules) on the result.  usage: try_patch.py <patch.diff> <property|rule,rule,...>"""
import sys
sys.path.insert(0, '/verif')
from gbsa import registry, fixtures, cli
from gbsa.model import Repo, repo_root
REPO_ROOT = repo_root()
patch, what = sys.argv[1], sys.argv[2]
rules = registry.PROPERTIES[what]["rules"] if what in registry.PROPERTIES else what.split(",")
ov = fixtures.overrides_from_patch(REPO_ROOT, patch)
if ov is None:
    sys.exit("patch does not apply")
base = Repo(REPO_ROOT); pat = Repo(REPO_ROOT, overrides=ov)
for rid in rules:
    try:
        b, _ = fixtures._rule_keys(rid, base)
        n, tx = fixtures._rule_keys(rid, pat)
    except Exception as e:
        print(rid, "ERROR", type(e).__name__, e); continue
    for k in sorted(n - b):
        print("NEW", tx[k][:300])
print("done", len(rules), "rules")
