"""Developer helper (not a check): confirm a seeded change and run the static checks against it.

usage: eval_seed.py <PROP> <n> [--no-tests]
  worktree  : /tmp/seed/<PROP>           (scratch git worktree of /repo, must be clean)
  seed files: /tmp/seed/out/<PROP>/<n>/{patch.diff,demo.py}
Steps: demo on clean (expect exit 0) -> apply -> demo (expect exit 1) -> all static checks with
GBSA_REPO=<worktree> -> sharded baseline suite -> revert.  Result: .../<n>/eval.json
"""
import json
import os
import shutil
import subprocess
import sys
import tempfile

prop, n = sys.argv[1], sys.argv[2]
no_tests = "--no-tests" in sys.argv
wt = f"/tmp/seed/{prop}"
sd = f"/tmp/seed/out/{prop}/{n}"
res = {"property": prop, "n": n}


def sh(cmd, cwd=None, env=None, timeout=3600):
    e = dict(os.environ)
    if env:
        e.update(env)
    r = subprocess.run(cmd, shell=True, cwd=cwd, env=e, capture_output=True, text=True, timeout=timeout)
    return r.returncode, r.stdout + r.stderr


def demo():
    nbc = tempfile.mkdtemp(prefix="nbc_demo_")
    try:
        rc, out = sh(f"/venv/bin/python {sd}/demo.py", cwd=wt, env={"NUMBA_CACHE_DIR": nbc, "PYTHONDONTWRITEBYTECODE": "1", "PYTHONPATH": wt},
                     timeout=1200)
    finally:
        shutil.rmtree(nbc, ignore_errors=True)
    return rc, out[-600:]


sh("git checkout -- . && git clean -fdq -e '*.nbi' -e '*.nbc'", cwd=wt)
rc, out = sh("git status --short", cwd=wt)
assert out.strip() == "", "worktree not clean: " + out
res["demo_clean_rc"], res["demo_clean_tail"] = demo()
rc, out = sh(f"git apply {sd}/patch.diff", cwd=wt)
res["apply_rc"] = rc
if rc != 0:
    res["apply_err"] = out[-400:]
else:
    res["demo_patched_rc"], res["demo_patched_tail"] = demo()
    fired = {}
    rc, out = sh("/venv/bin/python -m gbsa.cli --all --no-evidence", cwd="/verif", env={"GBSA_REPO": wt})
    for line in out.splitlines():
        if line.startswith("VIOLATION") or line.startswith("ANALYSIS-ERROR") or " — " in line:
            fired.setdefault("lines", []).append(line[:400])
    res["static_rc"] = rc
    res["static_violation_props"] = sorted({l.split("property=")[1].split()[0] for l in fired.get("lines", [])
                                            if l.startswith("VIOLATION")})
    res["static_analysis_errors"] = [l for l in fired.get("lines", []) if l.startswith("ANALYSIS-ERROR")]
    res["static_reports"] = [l for l in fired.get("lines", []) if " — " in l][:12]
    if not no_tests:
        rc, out = sh("/venv/bin/python /verif/triage/check_baseline.py", cwd=wt, env={"GBSA_REPO": wt}, timeout=7200)
        res["suite_rc"] = rc
        res["suite_tail"] = out[-1500:]
        broken = [l for l in out.splitlines() if l.strip().startswith("BROKEN")]
        res["suite_broken_non_timing"] = [l for l in broken if "test_multi_key_large_data" not in l]
sh("git checkout -- . && git clean -fdq", cwd=wt)
json.dump(res, open(f"{sd}/eval.json", "w"), indent=1)
summary = {k: res.get(k) for k in ("demo_clean_rc", "demo_patched_rc", "static_violation_props", "static_analysis_errors",
                                   "suite_broken_non_timing")}
print(prop, n, json.dumps(summary))
