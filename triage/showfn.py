"""Developer helper: print the normalised (ast.unparse) text of functions, as the variant specs see it
(docstrings elided).  usage: showfn.py <module> <qualname> [<qualname>...]"""
import ast, sys, copy
sys.path.insert(0, '/verif')
from gbsa.model import Repo
repo = Repo()
m = repo.mod(sys.argv[1])
for q in sys.argv[2:]:
    print('#' * 20, q)
    n = copy.deepcopy(m.func(q).node)
    for sub in ast.walk(n):
        if isinstance(sub, (ast.FunctionDef,)) and sub.body and isinstance(sub.body[0], ast.Expr) and isinstance(sub.body[0].value, ast.Constant) and isinstance(sub.body[0].value.value, str):
            sub.body = sub.body[1:] or [ast.Pass()]
    print(ast.unparse(n))
