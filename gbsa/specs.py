"""Hand-written specifications (the oracle of the T rules), written from the property text, not
from the code.

Row reducers have the signature (acc, v, n) -> (acc', n'): ``acc`` the group's accumulator,
``v`` the row's value, ``n`` the number of values accepted so far (n == 0 marks the empty
partial whose accumulator must be ignored).  Binary reducers: (x, y) -> x'.

A spec maps a valuation of its atoms to the *set of acceptable results*, or None where the
properties leave the behaviour unspecified.
"""
from __future__ import annotations

from typing import Callable, Dict, List, Optional, Set, Tuple

from .gcnf import Atom, C, Expr, P, add, inc, sq

ACC, V, N = P(0), P(1), P(2)
X, Y = P(0), P(1)


def _ord_atom(a: Expr, b: Expr) -> Tuple[Atom, bool]:
    if repr(a) > repr(b):
        return ("ORD", b, a), True
    return ("ORD", a, b), False


class Val:
    def __init__(self, val: Dict[Atom, object]):
        self.val = val

    def null(self, e) -> bool:
        return bool(self.val[("NULL", e)])

    def nz(self, e) -> bool:
        return bool(self.val[("NZ", e)])

    def ord(self, a, b) -> str:
        atom, flipped = _ord_atom(a, b)
        o = self.val[atom]
        if flipped:
            o = {"<": ">", ">": "<"}.get(o, o)
        return o


def T(*xs) -> Expr:
    return ("tuple",) + tuple(xs)


class Spec:
    def __init__(self, name: str, atoms: List[Atom], fn: Callable[[Val], Optional[Set[Expr]]], doc: str,
                 skips_null: bool, selection: bool, counting: bool = False, merge: str = ""):
        self.name = name
        self.atoms = atoms
        self.fn = fn
        self.doc = doc
        self.skips_null = skips_null      # null values are not accepted
        self.selection = selection        # result is one of the inputs (no arithmetic on values)
        self.counting = counting          # accumulator is the count itself
        self.merge = merge                # class that merges partials of this class

    def __call__(self, val: Dict[Atom, object]):
        return self.fn(Val(val))


A_NULLV = ("NULL", V)
A_NZ = ("NZ", N)
A_ORD = _ord_atom(ACC, V)[0]


def _sum(val: Val):
    # a null enters the accumulator through '+' (C08: "a null makes the running sum null from there on")
    if not val.nz(N):
        return {T(V, inc(N)), T(add(ACC, V), inc(N))}     # second form only with zero-initialised accumulators (T3)
    return {T(add(ACC, V), inc(N))}


def _sum_skipnull(val: Val):
    if val.null(V):
        return {T(ACC, N)}
    return _sum(val)


def _sumsq_skipnull(val: Val):
    if val.null(V):
        return {T(ACC, N)}
    if not val.nz(N):
        return {T(sq(V), inc(N)), T(add(ACC, sq(V)), inc(N))}
    return {T(add(ACC, sq(V)), inc(N))}


def _extreme(better: str, skip: bool):
    def fn(val: Val):
        if val.null(V):
            if skip:
                return {T(ACC, N)}
            return None            # non-skipping min/max: the properties do not say what a null row does
        if not val.nz(N):
            return {T(V, inc(N))}
        o = val.ord(V, ACC)
        if o == better:
            return {T(V, inc(N))}
        if o == "=":
            return {T(V, inc(N)), T(ACC, inc(N))}
        if o == "U":
            return None            # acc null while n != 0 cannot arise from skip reducers
        return {T(ACC, inc(N))}
    return fn


def _count_all(val: Val):
    return {T(inc(N), inc(N))}


def _count_nonnull(val: Val):
    if val.null(V):
        return {T(N, N)}
    return {T(inc(N), inc(N))}


def _first_nonnull(val: Val):
    if val.null(V):
        return {T(ACC, N)}
    if not val.nz(N):
        return {T(V, inc(N))}
    return {T(ACC, inc(N))}


def _last_nonnull(val: Val):
    if val.null(V):
        # recorded exception (T2-L3): `last` may count rows instead of values; it never reads n
        return {T(ACC, N), T(ACC, inc(N))}
    return {T(V, inc(N))}


ROW_SPECS: Dict[str, Spec] = {
    "SUM": Spec("SUM", [A_NZ], _sum, "acc+v; first value replaces the accumulator", False, False, merge="SUM"),
    "SUM_SKIPNULL": Spec("SUM_SKIPNULL", [A_NULLV, A_NZ], _sum_skipnull, "sum of non-null values", True, False, merge="SUM"),
    "SUMSQ_SKIPNULL": Spec("SUMSQ_SKIPNULL", [A_NULLV, A_NZ], _sumsq_skipnull, "sum of squares of non-null values", True, False, merge="SUM"),
    "MIN": Spec("MIN", [A_NULLV, A_NZ, A_ORD], _extreme("<", False), "minimum (null rows unspecified)", False, True, merge="MIN"),
    "MIN_SKIPNULL": Spec("MIN_SKIPNULL", [A_NULLV, A_NZ, A_ORD], _extreme("<", True), "minimum of non-null values", True, True, merge="MIN"),
    "MAX": Spec("MAX", [A_NULLV, A_NZ, A_ORD], _extreme(">", False), "maximum (null rows unspecified)", False, True, merge="MAX"),
    "MAX_SKIPNULL": Spec("MAX_SKIPNULL", [A_NULLV, A_NZ, A_ORD], _extreme(">", True), "maximum of non-null values", True, True, merge="MAX"),
    "COUNT_ALL": Spec("COUNT_ALL", [], _count_all, "number of rows", False, False, counting=True, merge="SUM"),
    "COUNT_NONNULL": Spec("COUNT_NONNULL", [A_NULLV], _count_nonnull, "number of non-null values", True, False, counting=True, merge="SUM"),
    "FIRST_NONNULL": Spec("FIRST_NONNULL", [A_NULLV, A_NZ], _first_nonnull, "first non-null value in row order", True, True, merge="FIRST"),
    "LAST_NONNULL": Spec("LAST_NONNULL", [A_NULLV], _last_nonnull, "last non-null value in row order", True, True, merge="LAST"),
}

# the class every ScalarFuncs member is defined to implement (by its name)
ROW_CLASS_OF = {
    "sum": "SUM", "nansum": "SUM_SKIPNULL", "nansum_squares": "SUMSQ_SKIPNULL",
    "min": "MIN", "nanmin": "MIN_SKIPNULL", "max": "MAX", "nanmax": "MAX_SKIPNULL",
    "count": "COUNT_ALL", "nancount": "COUNT_NONNULL", "first": "FIRST_NONNULL", "last": "LAST_NONNULL",
}

# the class each public operation is defined by (C01 statement)
OP_CLASS = {
    "size": {"COUNT_ALL", "COUNT_NONNULL@never-null"},
    "count": {"COUNT_NONNULL"},
    "sum": {"SUM_SKIPNULL", "SUM@unsigned-or-int-only"},
    "mean": {"SUM_SKIPNULL", "SUM@unsigned-or-int-only"},
    "min": {"MIN_SKIPNULL"},
    "max": {"MAX_SKIPNULL"},
    "first": {"FIRST_NONNULL"},
    "last": {"LAST_NONNULL"},
    "sum_squares": {"SUMSQ_SKIPNULL"},
}

# merging two partials of class K is done with a reducer of class MERGE[K]
MERGE_CLASS = {
    "SUM": {"SUM", "SUM_SKIPNULL"}, "MIN": {"MIN_SKIPNULL"}, "MAX": {"MAX_SKIPNULL"},
    "FIRST": {"FIRST_NONNULL"}, "LAST": {"LAST_NONNULL"},
}


# ---------------------------------------------------------------------- binary reducers (x, y) -> x'

def _b_ord(better: str):
    def fn(val: Val):
        o = val.ord(X, Y)
        if o == "U":
            return None
        if o == better:
            return {X}
        if o == "=":
            return {X, Y}
        return {Y}
    return fn


B_ORD = _ord_atom(X, Y)[0]

BIN_SPECS: Dict[str, Spec] = {
    "INC": Spec("INC", [], lambda v: {inc(X)}, "x+1", False, False, counting=True),
    "MIN2": Spec("MIN2", [B_ORD], _b_ord("<"), "smaller of x and y", False, True),
    "MAX2": Spec("MAX2", [B_ORD], _b_ord(">"), "larger of x and y", False, True),
    "ADD": Spec("ADD", [], lambda v: {add(X, Y)}, "x+y", False, False),
    "ADDSQ": Spec("ADDSQ", [], lambda v: {add(X, sq(Y))}, "x+y^2", False, False),
    "FIRST2": Spec("FIRST2", [], lambda v: {X}, "x", False, True),
    "LAST2": Spec("LAST2", [], lambda v: {Y}, "y", False, True),
    "FIRST2_SKIPNULL": Spec("FIRST2_SKIPNULL", [("NULL", X)], lambda v: {Y} if v.null(X) else {X},
                            "y if x is null else x", True, True),
    "LAST2_SKIPNULL": Spec("LAST2_SKIPNULL", [("NULL", Y)], lambda v: {X} if v.null(Y) else {Y},
                           "x if y is null else y", True, True),
}

BIN_CLASS_OF = {
    "count": "INC", "min": "MIN2", "max": "MAX2", "sum": "ADD", "sum_square": "ADDSQ",
    "first": "FIRST2", "first_skipna": "FIRST2_SKIPNULL", "last": "LAST2", "last_skipna": "LAST2_SKIPNULL",
}

# nanops.reduce_1d: reducer name -> (initial value kind, chunk-combine reducer)
REDUCE_1D_STAGE = {
    "count": ("zero", "sum"),
    "sum": ("zero", "sum"),
    "sum_square": ("zero", "sum"),
    "min": ("none", "min"),
    "max": ("none", "max"),
    "first": ("none", "first"),
    "last": ("none", "last"),
    "first_skipna": ("none", "first_skipna"),
    "last_skipna": ("none", "last_skipna"),
}
