"""O rules: ownership - no store reaches caller-owned or grouping-owned storage; results are fresh."""
from __future__ import annotations

import ast
from typing import Dict, FrozenSet, List, Optional, Set, Tuple

from .model import AnalysisError, Func, Repo, attr_chain, call_name, norm, walk_no_nested
from .report import RuleResult

F = "F"                      # fresh
Origins = FrozenSet[str]
FRESH: Origins = frozenset([F])

ANALYSED_MODULES = ("groupby.core", "groupby.numba", "groupby.factorization", "groupby.api", "util", "emas", "nanops")

# third-party / builtin calls whose result is freshly allocated whatever the arguments
FRESH_CALLS = {
    "np.zeros", "np.full", "np.empty", "np.ones", "np.arange", "np.array", "np.concatenate", "np.vstack", "np.hstack",
    "np.cumsum", "np.cumprod", "np.argsort", "np.searchsorted", "np.where", "np.unique", "np.tile", "np.repeat", "np.append",
    "np.zeros_like", "np.empty_like", "np.full_like", "np.ones_like", "np.isnan", "np.exp", "np.log", "np.sqrt", "np.abs",
    "np.sort", "np.meshgrid", "np.maximum", "np.minimum", "np.iinfo", "np.dtype", "np.datetime_data", "np.timedelta64",
    "np.datetime64", "np.int64", "np.float64", "np.ndim", "np.issubdtype", "np.median", "np.quantile",
    "pd.factorize", "factorize_array", "pd.Index", "pd.RangeIndex", "pd.MultiIndex", "pd.MultiIndex.from_product",
    "pd.Categorical", "pd.Categorical.from_codes", "pd.concat", "pd.to_datetime", "pd.to_timedelta", "pd.Timedelta",
    "pd.isna", "pd.ArrowDtype", "pd.api.types.is_bool_dtype", "pl.Series", "pl.DataFrame", "pa.array", "pa.chunked_array",
    "pa.Array.from_pandas", "pa.DictionaryArray.from_arrays", "pd.core.sorting.lexsort_indexer",
    "len", "range", "list", "dict", "set", "tuple", "zip", "map", "enumerate", "sum", "min", "max", "sorted", "int", "float",
    "str", "bool", "isinstance", "getattr", "hasattr", "type", "signature", "reduce", "abs", "print", "locals", "frozenset",
    "NumbaList", "nb.typed.Dict.empty", "multiprocessing.cpu_count", "os.cpu_count", "concurrent.futures.as_completed",
    "ValueError", "TypeError", "KeyError", "NotImplementedError", "AnalysisError",
}
# methods whose result is fresh whatever the receiver
FRESH_METHODS = {
    "copy", "astype", "nonzero", "argsort", "sort_index", "sort_values", "reindex", "cumsum", "sum", "min", "max", "mean",
    "all", "any", "tolist", "to_pandas", "to_arrow", "dictionary_encode", "combine_chunks", "get_indexer", "drop_duplicates",
    "searchsorted", "groupby", "agg", "rolling", "unstack", "set_names", "set_levels", "set_index", "rename", "map",
    "get_level_values", "reorder_levels", "isnull", "isna", "equals", "union", "items", "keys", "values_", "pop", "split",
    "join", "format", "replace", "startswith", "endswith", "bind", "bind_partial", "submit", "result", "collect", "drop",
    "xs", "argmax", "argmin", "is_monotonic_increasing", "cumprod", "ravel_", "index_", "from_codes", "from_product",
    "from_arrays", "from_pandas", "empty", "count", "to_series", "is_bool_dtype", "to_list", "lower", "upper",
    "take", "repeat", "unique", "fillna", "dropna", "where", "mask", "clip", "round", "diff", "cumprod", "cummax", "cummin",
    "std", "var", "prod", "dot", "flatten", "compress", "choose", "argpartition", "value_counts", "duplicated", "isin",
    "between", "notna", "notnull", "to_frame", "reset_index", "stack", "melt", "pivot", "merge", "explode", "nunique",
}
# methods / attributes whose result is a view of (or the same object as) the receiver
VIEW_METHODS = {"view", "to_numpy", "reshape", "ravel", "squeeze", "transpose", "__array__", "swapaxes"}
VIEW_ATTRS = {"values", "T", "index", "columns", "chunks", "indices", "dictionary", "codes", "levels", "cat", "iloc", "loc",
              "at", "iat", "real", "args", "arguments", "names", "categories", "_values", "array", "py_func"}
SCALAR_ATTRS = {"dtype", "kind", "shape", "ndim", "size", "name", "type", "start", "stop", "step", "nlevels", "null_count",
                "value", "ordered", "str", "itemsize", "__name__", "__doc__"}
# in-place mutators
INPLACE_METHODS = {"sort", "fill", "put", "resize", "partition", "itemset", "byteswap", "setflags", "append", "extend",
                   "insert", "remove", "clear", "update", "reverse", "setdefault", "popitem"}
# NumPy functions (not methods) that write their first argument
INPLACE_FUNCS = {"np.put", "np.place", "np.putmask", "np.copyto", "np.fill_diagonal", "np.put_along_axis",
                 "np.random.shuffle", "numpy.put", "numpy.place", "numpy.putmask", "numpy.copyto"}
COPY_FALSE_MUTATORS = {"np.nan_to_num", "numpy.nan_to_num"}
CONTAINER_MUTATORS = {"append", "extend", "insert", "remove", "clear", "update", "setdefault", "popitem", "reverse"}
# zero-copy conversions: result aliases the argument
ALIAS_CALLS = {"np.asarray", "np.asanyarray", "np.array_split", "pd.Series", "pd.DataFrame", "np.ravel", "np.squeeze",
               "np.atleast_1d", "np.transpose", "iter", "next", "reversed", "cast"}


def contain(os: Origins) -> Origins:
    """a fresh Python container (list/tuple/dict/...) whose elements have origins ``os``"""
    return frozenset([F] + ["E:" + x for x in os if x != F])


def load(os: Origins) -> Origins:
    """origins of an element taken out of something with origins ``os``: one container level is stripped;
    a non-container origin (array, frame, parameter) stays: an element/view of it aliases it"""
    out = set()
    for x in os:
        if x.startswith("E:"):
            out.add(x[2:])
        elif x != F:
            out.add(x)
    return frozenset(out) if out else FRESH


def deep(os: Origins) -> Origins:
    out = set()
    for x in os:
        while x.startswith("E:"):
            x = x[2:]
        out.add(x)
    return frozenset(out) if out else FRESH


def written(os: Origins) -> Set[str]:
    """origins of the object that a store into something with origins ``os`` modifies (not its elements);
    IX:<o> is the index/columns object of <o>: a store into it modifies something <o>'s owner sees"""
    out = set()
    for x in os:
        if x == F or x.startswith("E:"):
            continue
        while x.startswith("IX:"):
            x = x[3:]
        if x != F and not x.startswith("E:"):
            out.add(x)
    return out


def as_index(os: Origins) -> Origins:
    return frozenset((x if x == F or x.startswith("IX:") else "IX:" + x) for x in os) or FRESH


def union(*xs: Origins) -> Origins:
    out: Set[str] = set()
    for x in xs:
        out |= x
    return frozenset(out) if out else FRESH


def non_fresh(o: Origins) -> Set[str]:
    return {x for x in o if x != F}


class Summary:
    def __init__(self):
        self.returns: Origins = FRESH          # in terms of P:<param> / S:<attr> / F
        self.returns_pos: Optional[List[Origins]] = None   # per position, when every return is a tuple literal of one length
        self.writes: Dict[str, Tuple[ast.AST, str]] = {}   # param -> (node, what)
        self.sinks: List[Tuple[ast.AST, str, Origins]] = []  # every sink examined: (node, kind, origins of the written object)


class Fresh:
    def __init__(self, repo: Repo):
        self.repo = repo
        self.summaries: Dict[str, Summary] = {}
        self.in_progress: Set[str] = set()
        self.by_name: Dict[str, List[Func]] = {}
        for f in repo.all_functions():
            if f.module.name in ANALYSED_MODULES:
                self.by_name.setdefault(f.name, []).append(f)

    def key(self, f: Func) -> str:
        return f"{f.module.name}:{f.qualname}"

    # ------------------------------------------------------------------ resolution of repo callees
    def resolve(self, f: Func, func_expr: ast.AST) -> List[Func]:
        c = attr_chain(func_expr)
        if c is None:
            return []
        name = c[-1]
        cands = self.by_name.get(name, [])
        if not cands:
            return []
        if len(c) == 1:
            # module-level function of this module or an imported one; nested function of f
            out = [g for g in cands if g.cls is None and (g.module is f.module or "." not in g.qualname)]
            nested = [g for g in cands if g.qualname.startswith(f.qualname + ".")]
            return nested or out
        if c[0] == "self" and len(c) == 2:
            return [g for g in cands if g.cls == f.cls and g.module is f.module] or \
                   [g for g in cands if g.cls is not None and g.module is f.module]
        if c[0] in ("numba_funcs", "nanops", "GroupBy", "ScalarFuncs", "NumbaReductionOps") or c[-2:-1] == ("_grouper",):
            return cands
        if len(c) >= 2 and c[-2] in ("_grouper", "grouper", "gb"):
            return cands
        return []

    # ------------------------------------------------------------------ summaries
    def summary(self, f: Func) -> Summary:
        k = self.key(f)
        if k in self.summaries:
            return self.summaries[k]
        if k in self.in_progress:
            return Summary()
        self.in_progress.add(k)
        s = Summary()
        env: Dict[str, Origins] = {}
        for p in f.named_params:
            env[p] = frozenset([f"P:{p}"])
        a = f.node.args
        if a.vararg:
            env[a.vararg.arg] = frozenset([f"P:*{a.vararg.arg}"])
        if a.kwarg:
            env[a.kwarg.arg] = frozenset([f"P:**{a.kwarg.arg}"])
        if f.parent is not None:
            # closure: free variables alias whatever they alias in the enclosing function (conservatively: its params)
            pass
        self.rets: List[Origins] = []
        w = _Walker(self, f, s)
        w.block(f.node.body, env)
        s.returns = union(*w.rets) if w.rets else FRESH
        if w.rets_pos and all(rp is not None and len(rp) == len(w.rets_pos[0]) for rp in w.rets_pos):
            s.returns_pos = [union(*[rp[i] for rp in w.rets_pos]) for i in range(len(w.rets_pos[0]))]
        self.in_progress.discard(k)
        self.summaries[k] = s
        return s


class _Walker:
    def __init__(self, fr: Fresh, f: Func, s: Summary):
        self.fr = fr
        self.f = f
        self.s = s
        self.rets: List[Origins] = []
        self.rets_pos: List[Optional[List[Origins]]] = []
        self.closure_env: Dict[str, Origins] = {}
        self.func_alias: Dict[str, List[Func]] = {}
        self.last_call_pos: Dict[int, List[Origins]] = {}
        self.scalar_like: Set[str] = set()
        # names that certainly do not hold a slice object: loop variables, counters, lengths
        self.not_slice: Set[str] = set()
        for n in walk_no_nested(f.node):
            if isinstance(n, ast.For):
                for x in ast.walk(n.target):
                    if isinstance(x, ast.Name):
                        self.not_slice.add(x.id)
            if isinstance(n, ast.Assign) and len(n.targets) == 1 and isinstance(n.targets[0], ast.Name):
                v = n.value
                if isinstance(v, ast.Constant) and isinstance(v.value, int) or (
                        isinstance(v, ast.Call) and norm(v.func) in ("len", "int", "range")) or isinstance(v, ast.BinOp) or (
                        isinstance(v, ast.Subscript) and not any(isinstance(x, ast.Slice) for x in ast.walk(v.slice))):
                    self.not_slice.add(n.targets[0].id)
            if isinstance(n, ast.AugAssign) and isinstance(n.target, ast.Name):
                self.not_slice.add(n.target.id)
        maybe_slice: Set[str] = set(f.named_params)
        changed = True
        assigns = [n for n in walk_no_nested(f.node) if isinstance(n, ast.Assign)]
        while changed:
            changed = False
            for n in assigns:
                v = n.value
                cands = [v.body, v.orelse] if isinstance(v, ast.IfExp) else [v]
                hit = any((isinstance(c, ast.Call) and norm(c.func) == "slice") or
                          (isinstance(c, ast.Name) and c.id in maybe_slice) or
                          # the label permutation is an index array OR slice(None) (see GroupBy._labels_argsort)
                          (isinstance(c, ast.Attribute) and c.attr == "_labels_argsort") for c in cands)
                if hit:
                    for t in n.targets:
                        if isinstance(t, ast.Name) and t.id not in maybe_slice:
                            maybe_slice.add(t.id)
                            changed = True
        # names bound (only) to call results / attributes / comparisons and never to ints or slices: arrays when used as an index
        self.array_names: Set[str] = set()
        by_target: Dict[str, List[ast.AST]] = {}
        for n in assigns:
            for t in n.targets:
                if isinstance(t, ast.Name):
                    by_target.setdefault(t.id, []).append(n.value)
        for nm, vals in by_target.items():
            if nm in maybe_slice:
                continue
            if all(isinstance(v, (ast.Compare,)) or (isinstance(v, ast.Attribute) and v.attr not in SCALAR_ATTRS)
                   or (isinstance(v, ast.Call) and norm(v.func) not in ("len", "int", "range", "slice", "min", "max", "sum"))
                   or (isinstance(v, ast.Subscript) and isinstance(v.slice, (ast.Compare, ast.Name)))
                   for v in vals):
                self.array_names.add(nm)
        all_names = {n.id for n in ast.walk(f.node) if isinstance(n, ast.Name)}
        self.not_slice |= (all_names - maybe_slice)
        self.not_slice -= {n for n in maybe_slice if n not in {x.id for l in walk_no_nested(f.node) if isinstance(l, ast.For)
                                                              for x in ast.walk(l.target) if isinstance(x, ast.Name)}}

    # ---- expressions
    def ev(self, e: Optional[ast.AST], env: Dict[str, Origins]) -> Origins:
        if e is None or isinstance(e, ast.Constant):
            return FRESH
        if isinstance(e, ast.Name):
            if e.id in env:
                return env[e.id]
            if e.id in self.closure_env:
                return self.closure_env[e.id]
            return FRESH     # module-level names / builtins: functions and constants
        if isinstance(e, ast.Attribute):
            c = attr_chain(e)
            if c and c[0] == "self" and len(c) >= 2 and "self" in env:
                base = frozenset([f"S:{c[1]}"])
                if c[1] in ("_result_index", "result_index", "_key_index"):
                    base = as_index(base)
                props = [g for g in self.fr.by_name.get(c[1], []) if g.cls == self.f.cls and g.module is self.f.module
                         and ("property" in g.decorators or "cached_property" in g.decorators)]
                if props:
                    sm = self.fr.summary(props[0])
                    r = set()
                    for x in sm.returns:
                        r.add(x if not x.startswith("P:self") else f"S:{c[1]}")
                    if "cached_property" in props[0].decorators:
                        # the object computed at the first access is stored on the instance and handed out again
                        # on every later access: reading it yields grouping-owned state, however fresh it was when built
                        r.discard(F)
                        r.add(f"S:{c[1]}")
                    base = frozenset(r) if r else FRESH
                if len(c) == 2:
                    return base
                if c[-1] in SCALAR_ATTRS:
                    return FRESH
                return base
            if e.attr in SCALAR_ATTRS:
                self.ev(e.value, env)
                return FRESH
            if e.attr in ("index", "columns", "names", "levels", "categories"):
                return as_index(deep(self.ev(e.value, env)))
            return self.ev(e.value, env)          # view-like by default
        if isinstance(e, ast.Subscript):
            base = self.ev(e.value, env)
            self.ev(e.slice, env)
            if isinstance(e.value, ast.Attribute) and e.value.attr in ("iloc", "loc", "at", "iat"):
                return FRESH                       # pandas indexers return new objects (copy-on-write)
            if written(base) and all(x == F or x.startswith("IX:") for x in base):
                return FRESH                       # indexing an Index returns a new Index object (immutable values)
            if any(x.startswith("E:") for x in base) and not written(base):
                return load(base)                  # element of a Python container
            if self.may_be_view(e.slice, env):
                return load(base)                  # view of the base
            if self.f.is_njit:
                return FRESH                       # in a compiled kernel an integer index yields a scalar
            if self.array_like_index(e.slice):
                return FRESH                       # fancy indexing copies
            return load(base)                      # integer index outside kernels: an element of a (caller's) container
        if isinstance(e, (ast.BinOp, ast.Compare, ast.UnaryOp, ast.BoolOp, ast.JoinedStr, ast.FormattedValue)):
            for c in ast.iter_child_nodes(e):
                if isinstance(c, ast.expr):
                    self.ev(c, env)
            if isinstance(e, ast.BoolOp):
                return union(*[self.ev(v, env) for v in e.values])
            return FRESH                           # arithmetic / comparison allocate
        if isinstance(e, ast.IfExp):
            self.ev(e.test, env)
            return union(self.ev(e.body, env), self.ev(e.orelse, env))
        if isinstance(e, (ast.Tuple, ast.List, ast.Set)):
            items = []
            for x in e.elts:
                if isinstance(x, ast.Starred):
                    items.append(load(self.ev(x.value, env)))
                else:
                    items.append(self.ev(x, env))
            return contain(union(*items)) if items else FRESH
        if isinstance(e, ast.Dict):
            vals = []
            for k, v in zip(e.keys, e.values):
                vals.append(load(self.ev(v, env)) if k is None else self.ev(v, env))
            return contain(union(*vals)) if vals else FRESH
        if isinstance(e, (ast.ListComp, ast.SetComp, ast.GeneratorExp, ast.DictComp)):
            inner = dict(env)
            for g in e.generators:
                it = load(self.ev(g.iter, inner))
                self.bind_target(g.target, it, inner)
                for c in g.ifs:
                    self.ev(c, inner)
            if isinstance(e, ast.DictComp):
                self.ev(e.key, inner)
                return contain(self.ev(e.value, inner))
            return contain(self.ev(e.elt, inner))
        if isinstance(e, ast.Lambda):
            return FRESH
        if isinstance(e, ast.Starred):
            return self.ev(e.value, env)
        if isinstance(e, ast.Call):
            return self.call(e, env)
        if isinstance(e, ast.Slice):
            for c in (e.lower, e.upper, e.step):
                self.ev(c, env)
            return FRESH
        if isinstance(e, ast.NamedExpr):
            v = self.ev(e.value, env)
            env[e.target.id] = v
            return v
        return FRESH

    def call(self, e: ast.Call, env: Dict[str, Origins]) -> Origins:
        cn = call_name(e) or ""
        args = [a.value if isinstance(a, ast.Starred) else a for a in e.args]
        arg_o = [self.ev(a, env) for a in args]
        kw_o = {k.arg: self.ev(k.value, env) for k in e.keywords}
        recv_o = self.ev(e.func.value, env) if isinstance(e.func, ast.Attribute) else FRESH
        meth = e.func.attr if isinstance(e.func, ast.Attribute) else None
        # ---- sinks expressed as calls
        if "out" in kw_o and written(kw_o["out"]):
            self.sink(e, f"out= of {cn}", kw_o["out"])
        overwrite = next((k for k in e.keywords if k.arg == "overwrite_input"), None)
        if overwrite is not None and not (isinstance(overwrite.value, ast.Constant) and overwrite.value.value is False) and arg_o:
            # np.median / np.percentile / np.partition-style permission to scramble the first argument
            self.sink(e, f"{cn}(overwrite_input=..)", arg_o[0])
        inplace = next((k for k in e.keywords if k.arg == "inplace"), None)
        if inplace is not None and not (isinstance(inplace.value, ast.Constant) and inplace.value.value is False):
            self.sink(e, f"{meth}(inplace=True)", recv_o)
        if meth in INPLACE_METHODS and isinstance(e.func, ast.Attribute):
            self.sink(e, f"in-place method .{meth}()", recv_o, container=meth in CONTAINER_MUTATORS)
        # library functions that write their first argument in place
        if cn in INPLACE_FUNCS and args:
            self.sink(e, f"{cn} writes its first argument", arg_o[0])
        copy_kw = next((k for k in e.keywords if k.arg == "copy"), None)
        if cn in COPY_FALSE_MUTATORS and args and copy_kw is not None and isinstance(copy_kw.value, ast.Constant) \
                and copy_kw.value.value is False:
            self.sink(e, f"{cn}(copy=False) rewrites its argument", arg_o[0])
        if cn == "locals" and not args:
            return frozenset(["LOCALS"])
        if meth == "copy" and "LOCALS" in recv_o:
            return recv_o
        # ---- container re-builders
        if cn in ("list", "tuple", "set", "sorted", "reversed", "frozenset") and len(args) == 1:
            return contain(load(arg_o[0]))
        if cn == "zip":
            return contain(contain(union(*[load(o) for o in arg_o]))) if arg_o else FRESH
        if cn == "enumerate" and arg_o:
            return contain(contain(load(arg_o[0])))
        if cn == "dict":
            inner = [deep(o) for o in arg_o] + [o for k, o in kw_o.items() if k is not None] + \
                    [deep(o) for k, o in kw_o.items() if k is None]
            return contain(union(*inner)) if inner else FRESH
        if cn == "map" and len(args) >= 2:
            fn = args[0]
            elems = union(*[load(o) for o in arg_o[1:]])
            fake = ast.Call(func=fn, args=[ast.Name(id="$elem", ctx=ast.Load())], keywords=[])
            env2 = dict(env)
            env2["$elem"] = elems
            return contain(self.call(fake, env2))
        if meth in ("items",) and not args:
            return contain(contain(load(recv_o)))
        if meth in ("values",) and not args and isinstance(e.func, ast.Attribute):
            return contain(load(recv_o))
        if meth in ("get",) and isinstance(e.func, ast.Attribute):
            return load(recv_o)
        # ---- parallel_map(g, L): a call of g with each element of L
        if cn.split(".")[-1] == "parallel_map" and len(args) >= 2:
            gs = self.fr.resolve(self.f, args[0]) if isinstance(args[0], (ast.Name, ast.Attribute)) else []
            if not gs and isinstance(args[0], ast.Name):
                gs = self.func_alias.get(args[0].id, [])
            if not gs and isinstance(args[0], ast.Lambda):
                inner_calls = [c for c in ast.walk(args[0].body) if isinstance(c, ast.Call)]
                for c in inner_calls:
                    gs += self.fr.resolve(self.f, c.func)
            elems = load(load(arg_o[1]))
            if gs:
                outs = []
                for g in gs[:40]:
                    sm = self.fr.summary(g)
                    bind = {p: elems for p in g.named_params}
                    for p, (node, what) in sm.writes.items():
                        if written(elems) and not p.startswith("self."):
                            self.sink(e, f"{g.qualname} (via parallel_map) writes its parameter {p!r} ({what})"[:150], elems)
                    outs.append(self.subst(sm.returns, bind, FRESH, False))
                return contain(union(*outs))
            return contain(union(elems, arg_o[0]))         # unknown (user) function: derived from what it is given
        # ---- repo callees
        callees = self.fr.resolve(self.f, e.func)
        if not callees and isinstance(e.func, ast.Name) and e.func.id in self.func_alias:
            callees = self.func_alias[e.func.id]
        if callees:
            outs: List[Origins] = []
            for g in callees[:6]:
                sm = self.fr.summary(g)
                params = g.named_params
                skip = 1 if params[:1] in (["self"], ["cls"]) and isinstance(e.func, ast.Attribute) \
                    and attr_chain(e.func) and attr_chain(e.func)[0] != "GroupBy" else 0
                bind: Dict[str, Origins] = {}
                for i, o in enumerate(arg_o):
                    if i + skip < len(params):
                        bind[params[i + skip]] = o
                for k, o in kw_o.items():
                    if k in params:
                        bind[k] = o
                    elif k is None:
                        if "LOCALS" in o:
                            # f(**locals()): every parameter is bound by name from the caller's locals
                            for p in params:
                                if p in env and p not in bind:
                                    bind[p] = env[p]
                        rest = frozenset(x for x in o if x != "LOCALS")
                        if rest:
                            for p in params:
                                bind.setdefault(p, load(rest))
                if skip:
                    bind[params[0]] = recv_o
                # written parameters
                for p, (node, what) in sm.writes.items():
                    o = bind.get(p)
                    if o is not None and written(o):
                        self.sink(e, f"{g.qualname} writes its parameter {p!r} ({what})"[:150], o)
                # result: substitute the callee's parameters (at any container depth) by the actuals
                same_self = bool(skip and "self" in env and attr_chain(e.func)[0] == "self")
                outs.append(self.subst(sm.returns, bind, recv_o, same_self))
                if sm.returns_pos is not None:
                    pos = [self.subst(o, bind, recv_o, same_self) for o in sm.returns_pos]
                    prev = self.last_call_pos.get(id(e))
                    self.last_call_pos[id(e)] = pos if prev is None or len(prev) != len(pos) else \
                        [union(a, b) for a, b in zip(prev, pos)]
            return union(*outs)
        # ---- tables
        if cn in FRESH_CALLS or (meth in FRESH_METHODS):
            return FRESH
        if meth in VIEW_METHODS:
            return recv_o
        if cn in ALIAS_CALLS or cn.endswith("_val_to_numpy"):
            # copy=True makes it fresh
            if any(k.arg == "copy" and isinstance(k.value, ast.Constant) and k.value.value is True for k in e.keywords):
                return FRESH
            if cn in ("pd.Series", "pd.DataFrame"):
                # a new pandas object whose buffers may be the data argument's (copy=False) and whose index is the one given
                parts = [deep(o) for o in arg_o[:1]] + [as_index(deep(o)) for o in arg_o[1:2]] + \
                        [deep(o) for k, o in kw_o.items() if k == "data"] + \
                        [as_index(deep(o)) for k, o in kw_o.items() if k == "index"]
                out = contain(union(*parts)) if parts else FRESH
                # a pandas object built directly over grouping-owned storage (no copy): handing it out hands out the state
                data_o = arg_o[0] if arg_o else kw_o.get("data", FRESH)
                wrapped = {"W:" + x for x in data_o if x.startswith("S:")}
                return frozenset(out | wrapped) if wrapped else out
            return union(*(arg_o + list(kw_o.values()))) if (arg_o or kw_o) else FRESH
        # unknown call: conservatively derived from everything it was given
        return union(recv_o, *(arg_o + list(kw_o.values())))

    def subst(self, origins: Origins, bind: Dict[str, Origins], recv_o: Origins, same_self: bool) -> Origins:
        r: Set[str] = set()
        for x in origins:
            pre = ""
            core = x
            while core.startswith("E:") or core.startswith("IX:"):
                k = 2 if core.startswith("E:") else 3
                pre += core[:k]
                core = core[k:]
            if core.startswith("P:"):
                sub = bind.get(core[2:])
                if sub is None:
                    sub = FRESH          # default value of an unbound parameter
            elif core.startswith("S:"):
                sub = frozenset([core]) if same_self else recv_o
            else:
                sub = frozenset([core])
            for y in sub:
                r.add(y if y == F else pre + y)
        return frozenset(r) if r else FRESH

    def may_be_view(self, sl: ast.AST, env) -> bool:
        """can indexing with ``sl`` return a view?  slices do; integers give scalars (or rows), arrays give copies"""
        for n in ast.walk(sl):
            if isinstance(n, ast.Slice):
                return True
            if isinstance(n, ast.Name):
                if n.id in self.not_slice:
                    continue
                return True                        # a name that may hold a slice object
            if isinstance(n, ast.Call) and norm(n.func) == "slice":
                return True
            if isinstance(n, ast.Attribute) and n.attr == "_labels_argsort":
                return True
        return False

    def positional(self, value: ast.AST, env) -> Optional[List[Origins]]:
        """per-position origins of a tuple-valued expression, when they can be told apart"""
        if isinstance(value, ast.Tuple) and not any(isinstance(x, ast.Starred) for x in value.elts):
            return [self.ev(x, env) for x in value.elts]
        if isinstance(value, ast.Call) and id(value) in self.last_call_pos:
            return self.last_call_pos[id(value)]
        # zip(*map(g, xs)) / zip(*list(map(g, xs))): transposition of a list of tuples
        if isinstance(value, ast.Call) and norm(value.func) == "zip" and len(value.args) == 1 \
                and isinstance(value.args[0], ast.Starred):
            inner = value.args[0].value
            while isinstance(inner, ast.Call) and norm(inner.func) in ("list", "tuple") and len(inner.args) == 1:
                inner = inner.args[0]
            if isinstance(inner, ast.Call) and norm(inner.func) == "map" and len(inner.args) == 2:
                gs = self.fr.resolve(self.f, inner.args[0])
                if gs:
                    sm = self.fr.summary(gs[0])
                    if sm.returns_pos is not None and gs[0].named_params:
                        elems = load(self.ev(inner.args[1], env))
                        bind = {gs[0].named_params[0]: elems}
                        return [contain(self.subst(o, bind, FRESH, False)) for o in sm.returns_pos]
        return None

    def array_like_index(self, sl: ast.AST) -> bool:
        """the index is a name bound to the result of a call / attribute (an array), or a comparison / array expression"""
        if isinstance(sl, (ast.Compare, ast.UnaryOp, ast.BinOp)) and not isinstance(sl, ast.Constant):
            return any(isinstance(n, (ast.Name, ast.Attribute)) for n in ast.walk(sl)) and isinstance(sl, (ast.Compare,)) \
                or (isinstance(sl, ast.UnaryOp) and isinstance(sl.op, ast.Invert))
        if isinstance(sl, ast.Name):
            return sl.id in self.array_names
        if isinstance(sl, ast.Attribute):
            c = attr_chain(sl)
            # NB: self._labels_argsort is an index array OR slice(None) (already-sorted / categorical / unsorted-by-request
            # labels), so X[self._labels_argsort] may be a view of X - it is not in this list
            return bool(c) and c[0] == "self" and c[-1] in ("group_ikey", "_group_ikey", "_group_sort_indexer")
        if isinstance(sl, ast.Subscript):
            return self.array_like_index(sl.value)
        return False

    def bind_target(self, t: ast.AST, o: Origins, env: Dict[str, Origins]):
        if isinstance(t, ast.Name):
            env[t.id] = o
            self.not_slice.add(t.id)               # loop variables over arrays / ranges are elements, not slices
            if not self.f.is_njit and any(x != F for x in o):
                self.array_names.add(t.id)         # an element of a container of arrays is an array: fancy index when used as one
        elif isinstance(t, (ast.Tuple, ast.List)):
            for el in t.elts:
                self.bind_target(el.value if isinstance(el, ast.Starred) else el, load(o), env)

    # ---- sinks
    def sink(self, node: ast.AST, kind: str, o: Origins, container: bool = False):
        w = frozenset(written(o)) or FRESH
        self.s.sinks.append((node, kind, w))
        for x in written(o):
            if x.startswith("P:"):
                self.s.writes.setdefault(x[2:], (node, kind))
            elif x.startswith("S:"):
                self.s.writes.setdefault("self." + x[2:], (node, kind))

    def store(self, t: ast.AST, stmt: ast.stmt, env: Dict[str, Origins], value_o: Origins):
        if isinstance(t, ast.Name):
            env[t.id] = value_o
            v = getattr(stmt, "value", None)
            if isinstance(v, ast.Subscript) and not any(isinstance(x, ast.Slice) for x in ast.walk(v.slice)):
                self.scalar_like.add(t.id)          # bound to an indexed element: a scalar in every kernel of this repo
            elif isinstance(v, (ast.Constant, ast.BinOp, ast.Compare, ast.UnaryOp)):
                self.scalar_like.add(t.id)
            else:
                self.scalar_like.discard(t.id)
            if isinstance(v, ast.Call) and norm(v.func) == "getattr" and len(v.args) >= 2:
                target = norm(v.args[0])
                pre = ""
                if isinstance(v.args[1], ast.JoinedStr):
                    pre = "".join(x.value for x in v.args[1].values if isinstance(x, ast.Constant))
                modmap = {"numba_funcs": ("groupby.numba", None), "ScalarFuncs": ("groupby.numba", "ScalarFuncs"),
                          "numba_funcs.ScalarFuncs": ("groupby.numba", "ScalarFuncs"),
                          "NumbaReductionOps": ("util", "NumbaReductionOps"), "nanops": ("nanops", None)}
                if target == "self" and self.f.cls:
                    m = self.f.module
                    self.func_alias[t.id] = [g for q, g in m.methods(self.f.cls).items()
                                             if not q.startswith("_") and g is not self.f
                                             and "property" not in g.decorators and "cached_property" not in g.decorators
                                             and (self.f.module.name != "groupby.core" or "values" in g.named_params)]
                if target in modmap:
                    mname, cls = modmap[target]
                    m = self.fr.repo.modules.get(mname)
                    if m is not None:
                        self.func_alias[t.id] = [g for g in m.functions.values()
                                                 if g.cls == cls and g.parent is None and not g.name.startswith("_")
                                                 and g.name.startswith(pre)]
            if isinstance(v, (ast.Name, ast.Attribute, ast.IfExp)):
                fs: List[Func] = []
                for cand in ([v.body, v.orelse] if isinstance(v, ast.IfExp) else [v]):
                    c2 = cand
                    if isinstance(c2, ast.Attribute) and c2.attr == "py_func":
                        c2 = c2.value
                    fs += self.fr.resolve(self.f, c2) if isinstance(c2, (ast.Name, ast.Attribute)) else []
                if fs:
                    self.func_alias[t.id] = fs
        elif isinstance(t, (ast.Tuple, ast.List)):
            for el in t.elts:
                self.store(el.value if isinstance(el, ast.Starred) else el, stmt, env, load(value_o))
        elif isinstance(t, ast.Subscript):
            base = self.ev(t.value, env)
            self.ev(t.slice, env)
            self.sink(t, f"element store {norm(t)[:40]} = ...", base)
            root = t.value
            while isinstance(root, ast.Subscript):
                root = root.value
            if isinstance(root, ast.Name) and root.id in env and not written(env[root.id]):
                # a local container now also holds the stored value
                env[root.id] = union(env[root.id], frozenset("E:" + x for x in value_o if x != F))
        elif isinstance(t, ast.Attribute):
            c = attr_chain(t)
            if c and c[0] == "self" and len(c) == 2:
                return                         # rebinding an attribute of self (S4's business), not a store into an object
            base = self.ev(t.value, env)
            self.sink(t, f"attribute store {norm(t)[:40]} = ...", base)

    # ---- statements
    def block(self, stmts: List[ast.stmt], env: Dict[str, Origins]) -> Dict[str, Origins]:
        for st in stmts:
            env = self.stmt(st, env)
        return env

    def join(self, a: Dict[str, Origins], b: Dict[str, Origins]) -> Dict[str, Origins]:
        out = {}
        for k in set(a) | set(b):
            if k in a and k in b:
                out[k] = union(a[k], b[k])
            else:
                out[k] = a.get(k, b.get(k))
        return out

    def stmt(self, st: ast.stmt, env: Dict[str, Origins]) -> Dict[str, Origins]:
        if isinstance(st, ast.Assign):
            v = self.ev(st.value, env)
            env = dict(env)
            for t in st.targets:
                pos = self.positional(st.value, env)
                if pos is not None and isinstance(t, (ast.Tuple, ast.List)) and len(t.elts) == len(pos) \
                        and not any(isinstance(x, ast.Starred) for x in t.elts):
                    for el, o in zip(t.elts, pos):
                        fake = ast.Assign(targets=[el], value=ast.Constant(value=None))
                        self.store(el, fake if isinstance(el, ast.Name) else st, env, o)
                        if isinstance(el, ast.Name):
                            self.scalar_like.discard(el.id)
                else:
                    self.store(t, st, env, v)
            return env
        if isinstance(st, ast.AnnAssign):
            if st.value is not None:
                v = self.ev(st.value, env)
                env = dict(env)
                self.store(st.target, st, env, v)
            return env
        if isinstance(st, ast.AugAssign):
            self.ev(st.value, env)
            t = st.target
            if isinstance(t, ast.Name):
                o = env.get(t.id, FRESH)
                if written(o) and t.id not in self.scalar_like:
                    self.sink(st, f"augmented assignment {norm(st)[:40]} (in place for arrays)", o)
                return env
            env = dict(env)
            self.store(t, st, env, FRESH)
            return env
        if isinstance(st, ast.Expr):
            self.ev(st.value, env)
            return env
        if isinstance(st, ast.Return):
            self.rets.append(self.ev(st.value, env) if st.value is not None else FRESH)
            if isinstance(st.value, ast.Tuple) and not any(isinstance(x, ast.Starred) for x in st.value.elts):
                self.rets_pos.append([self.ev(x, env) for x in st.value.elts])
            else:
                self.rets_pos.append(None)
            return env
        if isinstance(st, ast.If):
            self.ev(st.test, env)
            a = self.block(st.body, dict(env))
            b = self.block(st.orelse, dict(env))
            return self.join(a, b)
        if isinstance(st, (ast.For, ast.AsyncFor)):
            it = load(self.ev(st.iter, env))
            env = dict(env)
            zipped = st.iter
            if isinstance(zipped, ast.Call) and norm(zipped.func) == "enumerate" and zipped.args \
                    and isinstance(st.target, (ast.Tuple, ast.List)) and len(st.target.elts) == 2:
                self.bind_target(st.target.elts[0], FRESH, env)
                inner_t, zipped = st.target.elts[1], zipped.args[0]
            else:
                inner_t = st.target
            if isinstance(zipped, ast.Call) and norm(zipped.func) == "zip" and isinstance(inner_t, (ast.Tuple, ast.List)) \
                    and len(inner_t.elts) == len(zipped.args) and not any(isinstance(a, ast.Starred) for a in zipped.args):
                # for a, b in zip(xs, ys): a is an element of xs, b an element of ys (position-wise, not the union)
                for el, a in zip(inner_t.elts, zipped.args):
                    self.bind_target(el, load(self.ev(a, env)), env)
            elif inner_t is st.target:
                self.bind_target(st.target, it, env)
            else:
                self.bind_target(inner_t, load(self.ev(zipped, env)), env)
            once = self.block(st.body, dict(env))
            env = self.join(env, once)
            twice = self.block(st.body, dict(env))
            env = self.join(env, twice)
            return self.block(st.orelse, env) if st.orelse else env
        if isinstance(st, ast.While):
            self.ev(st.test, env)
            once = self.block(st.body, dict(env))
            env = self.join(env, once)
            return self.join(env, self.block(st.body, dict(env)))
        if isinstance(st, ast.Try):
            a = self.block(st.body + st.orelse, dict(env))
            for h in st.handlers:
                a = self.join(a, self.block(h.body, dict(env)))
            return self.block(st.finalbody, a) if st.finalbody else a
        if isinstance(st, (ast.With, ast.AsyncWith)):
            env = dict(env)
            for item in st.items:
                v = self.ev(item.context_expr, env)
                if item.optional_vars is not None:
                    self.store(item.optional_vars, st, env, v)
            return self.block(st.body, env)
        if isinstance(st, (ast.FunctionDef, ast.AsyncFunctionDef)):
            # nested function: analysed on its own with this environment as closure
            q = self.f.qualname + "." + st.name
            g = self.f.module.functions.get(q)
            if g is not None:
                k = self.fr.key(g)
                if k not in self.fr.summaries and k not in self.fr.in_progress:
                    self.fr.in_progress.add(k)
                    s2 = Summary()
                    w2 = _Walker(self.fr, g, s2)
                    w2.closure_env = dict(env)
                    env2 = {p: frozenset([f"P:{p}"]) for p in g.named_params}
                    w2.block(g.node.body, env2)
                    s2.returns = union(*w2.rets) if w2.rets else FRESH
                    # closure origins that are the enclosing function's params / state surface as such
                    self.fr.in_progress.discard(k)
                    self.fr.summaries[k] = s2
                    for node, kind, o in s2.sinks:
                        for x in non_fresh(o):
                            if x.startswith("P:") and x[2:] in self.f.named_params and x[2:] not in g.named_params:
                                self.s.sinks.append((node, kind + f" (in nested {st.name})", o))
                                self.s.writes.setdefault(x[2:], (node, kind))
            return env
        if isinstance(st, ast.Delete):
            return env
        if isinstance(st, ast.Match):
            self.ev(st.subject, env)
            out = None
            for case in st.cases:
                o = self.block(case.body, dict(env))
                out = o if out is None else self.join(out, o)
            return out or env
        if isinstance(st, ast.Assert):
            self.ev(st.test, env)
            return env
        if isinstance(st, ast.Raise):
            self.ev(st.exc, env)
            return env
        return env


def _is_public(f: Func) -> bool:
    if f.parent is not None:
        return False
    if f.cls is not None:
        return not f.name.startswith("_") or f.name in ("__init__", "__getitem__", "__iter__")
    return not f.name.startswith("_")


# accessors that document returning grouping state (O2), with reason
STATE_ACCESSORS = {
    "GroupBy.group_ikey": "documented accessor of the codes",
    "GroupBy.result_index": "documented accessor of the labels",
    "GroupBy.groups": "cached mapping label -> positions",
    "GroupBy.ikey_count": "cached per-code counts",
    "GroupBy.key_count": "cached per-label counts",
    "GroupBy.ngroups": "scalar",
    "GroupBy.key_is_chunked": "scalar",
    "GroupBy.has_null_keys": "scalar",
    "BaseGroupBy.grouper": "accessor of the engine",
    "BaseGroupBy.groups": "delegates to GroupBy.groups",
    "BaseGroupBy.ngroups": "scalar",
}


O1_EXEMPT = {
    # one named exemption with reason
    ("GroupBy.quantile", "attribute store _.index.names = ... [_.index.names]"):
        "result.index is a new index object: quantile calls apply without transform, whose index is built by indexing "
        "the labels (Index.__getitem__ returns a new object) or by expand_index_to_new_level / set_levels; the "
        "transform path of apply, which shares the caller's index object, is not taken (path-insensitive join)",
}


def _anon_receiver(construct: str) -> str:
    """the exemption is for the construct, whatever the local that holds the result is called"""
    import re
    return re.sub(r"\b[A-Za-z_][A-Za-z_0-9]*(?=\.index\.names)", "_", construct)


def rule_O1(repo: Repo) -> RuleResult:
    res = RuleResult("O1", "no store, in-place call, out=/inplace= or augmented assignment reaches caller-owned or grouping-owned storage")
    fr = Fresh(repo)
    funcs = [f for f in repo.all_functions() if f.module.name in ANALYSED_MODULES]
    n_sinks = 0
    for f in funcs:
        s = fr.summary(f)
    # report: a sink whose written object may be a parameter of a PUBLIC function or grouping state
    for f in funcs:
        s = fr.summaries.get(fr.key(f))
        if s is None:
            continue
        for node, kind, o in s.sinks:
            n_sinks += 1
            bad = set()
            for x in non_fresh(o):
                if x.startswith("S:"):
                    # state of self: allowed only in __init__ / construction helpers when the object was created there
                    bad.add(x)
                elif x.startswith("P:") and _is_public(f):
                    bad.add(x)
            construct = f"{kind} [{norm(node)[:60]}]"
            if not non_fresh(o):
                res.ok(f, node, construct, "written object is fresh")
            elif not bad:
                res.ok(f, node, construct, f"writes parameter(s) {sorted(non_fresh(o))} of a private function: checked at its call sites",
                       nontrivial=False)
            elif (f.qualname, _anon_receiver(construct)) in O1_EXEMPT:
                res.exempt(f, node, construct, O1_EXEMPT[(f.qualname, _anon_receiver(construct))])
            else:
                what = ", ".join(sorted(("parameter " + b[2:]) if b.startswith("P:") else ("grouping state self." + b[2:]) for b in bad))
                res.bad(f, node, construct,
                        f"the written object may be {what} (not allocated by this operation): the caller's input or the "
                        f"grouping's own labels/codes would be modified")
    res.analysed = {"functions": len(funcs), "sinks": n_sinks}
    if n_sinks < 60:
        raise AnalysisError(f"O1: only {n_sinks} sinks examined (floor 60)")
    # positive fixture (the expected count on the repo is zero): must be reported on every run
    _fixture_must_fire(res)
    # de-duplicate
    seen, uniq = set(), []
    for v in res.violations:
        if v.key() not in seen:
            seen.add(v.key()); uniq.append(v)
    res.violations = uniq
    return res


FIXTURE_SRC = '''
import numpy as np
def public_op(values, mask):
    values[0] = 0
    mask &= mask
    np.add(values, 1, out=values)
    v = np.asarray(values)
    v.sort()
    w = values.copy()
    w[0] = 1
    return values
'''


def _fixture_must_fire(res: RuleResult):
    import types
    from .model import Module, _index_functions
    tree = ast.parse(FIXTURE_SRC)
    mod = Module(name="util", relpath="<fixture>", source=FIXTURE_SRC, tree=tree)
    _index_functions(mod)

    class _R:
        modules = {"util": mod}

        def all_functions(self):
            return mod.functions.values()
    fr = Fresh(_R())          # type: ignore[arg-type]
    s = fr.summary(mod.functions["public_op"])
    written = set(s.writes)
    fresh_sinks = [1 for _, _, o in s.sinks if not non_fresh(o)]
    if written != {"values", "mask"} or len(fresh_sinks) != 1 or "P:values" not in s.returns:
        raise AnalysisError(f"O1: positive fixture not reported as expected (writes={written}, fresh sinks={len(fresh_sinks)}, "
                            f"returns={sorted(s.returns)}): the freshness analysis is broken")


def _scalar_params(f: Func) -> Set[str]:
    """parameters that are scalars / flags / names by annotation or default"""
    out: Set[str] = set()
    a = f.node.args
    allp = a.posonlyargs + a.args + a.kwonlyargs
    defaults = f.param_defaults()
    for p in allp:
        ann = norm(p.annotation) if p.annotation is not None else ""
        d = defaults.get(p.arg)
        if any(t in ann for t in ("bool", "int", "float", "str", "Callable", "Literal")) and "Array" not in ann \
                and "ndarray" not in ann and "Series" not in ann:
            out.add(p.arg)
        elif isinstance(d, ast.Constant) and d.value is not None:
            out.add(p.arg)
        elif p.arg in ("func", "agg_func", "aggfunc", "method_name", "n", "q", "window", "min_periods", "ddof", "alpha",
                       "halflife", "ngroups", "n_threads", "axis", "skipna", "min_count", "key", "level", "by", "sep",
                       "na_rep", "precision", "bins", "max_diff", "n_groups", "reduce_func_name", "operation", "func_name"):
            out.add(p.arg)
    return out


O2_WRAPPERS = {
    "SeriesGroupBy.rolling": "returns a rolling wrapper that refers to the group-by object (not a result)",
    "DataFrameGroupBy.rolling": "returns a rolling wrapper that refers to the group-by object (not a result)",
    "DataFrameGroupBy.__getitem__": "returns a group-by wrapper over the selected columns of the same object (not a result)",
    "SeriesGroupBy._from_by_keys": "constructor", "DataFrameGroupBy._from_by_keys": "constructor",
}


def rule_O2(repo: Repo) -> RuleResult:
    res = RuleResult("O2", "results of public operations are fresh: they alias neither the caller's inputs nor grouping state")
    fr = Fresh(repo)
    n = 0
    for f in repo.all_functions():
        if f.module.name not in ("groupby.core", "groupby.api", "emas", "nanops", "groupby.numba", "util") or not _is_public(f):
            continue
        if f.name in ("__init__",) or f.cls in ("ScalarFuncs", "NumbaReductionOps") or f.is_njit:
            continue
        if f.module.name == "util" and f.name not in ("nb_dot", "bools_to_categorical", "pretty_cut"):
            continue
        if f.module.name == "groupby.numba" and not f.name.startswith(("group_", "rolling_", "cum", "find_")):
            continue
        if f.module.name == "groupby.core" and f.cls is None and f.name not in ("crosstab", "value_counts", "add_row_margin"):
            continue
        s = fr.summary(f)
        n += 1
        # decided: the returned OBJECT is not a parameter / a grouping attribute itself or a view-only derivation of it.
        # Buffers inside a new container/pandas object (E:...) are not decided here: they are kernel outputs, whose
        # freshness O1 checks at the kernels (written parameters bound to fresh arrays).
        scalars = _scalar_params(f)
        o = {x for x in s.returns if x not in (F, "LOCALS") and not x.startswith("E:") and "IX:" not in x}
        o = {("a pandas object wrapping (copy=False) grouping state " + x[4:]) if x.startswith("W:S:") else x for x in o}
        o = {x for x in o if not (x.startswith("P:") and (x[2:] in scalars or x[2:] in ("self", "cls")))}
        top = sorted(x for x in s.returns if not x.startswith("E:"))
        construct = f"returns({f.qualname}) = {top}"
        if not o:
            res.ok(f, f.node, construct, "fresh")
        elif f.qualname in STATE_ACCESSORS or "property" in f.decorators or "cached_property" in f.decorators:
            res.exempt(f, f.node, construct, STATE_ACCESSORS.get(f.qualname, "property accessor; O1 proves the library never writes it"))
        elif f.qualname in O2_WRAPPERS:
            res.exempt(f, f.node, construct, O2_WRAPPERS[f.qualname])
        elif f.module.name == "nanops" and f.name != "reduce_2d":
            res.exempt(f, f.node, construct, "returns a scalar aggregate / element of the array (immutable), not an array")
        else:
            res.bad(f, f.node, construct,
                    f"the result may alias {sorted(o)}: mutating the returned object afterwards would change the caller's "
                    f"input / the grouping, or a later identical call")
    if n < 60:
        raise AnalysisError(f"O2: only {n} public operations examined (floor 60)")
    return res
