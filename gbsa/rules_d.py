"""D rules: dispatch by constant propagation through the repo's dynamic idioms (I1-I8)."""
from __future__ import annotations

import ast
from typing import Dict, List, Optional, Set, Tuple

from . import specs
from .consteval import (CS, TOP, Binding, CallRecord, ClsRef, DictVal, Evaluator, FuncRef, ModRef, Named,
                        ParamVal, bind_call, cs)
from .model import AnalysisError, Func, Repo, norm, walk_no_nested
from .report import RuleResult

CORE = "groupby.core"
NB = "groupby.numba"


def calls_to(ev: Evaluator, target: Func) -> List[CallRecord]:
    out = []
    for r in ev.calls:
        if isinstance(r.callee, FuncRef) and target in r.callee.funcs:
            out.append(r)
    return out


def single_const(v, what: str) -> object:
    if isinstance(v, CS) and len(v.vals) == 1:
        return v.single
    raise AnalysisError(f"dispatch: {what} is not a single constant (got {v!r}); unrecognised dynamic construct")


def const_set(v, what: str) -> Set:
    if isinstance(v, CS):
        return set(v.vals)
    raise AnalysisError(f"dispatch: {what} is not a constant set (got {v!r}); unrecognised dynamic construct")


class Chain:
    """op -> func_name -> effective name -> group_* -> reducer names -> ScalarFuncs members"""

    def __init__(self, repo: Repo):
        self.repo = repo
        self.core = repo.mod(CORE)
        self.nb = repo.mod(NB)
        self.red = self.core.func("GroupBy._apply_gb_reduction")
        self.across = self.core.func("GroupBy._apply_gb_func_across_chunked_group_keys")
        from .canon import canon_func
        self.wrap = self.nb.func("_group_func_wrap")
        self.single = self.nb.func("_apply_group_method_single_chunk")
        # the same two functions with their locals renamed to inferred roles (what the evaluator is run on)
        self.wrap_c = canon_func(repo, NB, "_group_func_wrap")
        self.single_c = canon_func(repo, NB, "_apply_group_method_single_chunk")
        self.chunkargs = self.nb.func("_chunk_groupby_args")
        self.combine = self.nb.func("combine_chunk_results_for_factorized_key")
        self.gbr = self.nb.func("_group_by_reduce")

    # hop A: public method -> func_name
    def func_name_of(self, op: str) -> Tuple[str, CallRecord, Binding, Func]:
        m = self.core.func(f"GroupBy.{op}")
        ev = Evaluator(self.repo)
        ev.run(m)
        recs = calls_to(ev, self.red)
        if len(recs) != 1:
            raise AnalysisError(f"D1: GroupBy.{op} calls _apply_gb_reduction {len(recs)} times (expected 1)")
        b = bind_call(ev, recs[0], self.red)
        fn = single_const(b.values.get("func_name"), f"func_name at GroupBy.{op}")
        return fn, recs[0], b, m

    # hop B: func_name -> effective func name passed on
    def effective_name(self, func_name: str) -> Tuple[str, CallRecord]:
        ev = Evaluator(self.repo)
        ev.run(self.red, {"func_name": cs(func_name)})
        recs = calls_to(ev, self.across)
        if len(recs) != 1:
            raise AnalysisError(f"D1: _apply_gb_reduction calls the chunk dispatcher {len(recs)} times")
        b = bind_call(ev, recs[0], self.across)
        return single_const(b.values.get("func_name"), "effective func name"), recs[0]

    # hop C: effective name -> group_* function and chunk-merge reducer
    def group_func(self, eff: str) -> Tuple[Func, Tuple[Func, ...], dict]:
        ev = Evaluator(self.repo)
        env = ev.run(self.across, {"func_name": cs(eff)})
        # the locals are found by what they hold, not by their names: the kernel is the result of
        # getattr(numba_funcs, ...), the merge reducer is what reduce_array_pair receives as reducer=
        func_var = reducer_var = None
        for n in walk_no_nested(self.across.node):
            if isinstance(n, ast.Assign) and len(n.targets) == 1 and isinstance(n.targets[0], ast.Name) \
                    and isinstance(n.value, ast.Call) and norm(n.value.func) == "getattr" and n.value.args \
                    and norm(n.value.args[0]) == "numba_funcs":
                func_var = func_var or n.targets[0].id
            if isinstance(n, ast.Call) and norm(n.func).endswith("reduce_array_pair"):
                rk = next((k.value for k in n.keywords if k.arg == "reducer"), n.args[2] if len(n.args) > 2 else None)
                if isinstance(rk, ast.Name):
                    reducer_var = rk.id
        if func_var is None or reducer_var is None:
            raise AnalysisError("D1: kernel lookup / merge reducer of the chunk dispatcher not found")
        f = env.get(func_var)
        if not isinstance(f, FuncRef) or len(f.funcs) != 1:
            # find the getattr assignment value anywhere in the calls' envs
            raise AnalysisError(f"D1: getattr(numba_funcs, f'group_{{func_name}}') does not resolve for {eff!r} (got {f!r})")
        reducer = env.get(reducer_var)
        if not isinstance(reducer, FuncRef):
            raise AnalysisError(f"D2: merge reducer for {eff!r} in the chunked path does not resolve (got {reducer!r})")
        return f.funcs[0], reducer.funcs, env

    # hop D: group_* -> reducer names given to _group_func_wrap
    def reducer_names(self, g: Func) -> Tuple[Set[str], CallRecord, Binding]:
        ev = Evaluator(self.repo)
        ev.run(g)
        recs = calls_to(ev, self.wrap)
        if len(recs) != 1:
            raise AnalysisError(f"D1: {g.qualname} calls _group_func_wrap {len(recs)} times (expected 1)")
        b = bind_call(ev, recs[0], self.wrap)
        names = const_set(b.values.get("reduce_func_name"), f"reduce_func_name at {g.qualname}")
        return set(names), recs[0], b

    # hop E: inside _group_func_wrap
    def wrap_facts(self, name: str) -> dict:
        ev = Evaluator(self.repo)
        env = ev.run(self.wrap_c, {"reduce_func_name": cs(name)})
        out: dict = {"ev": ev}
        direct = calls_to(ev, self.single)
        via = calls_to(ev, self.chunkargs)
        comb = calls_to(ev, self.combine)
        if len(direct) != 1 or len(via) != 1 or len(comb) != 1:
            raise AnalysisError(f"D1: _group_func_wrap structure changed (single={len(direct)}, chunked={len(via)}, combine={len(comb)})")
        bd = bind_call(ev, direct[0], self.single)
        out["direct_name"] = bd.values.get("reduce_func_name")
        bv = bind_call(ev, via[0], self.chunkargs)
        out["chunked_name"] = bv.values.get("reduce_func_name")
        bc = bind_call(ev, comb[0], self.combine)
        out["merge_name"] = bc.values.get("reduce_func_name")
        out["merge_chunks"] = bc.values.get("chunks")
        out["merge_counts"] = bc.values.get("counts")
        out["merge_rec"] = comb[0]
        out["direct_rec"] = direct[0]
        out["returns"] = ev.returns
        out["env"] = env
        return out

    # hop E': _chunk_groupby_args forwards reduce_func_name into bind_partial
    def chunkargs_forwards(self) -> List[Tuple[ast.AST, bool]]:
        ev = Evaluator(self.repo)
        ev.run(self.chunkargs, {"reduce_func_name": cs("<R>")})
        kw = None
        for r in ev.calls:
            pass
        # every element of chunked_args is kwargs | chunk ; kwargs = locals().copy() minus n_chunks
        out = []
        for n in walk_no_nested(self.chunkargs.node):
            if isinstance(n, ast.BinOp) and isinstance(n.op, ast.BitOr) and isinstance(n.left, ast.Name) \
                    and n.left.id == "kwargs":
                out.append(n)
        return out

    # hop F: reducer name -> ScalarFuncs member + accumulator operation
    def single_chunk(self, name: str) -> Tuple[Tuple[Func, ...], object, CallRecord]:
        ev = Evaluator(self.repo)
        ev.run(self.single_c, {"reduce_func_name": cs(name)})
        recs = calls_to(ev, self.gbr)
        if len(recs) != 1:
            raise AnalysisError("D1: _apply_group_method_single_chunk no longer calls _group_by_reduce exactly once")
        b = bind_call(ev, recs[0], self.gbr)
        rf = b.values.get("reduce_func")
        if not isinstance(rf, FuncRef):
            raise AnalysisError(f"D1: getattr(ScalarFuncs, {name!r}) does not resolve (got {rf!r})")
        tgt = [r for r in ev.calls if isinstance(r.callee, FuncRef)
               and r.callee.funcs[0].qualname == "_build_target_for_groupby"]
        op = None
        if tgt:
            bt = bind_call(ev, tgt[0], tgt[0].callee.funcs[0])
            op = bt.values.get("operation")
        return rf.funcs, op, recs[0]


def _class_of(f: Func) -> Optional[str]:
    if f.cls != "ScalarFuncs":
        return None
    return specs.ROW_CLASS_OF.get(f.name)


PUBLIC_OPS = ["size", "count", "sum", "mean", "min", "max", "first", "last"]


def rule_D1(repo: Repo) -> RuleResult:
    res = RuleResult("D1", "public reduction -> kernel -> reducer dispatch resolves to the class the operation is defined by")
    ch = Chain(repo)
    ops: List[Tuple[str, Optional[str]]] = [(op, None) for op in PUBLIC_OPS]
    # sum_squares is reached through GroupBy.var
    ops.append(("sum_squares", "var"))
    for op, via in ops:
        if via is None:
            fn, rec, b, m = ch.func_name_of(op)
        else:
            m = ch.core.func(f"GroupBy.{via}")
            ev = Evaluator(repo)
            ev.run(m)
            recs = [r for r in calls_to(ev, ch.red)]
            fns = []
            for r in recs:
                bb = bind_call(ev, r, ch.red)
                v = bb.values.get("func_name")
                if isinstance(v, CS) and v.vals == frozenset([op]):
                    fns.append((r, bb))
            if len(fns) != 1:
                raise AnalysisError(f"D1: GroupBy.{via} no longer calls _apply_gb_reduction('{op}') exactly once")
            rec, b = fns[0]
            fn = op
        res.ok(m, rec.node, f"GroupBy.{via or op} -> func_name={fn!r}", "constant bound through the call idiom")
        eff, rec2 = ch.effective_name(fn)
        want_eff = {"mean": "sum"}.get(fn, fn)
        if eff != want_eff:
            res.bad(ch.red, rec2.node, f"func_name={fn!r} -> effective {eff!r}",
                    f"operation {fn!r} is dispatched to the kernel of {eff!r}")
            continue
        res.ok(ch.red, rec2.node, f"func_name={fn!r} -> effective {eff!r}", "mean is computed as sum/count" if fn == "mean" else "")
        g, merge_reducers, _ = ch.group_func(eff)
        res.ok(ch.across, ch.across.node, f"effective {eff!r} -> numba.{g.qualname}", "getattr pattern resolves")
        names, rec3, b3 = ch.reducer_names(g)
        expected = specs.OP_CLASS[op]
        for name in sorted(names):
            funcs, target_op, rec4 = ch.single_chunk(name)
            wf = ch.wrap_facts(name)
            for key in ("direct_name", "chunked_name"):
                v = wf[key]
                if not (isinstance(v, CS) and v.vals == frozenset([name])):
                    res.bad(ch.wrap, wf["direct_rec"].node, f"_group_func_wrap({name!r}) {key}",
                            f"the reducer name is not forwarded unchanged to the chunk worker (got {v!r})")
            if not (isinstance(target_op, CS) and target_op.vals == frozenset([name])):
                res.bad(ch.single, rec4.node, f"_build_target_for_groupby(operation) for {name!r}",
                        f"accumulator is built for operation {target_op!r}, not for the reducer that fills it")
            for rf in funcs:
                cls = _class_of(rf)
                construct = f"{op}: {g.qualname} -> {name!r} -> {rf.qualname} [{cls}]"
                if cls is None:
                    raise AnalysisError(f"D1: {construct}: reducer without a specification")
                ok = cls in expected
                note = ""
                if not ok and f"{cls}@unsigned-or-int-only" in expected:
                    ok, note = _sum_guarded_by_int_kind(g, name)
                if not ok and f"{cls}@never-null" in expected:
                    ok, note = _size_values_never_null(ch, m)
                if ok:
                    res.ok(g, rec3.node, construct, note or f"class {cls} is the class {op} is defined by")
                else:
                    res.bad(g, rec3.node, construct,
                            f"operation {op!r} must reduce with {' / '.join(sorted(expected))} but is dispatched to "
                            f"{rf.qualname} which is specified as {cls}" + (f" ({note})" if note else ""))
    return res


def _sum_guarded_by_int_kind(g: Func, name: str) -> Tuple[bool, str]:
    """the non-skipping reducer is selected only under `values.dtype.kind in "ui"`"""
    for n in walk_no_nested(g.node):
        if isinstance(n, ast.If):
            assigns = [s for s in n.body if isinstance(s, ast.Assign) and isinstance(s.value, ast.Constant)
                       and s.value.value == name]
            if not assigns:
                continue
            tests = n.test.values if isinstance(n.test, ast.BoolOp) and isinstance(n.test.op, ast.And) else [n.test]
            for t in tests:
                if isinstance(t, ast.Compare) and len(t.ops) == 1 and isinstance(t.ops[0], ast.In) \
                        and isinstance(t.left, ast.Attribute) and t.left.attr == "kind" \
                        and isinstance(t.comparators[0], ast.Constant) \
                        and isinstance(t.comparators[0].value, str) and set(t.comparators[0].value) <= set("ui"):
                    return True, f"non-skipping {name!r} only for integer dtypes ({norm(t)}), whose nulls cannot occur"
            return False, f"{name!r} is selected under {norm(n.test)}, which does not restrict to integer dtypes"
    return False, f"no guard found around the selection of {name!r}"


def _size_values_never_null(ch: Chain, m: Func) -> Tuple[bool, str]:
    """GroupBy.size counts non-null values of a locally allocated array whose dtype is never null"""
    ev = Evaluator(ch.repo)
    ev.run(m)
    recs = calls_to(ev, ch.red)
    b = bind_call(ev, recs[0], ch.red)
    e = b.exprs.get("values")
    if isinstance(e, ast.Call) and norm(e.func) in ("np.empty", "np.zeros", "np.ones"):
        for k in e.keywords:
            if k.arg == "dtype" and isinstance(k.value, ast.Constant) and k.value.value in (
                    "int8", "int16", "int32", "uint8", "uint16", "uint32", "uint64", "bool"):
                return True, f"size = count of non-null values of {norm(e)}, a dtype that is never null"
    return False, f"size counts non-null values of {norm(e) if e is not None else '?'}, which may hold nulls"


def rule_D2(repo: Repo) -> RuleResult:
    """both merge sites fold to MERGE[class] for every reducer constant"""
    res = RuleResult("D2", "merge sites use the merge class of the reducer that produced the partials")
    ch = Chain(repo)
    for op in ["size", "count", "sum", "min", "max", "first", "last", "sum_squares"]:
        eff = op if op != "size" else "size"
        # site 1: chunked group keys (core)
        try:
            g, merge_reducers, env = ch.group_func(op if op != "size" else "size")
        except AnalysisError:
            if op == "size":
                g = None
            else:
                raise
        if g is not None:
            names, _, _ = ch.reducer_names(g)
            produced = set()
            for nme in names:
                for rf in ch.single_chunk(nme)[0]:
                    produced.add(_class_of(rf))
            for mr in merge_reducers:
                mcls = _class_of(mr)
                for pc in produced:
                    if pc is None:
                        continue
                    want = specs.MERGE_CLASS[specs.ROW_SPECS[pc].merge]
                    construct = f"chunked keys: partials of {op!r} [{pc}] merged with {mr.qualname} [{mcls}]"
                    if mcls in want:
                        res.ok(ch.across, ch.across.node, construct, f"MERGE[{pc}] = {specs.ROW_SPECS[pc].merge}")
                    else:
                        res.bad(ch.across, ch.across.node, construct,
                                f"partials produced by a {pc} reducer must be merged with {' / '.join(sorted(want))}")
    # site 2: threads / chunked values (_group_func_wrap), for every reducer name a group_* entry point passes
    reachable: Set[str] = set()
    for q, gf in sorted(ch.nb.functions.items()):
        if "." in q or gf is ch.wrap:
            continue
        ev = Evaluator(repo)
        ev.run(gf)
        if calls_to(ev, ch.wrap):
            names, _, _ = ch.reducer_names(gf)
            reachable |= names
    if len(reachable) < 9:
        raise AnalysisError(f"D2: only {len(reachable)} reducer names reach _group_func_wrap (floor 9): {sorted(reachable)}")
    for name in sorted(reachable):
        cls = specs.ROW_CLASS_OF.get(name)
        if cls is None:
            raise AnalysisError(f"D2: reducer name {name!r} passed to _group_func_wrap has no specification")
        wf = ch.wrap_facts(name)
        mn = wf["merge_name"]
        if not isinstance(mn, CS):
            raise AnalysisError(f"D2: merge reducer name in _group_func_wrap for {name!r} is not constant ({mn!r})")
        want = specs.MERGE_CLASS[specs.ROW_SPECS[cls].merge]
        for m in sorted(mn.vals):
            mcls = specs.ROW_CLASS_OF.get(m)
            construct = f"threads: partials of {name!r} [{cls}] merged with {m!r} [{mcls}]"
            if mcls in want:
                res.ok(ch.wrap, wf["merge_rec"].node, construct, f"MERGE[{cls}] = {specs.ROW_SPECS[cls].merge}")
            else:
                res.bad(ch.wrap, wf["merge_rec"].node, construct,
                        f"partials produced by a {cls} reducer must be merged with {' / '.join(sorted(want))} "
                        f"(sums of squares are added, never squared again; counts are added)")
    return res


def rule_D6(repo: Repo) -> RuleResult:
    """for COUNT classes the result / merged arrays are the count arrays"""
    res = RuleResult("D6", "counting operations return and merge the count arrays")
    ch = Chain(repo)
    for name, cls in sorted(specs.ROW_CLASS_OF.items()):
        counting = specs.ROW_SPECS[cls].counting
        wf = ch.wrap_facts(name)
        env = wf["env"]
        # single-chunk path: result, count = worker(...); if counting: result = count
        ev: Evaluator = wf["ev"]
        chunks_v, counts_v = wf["merge_chunks"], wf["merge_counts"]
        same = isinstance(chunks_v, Named) and isinstance(counts_v, Named) and chunks_v == counts_v
        construct = f"_group_func_wrap({name!r}): merged arrays"
        if counting and not same:
            res.bad(ch.wrap, wf["merge_rec"].node, construct,
                    "a counting operation merges the (boolean placeholder) targets instead of the count arrays")
        elif not counting and same:
            res.bad(ch.wrap, wf["merge_rec"].node, construct,
                    "a non-counting operation merges the count arrays instead of the results")
        else:
            res.ok(ch.wrap, wf["merge_rec"].node, construct,
                   "count arrays" if counting else "result arrays")
        # result returned on the single-chunk path
        r = _single_path_result(ch, name)
        construct = f"_group_func_wrap({name!r}): single-chunk result"
        if r is None:
            raise AnalysisError("D6: cannot follow the single-chunk result of _group_func_wrap")
        is_count = r == "count"
        if counting == is_count:
            res.ok(ch.wrap, ch.wrap.node, construct, "count array" if counting else "target array")
        else:
            res.bad(ch.wrap, ch.wrap.node, construct,
                    "the wrong array of the (target, count) pair is returned for this operation")
    return res


def rule_D6b(repo: Repo) -> RuleResult:
    """chunked keys: partial counts are merged into an integer sum target (not the boolean placeholder)"""
    res = RuleResult("D6b", "chunked-key merge target of counting operations is an integer sum target")
    ch = Chain(repo)
    for eff in ["size", "count", "sum", "min", "max", "first", "last", "sum_squares"]:
        ev = Evaluator(repo)
        ev.run(ch.across, {"func_name": cs(eff)})
        tgt = [r for r in ev.calls if isinstance(r.callee, FuncRef)
               and r.callee.funcs[0].qualname == "_build_target_for_groupby"]
        if len(tgt) == 0:
            res.bad(ch.across, ch.across.node, f"chunked merge target for {eff!r}: not built by _build_target_for_groupby",
                    "the array the per-chunk partial results are merged into is not allocated by _build_target_for_groupby (with the "
                    "reduction's own initial / null value): slots that never receive a value - the trailing null-key slot, groups without a "
                    "selected row - then keep whatever the allocation holds (0 from np.zeros: 0.0 or the epoch instead of NaN / NaT with "
                    "transform=True)")
            continue
        if len(tgt) != 1:
            raise AnalysisError("D6b: merge target allocation not found in the chunked path")
        b = bind_call(ev, tgt[0], tgt[0].callee.funcs[0])
        op = b.values.get("operation")
        if not isinstance(op, CS) or len(op.vals) != 1:
            raise AnalysisError(f"D6b: merge target operation for {eff!r} is not constant ({op!r})")
        o = op.single
        construct = f"chunked merge of {eff!r}: target built for {o!r}"
        if eff in ("size", "count"):
            good = o not in ("count", "nancount") and "sum" in o
            why = "counts are added up in an integer array"
        else:
            good = (o == eff) or (eff == "sum_squares" and "sum" in o)
            why = "initial value / dtype of the operation itself"
        if good:
            res.ok(ch.across, tgt[0].node, construct, why)
        else:
            res.bad(ch.across, tgt[0].node, construct,
                    "the merged array is the boolean placeholder of a counting operation (or another operation's target): "
                    "with transform=True the broadcast counts come back as booleans / with the wrong neutral value")
    return res


def _single_path_result(ch: Chain, name: str) -> Optional[str]:
    """which element of `result, count = worker(...)` reaches `result` at the end of the n_threads == 1 arm"""
    ev = Evaluator(ch.repo)
    # force the single-chunk arm: n_threads == 1 and one value chunk
    for n in walk_no_nested(ch.wrap_c.node):
        if not isinstance(n, ast.If):
            continue
        # the arm that calls the single-chunk worker directly - whichever way round the test is written
        for arm in (n.body, n.orelse):
            direct = [s_ for s_ in arm if isinstance(s_, ast.Assign) and isinstance(s_.value, ast.Call)]
            if arm and any(isinstance(r.callee, FuncRef) and ch.single in r.callee.funcs and any(r.node is d.value for d in direct)
                           for r in _calls_in(ch, arm)):
                ev2 = Evaluator(ch.repo)
                ev2.func = ch.wrap_c
                env = {"reduce_func_name": cs(name), "counting": cs("count" in name)}
                out = ev2.exec_block(arm, env)
                if out is None:
                    return None
                v = out.get("result")
                if isinstance(v, Named):
                    return v.name
    return None


def _calls_in(ch: Chain, stmts) -> List[CallRecord]:
    ev = Evaluator(ch.repo)
    ev.func = ch.wrap_c
    ev.exec_block(stmts, {"reduce_func_name": TOP})
    return ev.calls


# ------------------------------------------------------------------------------- D3 rolling

ROLLING = {
    "rolling_sum": ("sum", "_rolling_sum_or_mean_1d", {"want_mean": False}),
    "rolling_mean": ("mean", "_rolling_sum_or_mean_1d", {"want_mean": True}),
    "rolling_min": ("min", "_rolling_max_or_min_1d", {"want_max": False}),
    "rolling_max": ("max", "_rolling_max_or_min_1d", {"want_max": True}),
    "rolling_shift": ("shift", "_rolling_shift_or_diff_1d", {"want_shift": True}),
    "rolling_diff": ("diff", "_rolling_shift_or_diff_1d", {"want_shift": False}),
}


def rule_D3(repo: Repo) -> RuleResult:
    res = RuleResult("D3", "rolling op -> kernel and flag constant; flag -> orientation inside the kernel")
    nb = repo.mod(NB)
    core = repo.mod(CORE)
    ar = nb.func("_apply_rolling")
    for fname, (op, kernel, flags) in ROLLING.items():
        f = nb.func(fname)
        ev = Evaluator(repo)
        ev.run(f)
        recs = calls_to(ev, ar)
        if len(recs) != 1:
            raise AnalysisError(f"D3: {fname} no longer calls _apply_rolling exactly once")
        b = bind_call(ev, recs[0], ar)
        opv = b.values.get("operation")
        construct = f"{fname} -> _apply_rolling(operation={opv!r}, " + ", ".join(
            f"{k}={_kwconst(recs[0].node, k, ev, recs[0])!r}" for k in flags) + ")"
        ok = isinstance(opv, CS) and opv.vals == frozenset([op])
        for k, want in flags.items():
            got = _kwconst(recs[0].node, k, ev, recs[0])
            ok = ok and isinstance(got, CS) and got.vals == frozenset([want])
        if ok:
            res.ok(f, recs[0].node, construct, "operation name and flag constant match the public name")
        else:
            res.bad(f, recs[0].node, construct, f"{fname} must dispatch operation {op!r} with flags {flags}")
        # operation -> kernel via the dict literal in _apply_rolling
        table = None
        for n in walk_no_nested(ar.node):
            if isinstance(n, ast.Dict) and all(isinstance(k, ast.Constant) for k in n.keys):
                table = {k.value: norm(v) for k, v in zip(n.keys, n.values)}
        if table is None:
            raise AnalysisError("D3: _apply_rolling's operation table not found")
        if table.get(op) == kernel:
            res.ok(ar, ar.node, f"operation {op!r} -> {kernel}", "dispatch table")
        else:
            res.bad(ar, ar.node, f"operation {op!r} -> {table.get(op)}", f"must be {kernel}")
        # I6: every kernel parameter is bound by name from kwargs | locals()
        kf = nb.func(kernel)
        for k in flags:
            if k not in kf.named_params:
                res.bad(kf, kf.node, f"{kernel} parameter {k}", "flag is not a parameter of the kernel it is sent to")
    # GroupBy.<op> -> func_name
    for meth, fname in [("rolling_sum", "rolling_sum"), ("rolling_mean", "rolling_mean"), ("rolling_min", "rolling_min"),
                        ("rolling_max", "rolling_max"), ("shift", "rolling_shift"), ("diff", "rolling_diff")]:
        m = core.func(f"GroupBy.{meth}")
        tgt = core.func("GroupBy._apply_rolling_or_cumulative_func")
        ev = Evaluator(repo)
        ev.run(m)
        recs = calls_to(ev, tgt)
        if len(recs) != 1:
            raise AnalysisError(f"D3: GroupBy.{meth} no longer delegates exactly once")
        b = bind_call(ev, recs[0], tgt)
        v = b.values.get("func_name")
        if isinstance(v, CS) and v.vals == frozenset([fname]):
            res.ok(m, recs[0].node, f"GroupBy.{meth} -> {fname!r}", "")
        else:
            res.bad(m, recs[0].node, f"GroupBy.{meth} -> {v!r}", f"must dispatch {fname!r}")
    # orientation inside the kernels
    _d3_orientation(nb, res)
    return res


def _kwconst(call: ast.Call, name: str, ev: Evaluator, rec: CallRecord):
    for k in call.keywords:
        if k.arg == name:
            ev.func = rec.func
            return ev.eval(k.value, rec.env)
    return None


def _d3_orientation(nb, res: RuleResult):
    from .gcnf import Normaliser
    # max/min: want_max pairs with >=, want_min (= not want_max) with <=
    f = nb.func("_rolling_max_or_min_1d")
    aliases = {}
    for n in walk_no_nested(f.node):
        if isinstance(n, ast.Assign) and len(n.targets) == 1 and isinstance(n.targets[0], ast.Name) \
                and isinstance(n.value, ast.UnaryOp) and isinstance(n.value.op, ast.Not) \
                and isinstance(n.value.operand, ast.Name):
            aliases[n.targets[0].id] = ("not", n.value.operand.id)
    found = 0
    for fn in (f, nb.func("min_or_max_and_position")):
        for n in walk_no_nested(fn.node):
            if isinstance(n, ast.BoolOp) and isinstance(n.op, ast.And) and len(n.values) == 2:
                flag, cmp = n.values
                pol = None
                if isinstance(flag, ast.Name):
                    if flag.id == "want_max":
                        pol = "max"
                    elif aliases.get(flag.id) == ("not", "want_max"):
                        pol = "min"
                elif isinstance(flag, ast.UnaryOp) and isinstance(flag.op, ast.Not) and isinstance(flag.operand, ast.Name) \
                        and flag.operand.id == "want_max":
                    pol = "min"
                if pol and isinstance(cmp, ast.Compare) and len(cmp.ops) == 1:
                    found += 1
                    opn = type(cmp.ops[0]).__name__
                    # the "new" value is the element the row loop iterates over (a for-target), the other side is state
                    loop_targets = {x.id for l in walk_no_nested(fn.node) if isinstance(l, ast.For)
                                    for x in ast.walk(l.target) if isinstance(x, ast.Name)}
                    left_is_new = isinstance(cmp.left, ast.Name) and cmp.left.id in loop_targets
                    right_is_new = isinstance(cmp.comparators[0], ast.Name) and cmp.comparators[0].id in loop_targets
                    if left_is_new == right_is_new:
                        raise AnalysisError(f"D3: cannot tell the new value from the running extremum in {norm(cmp)} ({fn.qualname})")
                    good = (pol == "max" and opn in ("GtE", "Gt")) or (pol == "min" and opn in ("LtE", "Lt"))
                    if not left_is_new:
                        good = (pol == "max" and opn in ("LtE", "Lt")) or (pol == "min" and opn in ("GtE", "Gt"))
                    construct = f"{fn.qualname}: {norm(n)}"
                    if good:
                        res.ok(fn, n, construct, f"want_{pol} selects the {'larger' if pol == 'max' else 'smaller'} value")
                    else:
                        res.bad(fn, n, construct, f"under want_{pol} the comparison keeps the wrong extreme")
    if found < 4:
        raise AnalysisError(f"D3: only {found} flag/orientation conjunctions found in the rolling extremum kernels (floor 4)")
    # shift/diff
    f = nb.func("_rolling_shift_or_diff_1d")
    seen = False
    for n in walk_no_nested(f.node):
        if isinstance(n, ast.If) and isinstance(n.test, ast.Name) and n.test.id == "want_shift":
            seen = True
            a = n.body[0] if n.body else None
            b = n.orelse[0] if n.orelse else None
            loop_targets = {x.id for l in walk_no_nested(f.node) if isinstance(l, ast.For)
                            for x in ast.walk(l.target) if isinstance(x, ast.Name)}
            ok_shift = isinstance(a, ast.Assign) and isinstance(a.value, ast.Subscript) and isinstance(a.value.value, ast.Name) \
                and a.value.value.id not in f.named_params
            ok_diff = isinstance(b, ast.Assign) and isinstance(b.value, ast.BinOp) and isinstance(b.value.op, ast.Sub) \
                and isinstance(b.value.left, ast.Name) and b.value.left.id in loop_targets \
                and ok_shift and norm(b.value.right) == norm(a.value)
            if ok_shift and ok_diff:
                res.ok(f, n, "want_shift ? buffer value : val - buffer value", "shift returns the stored value, diff the difference to it")
            else:
                res.bad(f, n, f"want_shift ? {norm(a.value) if a else '?'} : {norm(b.value) if b else '?'}",
                        "shift must return the buffered value and diff the current value minus the buffered value")
    if not seen:
        raise AnalysisError("D3: want_shift branch not found in _rolling_shift_or_diff_1d")
    # sum/mean
    f = nb.func("_rolling_sum_or_mean_1d")
    seen = False
    for n in walk_no_nested(f.node):
        if isinstance(n, ast.If) and isinstance(n.test, ast.Name) and n.test.id == "want_mean":
            seen = True
            a = n.body[0]
            b = n.orelse[0] if n.orelse else None
            ok_mean = isinstance(a, ast.Assign) and isinstance(a.value, ast.BinOp) and isinstance(a.value.op, ast.Div) \
                and isinstance(a.value.left, ast.Subscript) and isinstance(a.value.right, ast.Subscript) \
                and norm(a.value.left.value) != norm(a.value.right.value)
            ok_sum = ok_mean and isinstance(b, ast.Assign) and isinstance(b.value, ast.Subscript) \
                and norm(b.value) == norm(a.value.left)
            if ok_mean and ok_sum:
                res.ok(f, n, "want_mean ? sum / non-null count : sum", "")
            else:
                res.bad(f, n, f"want_mean ? {norm(a.value)} : {norm(b.value) if b else '?'}",
                        "mean must be the running sum over the non-null count, sum the running sum")
    if not seen:
        raise AnalysisError("D3: want_mean branch not found in _rolling_sum_or_mean_1d")


# ------------------------------------------------------------------------------- D4 cumulative

def rule_D4(repo: Repo) -> RuleResult:
    res = RuleResult("D4", "cumulative op -> skip / non-skip reducer pair of one class")
    nb = repo.mod(NB)
    core = repo.mod(CORE)
    ac = nb.func("_apply_cumulative")
    want = {"cumsum": "sum", "cummin": "min", "cummax": "max", "cumcount": "count"}
    for fname, op in want.items():
        f = nb.func(fname)
        ev = Evaluator(repo)
        ev.run(f)
        recs = calls_to(ev, ac)
        if len(recs) != 1:
            raise AnalysisError(f"D4: {fname} no longer calls _apply_cumulative exactly once")
        b = bind_call(ev, recs[0], ac)
        opv = b.values.get("operation")
        if not (isinstance(opv, CS) and opv.vals == frozenset([op])):
            res.bad(f, recs[0].node, f"{fname} -> operation {opv!r}", f"must be {op!r}")
            continue
        # skip_na forwarded (except cumcount which has none)
        if "skip_na" in f.named_params:
            sv = b.values.get("skip_na")
            if isinstance(sv, ParamVal) and sv.name == "skip_na":
                res.ok(f, recs[0].node, f"{fname}: skip_na forwarded", "")
            else:
                res.bad(f, recs[0].node, f"{fname}: skip_na -> {sv!r}", "skip_na is not forwarded to _apply_cumulative")
        for skip in (True, False):
            ev2 = Evaluator(repo)
            env = ev2.run(ac, {"operation": cs(op), "skip_na": cs(skip)})
            rf = None
            for r in ev2.calls:
                if norm(r.node.func) == "getattr" and isinstance(r.callee, object):
                    pass
            # value of reduce_func at the kernel call
            kc = [r for r in ev2.calls if "reduce_func" in [k.arg for k in r.node.keywords]]
            if not kc:
                raise AnalysisError("D4: kernel call with reduce_func= not found in _apply_cumulative")
            ev2.func = ac
            for k in kc[0].node.keywords:
                if k.arg == "reduce_func":
                    rf = ev2.eval(k.value, kc[0].env)
            if not isinstance(rf, FuncRef):
                raise AnalysisError(f"D4: reducer for {op!r}, skip_na={skip} does not resolve ({rf!r})")
            if len(rf.funcs) != 1:
                res.bad(ac, kc[0].node, f"{fname}(skip_na={skip}) -> {' | '.join(x.qualname for x in rf.funcs)}",
                        "the reducer of this cumulative operation depends on something other than the operation and skip_na "
                        "(several reducers reach the kernel): with skip_na=True a non-skipping reducer may run")
                continue
            cls = _class_of(rf.funcs[0])
            base = {"sum": "SUM", "min": "MIN", "max": "MAX", "count": "COUNT"}[op]
            want_cls = {("SUM", True): "SUM_SKIPNULL", ("SUM", False): "SUM", ("MIN", True): "MIN_SKIPNULL",
                        ("MIN", False): "MIN", ("MAX", True): "MAX_SKIPNULL", ("MAX", False): "MAX",
                        ("COUNT", True): "COUNT_NONNULL", ("COUNT", False): "COUNT_ALL"}[(base, skip)]
            construct = f"{fname}(skip_na={skip}) -> {rf.funcs[0].qualname} [{cls}]"
            if cls == want_cls:
                res.ok(ac, kc[0].node, construct, "")
            else:
                res.bad(ac, kc[0].node, construct, f"must reduce with a {want_cls} reducer")
            # target built for "sum" if counting else operation
            tgt = [r for r in ev2.calls if isinstance(r.callee, FuncRef)
                   and r.callee.funcs[0].qualname == "_build_target_for_groupby"]
            if tgt:
                bt = bind_call(ev2, tgt[0], tgt[0].callee.funcs[0])
                tv = bt.values.get("operation")
                want_t = "sum" if op == "count" else op
                if isinstance(tv, CS) and tv.vals == frozenset([want_t]):
                    res.ok(ac, tgt[0].node, f"{fname}(skip_na={skip}): output built for {want_t!r}", "", nontrivial=False)
                else:
                    res.bad(ac, tgt[0].node, f"{fname}(skip_na={skip}): output built for {tv!r}",
                            f"the output array must be built for {want_t!r} (dtype / initial value table T3)")
    # GroupBy.cum* -> func_name
    tgt = core.func("GroupBy._apply_rolling_or_cumulative_func")
    for meth in ["cumsum", "cummin", "cummax", "cumcount"]:
        m = core.func(f"GroupBy.{meth}")
        ev = Evaluator(repo)
        ev.run(m)
        recs = calls_to(ev, tgt)
        if len(recs) != 1:
            raise AnalysisError(f"D4: GroupBy.{meth} no longer delegates exactly once")
        b = bind_call(ev, recs[0], tgt)
        v = b.values.get("func_name")
        if isinstance(v, CS) and v.vals == frozenset([meth]):
            res.ok(m, recs[0].node, f"GroupBy.{meth} -> {meth!r}", "")
        else:
            res.bad(m, recs[0].node, f"GroupBy.{meth} -> {v!r}", f"must dispatch {meth!r}")
    return res


# ------------------------------------------------------------------------------- D5 nanops

def rule_D5(repo: Repo) -> RuleResult:
    res = RuleResult("D5", "nanops: reducer name -> (initial value, chunk-combine reducer); public names -> reducer names")
    nan = repo.mod("nanops")
    r1 = nan.func("reduce_1d")
    # locals by role: the keyword dictionary is what _nb_reduce receives as **..., the combine reducer is the first
    # argument of the recursive call
    kw_var = cr_var = None
    for n in walk_no_nested(r1.node):
        if isinstance(n, ast.Call) and norm(n.func) == "_nb_reduce":
            for k in n.keywords:
                if k.arg is None and isinstance(k.value, ast.Name):
                    kw_var = k.value.id
        if isinstance(n, ast.Call) and norm(n.func) == "reduce_1d" and n.args and isinstance(n.args[0], ast.Name):
            cr_var = n.args[0].id
    for n in ast.walk(r1.node):          # the worker may be a lambda
        if isinstance(n, ast.Call) and norm(n.func) == "_nb_reduce":
            for k in n.keywords:
                if k.arg is None and isinstance(k.value, ast.Name):
                    kw_var = kw_var or k.value.id
    if kw_var is None or cr_var is None:
        raise AnalysisError("D5: keyword dictionary of _nb_reduce / combine reducer of reduce_1d not found")
    for name, (init, combine) in specs.REDUCE_1D_STAGE.items():
        ev = Evaluator(repo)
        env = ev.run(r1, {"reduce_func_name": cs(name)})
        kw = env.get(kw_var)
        cr = env.get(cr_var)
        if not isinstance(kw, DictVal):
            raise AnalysisError("D5: reduce_1d kwargs is no longer a dict literal / dict(...)")
        iv = kw.entries.get("initial_value")
        ok_init = (init == "zero" and isinstance(iv, CS) and iv.vals == frozenset([0])) or \
                  (init == "none" and isinstance(iv, CS) and iv.vals == frozenset([None])) or \
                  (init == "zero" and iv is TOP and "int(0)" in norm(kw.origin.get("initial_value")))
        ok_comb = isinstance(cr, CS) and cr.vals == frozenset([combine])
        construct = f"reduce_1d({name!r}): initial={iv!r}, combine={cr!r}"
        if ok_init and ok_comb:
            res.ok(r1, r1.node, construct, "partials of counts and sums are added; others merge with themselves")
        else:
            res.bad(r1, r1.node, construct,
                    f"must start from {'0' if init == 'zero' else 'the first element'} and combine chunk results with {combine!r}")
        if name == "count":
            sk = kw.entries.get("skipna")
            if not (isinstance(sk, CS) and sk.vals == frozenset([True])):
                res.bad(r1, r1.node, "reduce_1d('count'): skipna", "count must skip nulls")
    # the combine stage re-enters reduce_1d with skipna forwarded
    ev = Evaluator(repo)
    ev.run(r1, {"reduce_func_name": cs("min")})
    rec = [r for r in calls_to(ev, r1)]
    if len(rec) != 1:
        raise AnalysisError("D5: reduce_1d no longer combines chunk results by calling itself once")
    b = bind_call(ev, rec[0], r1)
    sk = b.values.get("skipna")
    nt = b.values.get("n_threads")
    if isinstance(sk, ParamVal) and sk.name == "skipna" and isinstance(nt, CS) and nt.vals == frozenset([1]):
        res.ok(r1, rec[0].node, "combine stage: reduce_1d(chunk_reduction, chunks, skipna=skipna, n_threads=1)",
               "null chunk results (all-null blocks) are skipped exactly when nulls are skipped")
    else:
        res.bad(r1, rec[0].node, f"combine stage skipna={sk!r} n_threads={nt!r}",
                "the combine stage must forward skipna and run single-threaded")
    # every multi-thread return goes through the null-skipping combine stage
    from .paths import enumerate_paths
    n_mt = 0
    for p in enumerate_paths(r1.node.body):
        if p.exit != "return":
            continue
        mt = any(pol is False and isinstance(t, ast.AST) and norm(t) == "n_threads == 1" for t, pol in p.conds)
        if not mt:
            continue
        n_mt += 1
        combine = [st for st in p.stmts for c in ast.walk(st) if isinstance(c, ast.Call) and norm(c.func) == "reduce_1d"]
        if not combine:
            res.bad(r1, p.exit_node, f"multi-thread path {p.describe()[:90]}",
                    "the per-thread chunk results are not combined by the null-skipping reducer stage "
                    "(reduce_1d(chunk_reduction, chunks, skipna=skipna, n_threads=1)): an all-null chunk (NaN result) is "
                    "combined as a value, so the answer depends on where the nulls fall relative to the thread split",
                    path=p.describe())
    if n_mt < 1:
        raise AnalysisError("D5: no multi-thread return path found in reduce_1d")
    seen_k = set()
    res.violations = [v for v in res.violations if not (v.key() in seen_k or seen_k.add(v.key()))]
    # public names
    for fname, rname in [("nansum", "sum"), ("nanmax", "max"), ("nanmin", "min"), ("count", "count")]:
        f = nan.func(fname)
        red = nan.func("reduce")
        ev = Evaluator(repo)
        ev.run(f)
        recs = calls_to(ev, red)
        if len(recs) != 1:
            raise AnalysisError(f"D5: nanops.{fname} no longer calls reduce exactly once")
        b = bind_call(ev, recs[0], red)
        v = b.values.get("reduce_func_name")
        if isinstance(v, CS) and v.vals == frozenset([rname]):
            res.ok(f, recs[0].node, f"nanops.{fname} -> {rname!r}", "")
        else:
            res.bad(f, recs[0].node, f"nanops.{fname} -> {v!r}", f"must reduce with {rname!r}")
    # nanvar: sum_square and sum and count with the same kwargs
    f = nan.func("nanvar")
    red = nan.func("reduce")
    ev = Evaluator(repo)
    ev.run(f)
    names = []
    for r in calls_to(ev, red):
        b = bind_call(ev, r, red)
        v = b.values.get("reduce_func_name")
        names.append(tuple(sorted(v.vals)) if isinstance(v, CS) else None)
    if sorted(names) == [("sum",), ("sum_square",)]:
        res.ok(f, f.node, "nanvar -> sum_square, sum (+ count)", "")
    else:
        res.bad(f, f.node, f"nanvar -> {names}", "variance must be built from sum of squares, sum and count")
    return res


# ------------------------------------------------------------------------------- D7 var / std

def rule_D7(repo: Repo) -> RuleResult:
    res = RuleResult("D7", "var uses sum_squares, sum, count with one shared keyword set; std delegates to var")
    core = repo.mod(CORE)
    var = core.func("GroupBy.var")
    ev = Evaluator(repo)
    ev.run(var)
    red = core.func("GroupBy._apply_gb_reduction")
    s = core.func("GroupBy.sum")
    c = core.func("GroupBy.count")
    sem = ["mask", "margins", "transform", "observed_only"]
    seen = {}
    for target, label in [(red, "sum_squares"), (s, "sum"), (c, "count")]:
        recs = calls_to(ev, target)
        if len(recs) == 0:
            res.bad(var, var.node, f"var -> {label}",
                    f"GroupBy.var no longer computes the {label} primitive through {target.qualname}: the variance is "
                    f"defined as (sum_squares - sum^2/count)/(count - ddof) over one set of rows")
            continue
        if len(recs) != 1:
            raise AnalysisError(f"D7: GroupBy.var calls {target.qualname} {len(recs)} times (expected 1)")
        b = bind_call(ev, recs[0], target)
        seen[label] = b
        if label == "sum_squares":
            v = b.values.get("func_name")
            if not (isinstance(v, CS) and v.vals == frozenset(["sum_squares"])):
                res.bad(var, recs[0].node, f"var -> _apply_gb_reduction({v!r})", "must aggregate 'sum_squares'")
        for p in sem + ["values"]:
            v = b.values.get(p)
            construct = f"var -> {label}: {p}"
            if isinstance(v, ParamVal) and v.name == p:
                res.ok(var, recs[0].node, construct, "bound to var's own parameter")
            else:
                res.bad(var, recs[0].node, construct,
                        f"{p!r} of the {label} primitive is not bound to var's parameter {p!r} (got {v!r}): the three "
                        f"primitives of the variance would be computed over different rows / shapes")
    std = core.func("GroupBy.std")
    ev = Evaluator(repo)
    ev.run(std)
    recs = calls_to(ev, var)
    if len(recs) != 1:
        raise AnalysisError("D7: GroupBy.std no longer calls GroupBy.var exactly once")
    b = bind_call(ev, recs[0], var)
    for p in var.named_params:
        v = b.values.get(p)
        construct = f"std -> var: {p}"
        if isinstance(v, ParamVal) and v.name == p:
            res.ok(std, recs[0].node, construct, "")
        else:
            res.bad(std, recs[0].node, construct, f"{p!r} is not forwarded to var (got {v!r})")
    # var's result expression: (sq_sum - sum_sq / count) / (count - ddof)
    rets = [n for n in walk_no_nested(var.node) if isinstance(n, ast.Return)]
    if len(rets) == 1 and "ddof" in norm(rets[0].value):
        res.ok(var, rets[0], norm(rets[0].value), "ddof enters the denominator", nontrivial=False)
    else:
        res.bad(var, var.node, "var result", "ddof no longer enters the result")
    return res


# ------------------------------------------------------------------------------- D8 mask kinds

def rule_D8(repo: Repo) -> RuleResult:
    res = RuleResult("D8", "mask-kind dispatch shape (slice / boolean / positions)")
    nb = repo.mod(NB)
    from .canon import canon_func
    w = canon_func(repo, NB, "_group_func_wrap")
    # slice: applied to keys and values, then cleared
    found = False
    for n in walk_no_nested(w.node):
        if isinstance(n, ast.If) and "isinstance(mask, slice)" in norm(n.test):
            found = True
            txt = [norm(s) for s in n.body]
            need = {"values = values[mask]", "group_key = group_key[mask]", "mask = None"}
            if need <= set(txt):
                res.ok(w, n, "slice mask: keys and values sliced together, mask cleared", "")
            else:
                res.bad(w, n, "slice mask branch: " + "; ".join(txt),
                        "a slice mask must be applied to both the keys and the values and then cleared")
    if not found:
        raise AnalysisError("D8: slice branch of _group_func_wrap not found")
    s = canon_func(repo, NB, "_apply_group_method_single_chunk")
    ok_len = ok_nonzero = ok_else = False
    def bool_arm(t: ast.expr):
        """truth value of the test when the mask is a boolean array (None = not decided by that)"""
        if isinstance(t, ast.UnaryOp) and isinstance(t.op, ast.Not):
            v = bool_arm(t.operand)
            return None if v is None else not v
        if isinstance(t, ast.BoolOp):
            vals = [bool_arm(v) for v in t.values]
            if isinstance(t.op, ast.And):
                return False if False in vals else (None if None in vals else True)
            return True if True in vals else (None if None in vals else False)
        if isinstance(t, ast.Compare) and len(t.ops) == 1:
            l, r, op = norm(t.left), norm(t.comparators[0]).replace("'", '"'), t.ops[0]
            if l == "mask" and r == "None":
                return False if isinstance(op, ast.Is) else True if isinstance(op, ast.IsNot) else None
            if l == "mask.dtype.kind" and r == '"b"':
                return True if isinstance(op, ast.Eq) else False if isinstance(op, ast.NotEq) else None
            if l == "mask.dtype" and r in ("bool", "np.bool_"):
                return True if isinstance(op, ast.Eq) else False if isinstance(op, ast.NotEq) else None
        return None

    for n in walk_no_nested(s.node):
        if isinstance(n, ast.If) and "mask.dtype" in norm(n.test) and bool_arm(n.test) is not None:
            b_arm, o_arm = (n.body, n.orelse) if bool_arm(n.test) else (n.orelse, n.body)
            body_txt = " ; ".join(norm(x) for x in b_arm)
            ok_len = ("len(mask) != len(group_key)" in body_txt or "len(group_key) != len(mask)" in body_txt) and "raise" in body_txt
            ok_nonzero = "indexer = mask.nonzero()[0]" in body_txt
            else_txt = " ; ".join(norm(x) for x in o_arm)
            ok_else = "indexer = mask" in else_txt and "check_in_bounds = True" in else_txt
            if ok_len and ok_nonzero and ok_else:
                res.ok(s, n, "boolean mask: length-checked, nonzero(); otherwise positions with bounds check", "")
            else:
                res.bad(s, n, f"mask-kind branch (len-check={ok_len}, nonzero={ok_nonzero}, positions+bounds={ok_else})",
                        "a boolean mask must be length-compared with the keys (else raise) and turned into positions by "
                        "nonzero(); any other mask is used as positions with the bounds check enabled")
    if not (ok_len or ok_nonzero or ok_else):
        raise AnalysisError("D8: mask-kind branch of _apply_group_method_single_chunk not found")
    g = nb.func("_group_by_reduce")
    has = False
    for n in walk_no_nested(g.node):
        if isinstance(n, ast.If) and "check_in_bounds" in norm(n.test) and ">=" in norm(n.test):
            if any(isinstance(x, ast.Raise) for x in n.body):
                has = True
                res.ok(g, n, norm(n.test) + " -> raise", "out-of-range positions are rejected when the check is enabled")
    if not has:
        res.bad(g, g.node, "bounds check", "_group_by_reduce no longer raises on an out-of-range position")
    return res


# ------------------------------------------------------------------------------- D9 mask order

ORDER_PRESERVING = ("nonzero", "_val_to_numpy", "np.asarray", "asarray", "astype", "copy", "view", "to_numpy")
REORDERING = ("np.sort", "sort", "sorted", "np.unique", "unique", "argsort", "np.argsort", "set", "np.flip", "reversed",
              "np.random.permutation", "np.roll")


def rule_D9(repo: Repo) -> RuleResult:
    """positions given as a mask are used in the order given, in contiguous blocks"""
    res = RuleResult("D9", "a positional mask reaches the kernels in the order given, split into contiguous blocks")
    nb = repo.mod(NB)
    n = 0
    from .canon import canon_func
    for fname in ("_chunk_groupby_args", "_group_func_wrap", "_apply_group_method_single_chunk"):
        f = canon_func(repo, NB, fname)
        for st in walk_no_nested(f.node):
            if not isinstance(st, ast.Assign):
                continue
            tn = [t.id for t in st.targets if isinstance(t, ast.Name)]
            # kwargs["mask"] = ..: the mask as it will be bound into the worker arguments
            tn += ["mask" for t in st.targets if isinstance(t, ast.Subscript) and isinstance(t.slice, ast.Constant) and t.slice.value == "mask"]
            if not (set(tn) & {"mask", "indexer"}):
                continue
            v = st.value
            if isinstance(v, ast.Constant) and v.value is None:
                # the selection is dropped: only after a slice has been applied to keys and values (D8 checks that arm), or as
                # the initial value of a local that is assigned in every arm that follows
                from .rules_e import _enclosing_tests
                tests = [norm(t) for t in _enclosing_tests(f, st)]
                in_slice_arm = any("isinstance(mask, slice)" in t for t in tests)
                unconditional = not tests
                if in_slice_arm or unconditional:
                    continue
                n += 1
                res.bad(f, st, f"{norm(st)} under {tests[-1][:60]}",
                        "the row selection is discarded under a condition: the kernel then runs over ALL rows in row order, which equals "
                        "the selection only if it is the identity (positions of the same length may repeat, skip or reorder rows; a "
                        "boolean mask of full length may be False somewhere)")
                continue
            if isinstance(v, ast.Name) and v.id in ("mask", "indexer"):
                n += 1
                res.ok(f, st, norm(st), "same object")
                continue
            if "mask" not in {x.id for x in ast.walk(v) if isinstance(x, ast.Name)}:
                continue
            n += 1
            calls = [norm(c.func).split(".")[-1] if not norm(c.func).startswith("np.") else norm(c.func)
                     for c in ast.walk(v) if isinstance(c, ast.Call)]
            strided = any(isinstance(x, ast.Slice) and x.step is not None for x in ast.walk(v))
            bad = [c for c in calls if c in REORDERING or c.split(".")[-1] in REORDERING]
            unknown = [c for c in calls if c not in ORDER_PRESERVING and c.split(".")[-1] not in ORDER_PRESERVING and c not in bad]
            if bad or strided:
                res.bad(f, st, norm(st),
                        f"the positions of the mask are re-ordered ({', '.join(bad) or 'strided slice'}) before use: rows are "
                        f"no longer taken the way array indexing would, so first/last follow a different row order")
            elif unknown:
                raise AnalysisError(f"D9: unrecognised transformation of the mask in {fname}: {norm(st)}")
            else:
                res.ok(f, st, norm(st), "order-preserving conversion")
    # blocks: the only splitter of positions is np.array_split(mask, n_chunks), iterated in order
    f = nb.func("_chunk_groupby_args")
    found = False
    for node in walk_no_nested(f.node):
        if isinstance(node, ast.GeneratorExp) or isinstance(node, ast.ListComp):
            # the element binds the per-block positions to `mask`:  dict(mask=chunk)  or  {"mask": chunk}
            elt_txt = norm(node.elt)
            if "mask=" in elt_txt or "'mask':" in elt_txt or '"mask":' in elt_txt:
                found = True
                it = node.generators[0].iter
                n += 1
                if isinstance(it, ast.Call) and norm(it.func) == "np.array_split" and it.args and norm(it.args[0]) == "mask":
                    res.ok(f, node, norm(node)[:90], "contiguous blocks of the positions, in order")
                else:
                    res.bad(f, node, norm(node)[:90],
                            "the selected positions are not dealt to the workers as consecutive blocks in order "
                            "(np.array_split(mask, n_chunks)): the in-order merge of first/last assumes block j precedes block j+1")
    if not found:
        raise AnalysisError("D9: block construction for masked rows not found in _chunk_groupby_args")
    if n < 4:
        raise AnalysisError(f"D9: only {n} mask conversions examined (floor 4)")
    return res
