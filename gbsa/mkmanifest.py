"""Regenerate /verif/MANIFEST.json from the registry (developer tool, not a check)."""
from __future__ import annotations

import json
import os
import sys

HERE = os.path.dirname(os.path.abspath(__file__))
VERIF = os.path.dirname(HERE)
sys.path.insert(0, VERIF)

from gbsa import registry  # noqa: E402

BASELINE_CMD = ("cd /repo && /venv/bin/python -m pytest -ra -q -p no:cacheprovider --timeout=900 "
                "--continue-on-collection-errors --junitxml=/tmp/groupby_lib_baseline.junit.xml")


def main():
    props = [json.loads(l) for l in open(os.path.join(VERIF, "properties.jsonl"))]
    checks = []
    not_applicable = []
    for p in props:
        pid = p["id"]
        if pid in registry.PROPERTIES:
            spec = registry.PROPERTIES[pid]
            checks.append({
                "property_id": pid,
                "quick_cmd": f"/venv/bin/python -m gbsa.cli --property {pid} --tier quick",
                "thorough_cmd": f"/venv/bin/python -m gbsa.cli --property {pid} --tier thorough",
                "evidence_file": f"/verif/evidence/{pid}.json",
                "replay_cmd_template": f"/venv/bin/python -m gbsa.cli --property {pid} --replay {{path}}",
                "engine": "gbsa",
                "level_claimed": {
                    "category": "other",
                    "text": ("Static analysis (no execution, no solver): " + spec["explanation"]
                             + " The verdict covers these structural clauses for every input/schedule/history at once; "
                               "it does not decide the value-level behaviour listed in level_note."),
                    "design_ref": "DESIGN.md sections 4 and 5 (" + ", ".join(spec["rules"]) + ")",
                },
                "level_note": ("NOT decided: " + "; ".join(spec["not_decided"]) + ". Trusted base: "
                               + "; ".join(spec["trusted_base"]) + ". Assumes: " + "; ".join(spec["assumptions"])),
                "technique": "static analysis: " + spec["technique"] + " [rules " + ", ".join(spec["rules"]) + "]",
            })
        else:
            not_applicable.append({
                "property_id": pid,
                "reason": "no static rule for this property is built yet (" + ", ".join(registry.PENDING.get(pid, []))
                          + " planned in DESIGN.md); not claimed until the check exists",
            })
    manifest = {
        "version": 1,
        "setup_cmd": "/venv/bin/python -m compileall -q /verif/gbsa",
        "hooks": {
            "guard": "GROUPBY_LIB_VERIF",
            "enable": "none needed: the checks read /repo's source text; no instrumentation is compiled in",
            "baseline_off_cmd": BASELINE_CMD,
            "source_commits": [],
            "add_only": True,
        },
        "engines": [{
            "name": "gbsa",
            "path": "/verif/gbsa",
            "serves_properties": sorted(registry.PROPERTIES),
            "kind_free_text": "repository-specific static analyser over Python ast (fact walker, path enumerator, "
                              "decision-table normal form, call binder, typestate, freshness); stdlib only",
        }],
        "checks": checks,
        "notes": ("All checks are static analyses of /repo's current working tree (GBSA_REPO overrides the path for "
                  "scratch worktrees). exit 2 + ANALYSIS-ERROR means the checker cannot speak (vanished anchor, floor not "
                  "met, unrecognised construct) and is neither a pass nor a violation. Known findings: "
                  "/verif/known_findings.json."),
        "not_applicable": not_applicable,
    }
    with open(os.path.join(VERIF, "MANIFEST.json"), "w") as fh:
        json.dump(manifest, fh, indent=1)
    print(f"MANIFEST.json: {len(checks)} checks, {len(not_applicable)} not_applicable")


if __name__ == "__main__":
    main()
