"""Variant tables for the thorough tier (see variants.py).

Every entry edits the ast.unparse text of ONE function of the current tree (plus optional
cooperating edits).  `old` fragments are written in ast.unparse normal form (single quotes,
canonical spacing); a fragment that is no longer present makes the variant *inapplicable*, never
a failure.  `break` = the rule must fire at that function; `keep` = the rule must stay silent.
"""
from __future__ import annotations

from typing import Dict, List

from .variants import Variant as V

NB = "groupby.numba"
CORE = "groupby.core"
FACT = "groupby.factorization"
API = "groupby.api"
UTIL = "util"
EMAS = "emas"
NANOPS = "nanops"

SPECS: Dict[str, List[V]] = {}


def _ded(text: str, n: int) -> str:
    """Fragments are written as they appear in the normalised *module* text; the edit is applied to the
    normalised text of the function node alone, which starts at column 0: strip the nesting indentation."""
    if n == 0:
        return text
    pad = " " * n
    lines = text.split("\n")
    return "\n".join(l[n:] if l.startswith(pad) else l for l in lines)


def add(rule, kind, mod, func, old, new, **kw):
    depth = 4 * func.split("#")[0].count(".")
    also = tuple((m, f, _ded(o, 4 * f.count(".")), _ded(n, 4 * f.count("."))) for (m, f, o, n) in kw.pop("also", ()))
    SPECS.setdefault(rule, []).append(V(rule=rule, kind=kind, mod=mod, func=func, old=_ded(old, depth), new=_ded(new, depth),
                                        also=also, **kw))


# --------------------------------------------------------------------------------------------- K1
GUARD = "if key < 0:\n                continue\n"
for fn in ("_rolling_sum_or_mean_1d", "_rolling_max_or_min_1d", "_rolling_shift_or_diff_1d"):
    add("K1", "break", NB, fn, "            if key < 0:\n                continue\n", "", name=f"K1 delete null guard in {fn}")
    add("K1", "break", NB, fn, "if key < 0:", "if key < -1:", name=f"K1 weaken guard to key < -1 in {fn}")
    add("K1", "keep", NB, fn, "if key < 0:", "if key <= -1:", name=f"K1 guard as key <= -1 in {fn}")
    add("K1", "keep", NB, fn, "if key < 0:", "if not key >= 0:", name=f"K1 guard as not key >= 0 in {fn}")
add("K1", "break", NB, "_group_by_reduce", "            if key < 0:\n                continue\n", "", occurrence=0,
    name="K1 delete null guard (unindexed loop) in _group_by_reduce")
add("K1", "break", NB, "_group_by_reduce", "            if key < 0:\n                continue\n", "", occurrence=1,
    name="K1 delete null guard (indexer loop) in _group_by_reduce")
add("K1", "keep", NB, "_group_by_reduce",
    "            if key < 0:\n                continue\n            target[key], count[key] = reduce_func(target[key], values[i], count[key])\n    else:",
    "            if key >= 0:\n                target[key], count[key] = reduce_func(target[key], values[i], count[key])\n    else:",
    name="K1 guard inverted with body nested in _group_by_reduce")
add("K1", "break", NB, "_find_nth", "        if k < 0:\n            continue\n", "", name="K1 delete null guard in _find_nth")
add("K1", "break", NB, "_find_nth", "        if k < 0:\n            continue\n        if masked and (not mask[i]):\n            continue\n        if seen[k] == n:",
    "        if masked and (not mask[i]):\n            continue\n        if seen[k] == n:\n            pass\n        if k < 0:\n            continue\n        if seen[k] == n:",
    name="K1 state read hoisted above the guard in _find_nth")
add("K1", "keep", NB, "_find_nth", "if k < 0:", "if k == -1:", name="K1 guard as k == -1 in _find_nth")
add("K1", "break", NB, "_find_first_or_last_n", "        if k < 0:\n            continue\n", "",
    name="K1 delete null guard in _find_first_or_last_n")
add("K1", "keep", NB, "_find_first_or_last_n",
    "        if k < 0:\n            continue\n        if masked and (not mask[i]):\n            continue\n",
    "        if k < 0 or (masked and (not mask[i])):\n            continue\n",
    name="K1 guard merged into one disjunction in _find_first_or_last_n")
add("K1", "break", NB, "_cumulative_reduce", "            if key < 0:\n                has_null_key = True\n                continue\n",
    "            if key < 0:\n                has_null_key = True\n", name="K1 null branch falls through in _cumulative_reduce")
add("K1", "break", EMAS, "_ema_grouped", "        if k < 0:\n            out[i] = np.nan\n            continue\n", "",
    name="K1 delete null guard in _ema_grouped")
add("K1", "break", EMAS, "_ema_grouped_timed", "        if k < 0:\n            out[i] = np.nan\n            continue\n",
    "        if k < 0:\n            out[i] = np.nan\n", name="K1 null branch falls through in _ema_grouped_timed")
add("K1", "keep", EMAS, "_ema_grouped", "if k < 0:", "if k <= -1:", name="K1 guard as k <= -1 in _ema_grouped")
add("K1", "break", NB, "group_nearby_members", "        if key < 0:\n            continue\n", "", name="K1 delete null guard in group_nearby_members")
add("K1", "break", CORE, "GroupBy._build_group_sorted_indexer_numba", "if k >= 0 and (unmasked or mask[i]):", "if unmasked or mask[i]:",
    name="K1 delete k >= 0 conjunct in _build_group_sorted_indexer_numba")
add("K1", "keep", CORE, "GroupBy._build_group_sorted_indexer_numba", "if k >= 0 and (unmasked or mask[i]):", "if (unmasked or mask[i]) and k > -1:",
    name="K1 conjuncts swapped, k > -1 in _build_group_sorted_indexer_numba")
add("K1", "break", FACT, "_combine_factorizations", "        if k == -1:\n            combined_codes[i] = -1\n        else:\n            if tracker_is_array:",
    "        if k == -2:\n            combined_codes[i] = -1\n        else:\n            if tracker_is_array:", name="K1 wrong sentinel test in _combine_factorizations")

# --------------------------------------------------------------------------------------------- K2
add("K2", "break", FACT, "_weight_code_sum", "    last = codes[-1]\n    if last == -1:\n        return -1\n    return out + last", "    return out + codes[-1]",
    name="K2 last component not null-tested in _weight_code_sum")
add("K2", "break", FACT, "_weight_code_sum", "        if c == -1:\n            return -1\n", "", name="K2 leading components not null-tested in _weight_code_sum")
add("K2", "keep", FACT, "_weight_code_sum", "if last == -1:", "if last < 0:", name="K2 last < 0 form in _weight_code_sum")
add("K2", "break", FACT, "factorize_2d", "        combined_codes[null] = -1\n", "", name="K2 restore of -1 deleted after sort remap in factorize_2d")
add("K2", "break", FACT, "factorize_1d", "                codes[null] = -1\n", "", name="K2 restore of -1 deleted after sort remap in factorize_1d")
add("K2", "keep", FACT, "factorize_2d", "        null = combined_codes == -1\n        combined_codes = np.argsort(argsort)[combined_codes]\n        combined_codes[null] = -1\n",
    "        combined_codes = np.where(combined_codes < 0, -1, np.argsort(argsort)[combined_codes])\n", name="K2 np.where idiom in factorize_2d")
add("K2", "keep", FACT, "factorize_2d", "        combined_codes = np.argsort(argsort)[combined_codes]\n        combined_codes[null] = -1\n",
    "        combined_codes = np.append(np.argsort(argsort), -1)[combined_codes]\n", name="K2 trailing -1 slot idiom in factorize_2d")
add("K2", "break", CORE, "GroupBy._unify_group_key_chunks", "np.append(p, -1)[k]", "p[k]", name="K2 trailing slot dropped in _unify_group_key_chunks")
add("K2", "break", CORE, "GroupBy._unify_group_key_chunks", "np.append(p, -1)[k]", "np.append(p, 0)[k]", name="K2 trailing slot holds 0 in _unify_group_key_chunks")

# --------------------------------------------------------------------------------------------- K3
MASKSKIP = "            if masked and (not mask[i]):\n                continue\n"
for fn in ("_rolling_sum_or_mean_1d", "_rolling_max_or_min_1d", "_rolling_shift_or_diff_1d"):
    add("K3", "break", NB, fn, MASKSKIP, "", name=f"K3 mask test deleted in {fn}")
    add("K3", "keep", NB, fn, MASKSKIP, "            if masked:\n                if not mask[i]:\n                    continue\n", name=f"K3 nested mask test in {fn}")
add("K3", "break", NB, "_rolling_sum_or_mean_1d", MASKSKIP + "            val_is_null = is_null(val)\n            pos = group_positions[key]\n",
    "            pos = group_positions[key]\n            group_positions[key] = (pos + 1) % window\n" + MASKSKIP + "            val_is_null = is_null(val)\n",
    name="K3 position advanced before the mask test in _rolling_sum_or_mean_1d")
add("K3", "break", NB, "_find_nth", "        if masked and (not mask[i]):\n            continue\n", "", name="K3 mask test deleted in _find_nth")
add("K3", "break", NB, "_find_first_or_last_n", "        if masked and (not mask[i]):\n            continue\n        j = seen[k]\n        if j < n:\n            out[k, j] = i\n            seen[k] += 1\n",
    "        j = seen[k]\n        if j < n:\n            if not masked or mask[i]:\n                out[k, j] = i\n            seen[k] += 1\n",
    name="K3 counter advanced on masked rows in _find_first_or_last_n")
add("K3", "keep", NB, "_find_nth", "        if masked and (not mask[i]):\n            continue\n        if seen[k] == n:\n            assert out[k] == -1\n            out[k] = i\n        seen[k] += 1\n",
    "        if not masked or mask[i]:\n            if seen[k] == n:\n                assert out[k] == -1\n                out[k] = i\n            seen[k] += 1\n",
    name="K3 inverted mask test with nested body in _find_nth")
add("K3", "break", NB, "_cumulative_reduce", "                if last_seen >= 0:\n                    target[i] = target[last_seen]\n                continue\n",
    "                if last_seen >= 0:\n                    target[i] = target[last_seen]\n                group_last_seen[key] = i\n                continue\n",
    name="K3 masked row recorded as last seen in _cumulative_reduce")
add("K3", "break", NB, "_cumulative_reduce", "                if last_seen >= 0:\n                    target[i] = target[last_seen]\n                continue\n",
    "                if last_seen >= 0:\n                    target[i] = target[last_seen]\n", name="K3 masked branch falls through in _cumulative_reduce")
add("K3", "break", CORE, "GroupBy._build_group_sorted_indexer_numba", "if k >= 0 and (unmasked or mask[i]):", "if k >= 0:",
    name="K3 mask conjunct deleted in _build_group_sorted_indexer_numba")
add("K3", "break", EMAS, "_ema_grouped", "if np.isnan(x) or (masked and (not mask[i])):", "if np.isnan(x):", name="K3 mask test deleted in _ema_grouped")
add("K3", "break", EMAS, "_ema_grouped_timed", "if np.isnan(x) or (masked and (not mask[i])):", "if np.isnan(x):", name="K3 mask test deleted in _ema_grouped_timed")

# --------------------------------------------------------------------------------------------- K4
for fn, arr in (("_find_nth", "seen"), ("_find_first_or_last_n", "seen"), ("_rolling_sum_or_mean_1d", "group_positions"),
                ("_rolling_sum_or_mean_1d", "group_n_seen"), ("_rolling_max_or_min_1d", "group_buffer_pos"),
                ("_rolling_max_or_min_1d", "pos_of_current_best"), ("_rolling_shift_or_diff_1d", "group_counts")):
    add("K4", "break", NB, fn, f"{arr} = np.zeros(ngroups, dtype=np.int64)", f"{arr} = np.zeros(ngroups, dtype=np.int16)", name=f"K4 {fn}.{arr} narrowed to int16")
    add("K4", "keep", NB, fn, f"{arr} = np.zeros(ngroups, dtype=np.int64)", f"{arr} = np.zeros(ngroups, dtype='int64')", name=f"K4 {fn}.{arr} dtype as string")
add("K4", "break", NB, "_find_nth", "seen = np.zeros(ngroups, dtype=np.int64)", "seen = np.zeros(ngroups, dtype='uint8')", name="K4 _find_nth.seen narrowed to uint8 (string dtype)")
add("K4", "keep", NB, "_find_nth", "seen = np.zeros(ngroups, dtype=np.int64)", "seen = np.zeros(ngroups, dtype=np.int32)", name="K4 _find_nth.seen int32 accepted under the stated assumption")
add("K4", "break", NB, "_cumulative_reduce", "group_count = np.zeros(ngroups, dtype='uint32')", "group_count = np.zeros(ngroups, dtype='uint16')", name="K4 _cumulative_reduce.group_count narrowed to uint16")
add("K4", "break", NB, "_group_by_reduce", "count = np.full(len(target), 0, dtype='int64')", "count = np.full(len(target), 0, dtype='int16')", name="K4 _group_by_reduce.count narrowed to int16")

# --------------------------------------------------------------------------------------------- K5
add("K5", "break", NB, "_rolling_max_or_min_1d", "current_best = np.full(ngroups, null_value)", "current_best = np.full(ngroups, np.nan)", name="K5 current_best float fill in _rolling_max_or_min_1d")
add("K5", "break", NB, "_rolling_max_or_min_1d", "current_best = np.full(ngroups, null_value)", "current_best = np.full(ngroups, -np.inf if want_max else np.inf)", name="K5 current_best +-inf fill")
add("K5", "break", NB, "_rolling_max_or_min_1d", "group_buffers = np.full((ngroups, window), null_value)", "group_buffers = np.full((ngroups, window), np.nan)", name="K5 buffer float fill in _rolling_max_or_min_1d")
add("K5", "break", NB, "_rolling_shift_or_diff_1d", "out = np.full(len(group_key), null_value)", "out = np.full(len(group_key), np.nan)", name="K5 output float fill in _rolling_shift_or_diff_1d")
add("K5", "break", NB, "_rolling_shift_or_diff_1d", "group_buffers = np.full((ngroups, window), null_value)", "group_buffers = np.zeros((ngroups, window))", name="K5 buffer np.zeros (float64) in _rolling_shift_or_diff_1d")
add("K5", "keep", NB, "_rolling_max_or_min_1d", "current_best = np.full(ngroups, null_value)", "current_best = np.full((ngroups,), null_value)", name="K5 shape as tuple")

# --------------------------------------------------------------------------------------------- K6
for fn in ("_rolling_sum_or_mean_1d", "_rolling_max_or_min_1d", "_rolling_shift_or_diff_1d"):
    add("K6", "break", NB, fn, "            i += 1\n            key = group_key[i]\n            if key < 0:\n                continue\n",
        "            key = group_key[i + 1]\n            if key < 0:\n                continue\n            i += 1\n", name=f"K6 row counter advanced after the null guard in {fn}")
add("K6", "break", NB, "_cumulative_reduce", "            i += 1\n            key = group_key[i]\n            if key < 0:\n                has_null_key = True\n                continue\n",
    "            key = group_key[i + 1]\n            if key < 0:\n                has_null_key = True\n                continue\n            i += 1\n", name="K6 row counter advanced after the null guard in _cumulative_reduce")
add("K6", "break", CORE, "GroupBy._build_group_sorted_indexer_numba", "                    current_pos[k] += 1\n                i += 1\n", "                    current_pos[k] += 1\n                    i += 1\n",
    name="K6 row counter advanced only on accepted rows in _build_group_sorted_indexer_numba")
add("K6", "keep", NB, "_cumulative_reduce", "    i = -1\n", "    i = -1\n    n_arrays = len(values)\n", name="K6 unrelated local added")

# --------------------------------------------------------------------------------------------- T1 / T2 (ScalarFuncs)
SF = "ScalarFuncs."
add("T1", "break", NB, SF + "nanmin", "if next_val < cur_min:", "if next_val > cur_min:", name="T1 nanmin orientation flipped")
add("T1", "break", NB, SF + "nanmax", "if next_val > cur_max:", "if next_val < cur_max:", name="T1 nanmax orientation flipped")
add("T1", "break", NB, SF + "nanmin", "        if is_null(next_val):\n            return (cur_min, count)\n        elif count:", "        if count:", name="T1 nanmin null branch dropped")
add("T1", "break", NB, SF + "nansum", "return (cur_sum + next_val, count + 1)", "return (cur_sum + next_val, count)", name="T1 nansum count not incremented")
add("T1", "break", NB, SF + "nansum", "return (cur_sum + next_val, count + 1)", "return (cur_sum - next_val, count + 1)", name="T1 nansum subtracts")
add("T1", "break", NB, SF + "nansum", "            return (cur_sum, count)", "            return (next_val, count)", name="T1 nansum returns the null on null rows")
add("T1", "break", NB, SF + "nansum_squares", "return (cur_sum + next_val ** 2, count + 1)", "return (cur_sum + next_val, count + 1)", name="T1 nansum_squares not squared")
add("T1", "break", NB, SF + "nansum_squares", "return (next_val ** 2, count + 1)", "return (next_val, count + 1)", name="T1 nansum_squares first value not squared")
add("T1", "break", NB, SF + "nancount", "            return (count, count)", "            return (count + 1, count + 1)", name="T1 nancount counts nulls")
add("T1", "break", NB, SF + "first", "        elif count:\n            return (cur_first, count + 1)", "        elif count:\n            return (next_val, count + 1)", name="T1 first returns the newest value")
add("T1", "break", NB, SF + "last", "            return (next_val, count + 1)", "            return (cur_last, count + 1)", name="T1 last keeps the old value")
add("T1", "break", NB, SF + "last", "            return (cur_last, count + 1)", "            return (next_val, count + 1)", name="T1 last takes nulls")
add("T1", "break", NB, SF + "nanmax", "            return (next_val, count + 1)", "            return (cur_max, count + 1)", name="T1 nanmax first value ignored")
add("T1", "keep", NB, SF + "nanmin", "if next_val < cur_min:", "if next_val <= cur_min:", name="T1 nanmin with <= (ties interchangeable)")
add("T1", "keep", NB, SF + "nanmin", "if next_val < cur_min:", "if cur_min > next_val:", name="T1 nanmin comparison mirrored")
add("T1", "keep", NB, SF + "nansum", "return (cur_sum + next_val, count + 1)", "return (next_val + cur_sum, 1 + count)", name="T1 nansum operands commuted")
add("T1", "keep", NB, SF + "nanmax", "            if next_val > cur_max:\n                cur_max = next_val\n            return (cur_max, count + 1)",
    "            return (next_val if next_val > cur_max else cur_max, count + 1)", name="T1 nanmax as conditional expression")
add("T1", "keep", NB, SF + "nansum", "        if is_null(next_val):\n            return (cur_sum, count)\n        elif count:\n            return (cur_sum + next_val, count + 1)\n        else:\n            return (next_val, count + 1)",
    "        if not is_null(next_val):\n            if count:\n                return (cur_sum + next_val, count + 1)\n            return (next_val, count + 1)\n        return (cur_sum, count)", name="T1 nansum branches reordered")
add("T2", "break", NB, SF + "nanmin", "            return (next_val, count + 1)", "            return (next_val + 0 * cur_min, count + 1)", name="T2 identity law: empty accumulator leaks into nanmin")
add("T2", "break", NB, SF + "nanmax", "                cur_max = next_val\n", "                cur_max = next_val * 1.0\n", name="T2 selection law: arithmetic on the selected value")
add("T2", "break", NB, SF + "first", "            return (cur_first, count)", "            return (cur_first, count + 1)", name="T2 count law: first counts null rows")
add("T2", "break", NB, SF + "nanmin", "            return (cur_min, count)", "            return (next_val, count)", name="T2 null-skip law: nanmin returns the null")

# --------------------------------------------------------------------------------------------- T1b / N1 (binary reducers, chunk reducer)
RO = "NumbaReductionOps."
add("T1b", "break", UTIL, RO + "min", "return x if x <= y else y", "return x if x >= y else y", name="T1b min orientation flipped")
add("T1b", "break", UTIL, RO + "max", "return x if x >= y else y", "return y if x >= y else x", name="T1b max returns the smaller")
add("T1b", "break", UTIL, RO + "sum", "return x + y", "return x - y", name="T1b sum subtracts")
add("T1b", "break", UTIL, RO + "count", "return x + 1", "return x + y", name="T1b count adds the value")
add("T1b", "break", UTIL, RO + "first_skipna", "return y if is_null(x) else x", "return x", name="T1b first_skipna does not skip")
add("T1b", "break", UTIL, RO + "last_skipna", "return x if is_null(y) else y", "return y", name="T1b last_skipna does not skip")
add("T1b", "break", UTIL, RO + "sum_square", "return x + y ** 2", "return x ** 2 + y ** 2", name="T1b sum_square squares the accumulator")
add("T1b", "break", UTIL, RO + "first", "return x", "return y", name="T1b first returns the newest")
add("T1b", "keep", UTIL, RO + "min", "return x if x <= y else y", "return y if y < x else x", name="T1b min mirrored")
add("T1b", "keep", UTIL, RO + "sum", "return x + y", "return y + x", name="T1b sum commuted")
add("T1b", "keep", UTIL, RO + "max", "return x if x >= y else y", "if x >= y:\n            return x\n        return y", name="T1b max as statement form")
add("N1", "break", NANOPS, "_nb_reduce", "            if is_null(x):\n                continue\n", "", name="N1 null skip deleted from the skipna loop")
add("N1", "break", NANOPS, "_nb_reduce", "            loc, out = _get_first_non_null(arr)\n            start = loc + 1\n", "            loc, out = _get_first_non_null(arr)\n            start = loc\n", name="N1 first non-null reduced twice")
add("N1", "break", NANOPS, "_nb_reduce", "            if loc == -1:\n                return arr[0]\n", "", name="N1 all-null case not handled")
add("N1", "keep", NANOPS, "_nb_reduce", "            if is_null(x):\n                continue\n            out = reduce_func(out, x)\n", "            if not is_null(x):\n                out = reduce_func(out, x)\n", name="N1 null skip inverted")
add("N1", "break", UTIL, "_get_first_non_null", "        if not is_null(x):\n            return (i, x)\n", "        if is_null(x):\n            return (i, x)\n", name="N1 first-non-null scan inverted")
add("N1", "break", UTIL, "_get_first_non_null", "    return (-1, np.nan)", "    return (0, np.nan)", name="N1 all-null sentinel position 0")
add("N1", "break", UTIL, "jit_get_first_non_null.f", "return (i, x)", "return (i + 1, x)", name="N1 integer overload position off by one")

# --------------------------------------------------------------------------------------------- T3
add("T3", "break", NB, "_build_target_for_groupby", "dtype = 'uint64' if np_type.kind == 'u' else 'int64'", "dtype = 'uint32' if np_type.kind == 'u' else 'int32'", name="T3 integer sum accumulator narrowed to 32 bits")
add("T3", "break", NB, "_build_target_for_groupby", "dtype = 'uint64' if np_type.kind == 'u' else 'int64'", "dtype = 'float64'", name="T3 integer sum accumulator takes a float detour")
add("T3", "break", NB, "_build_target_for_groupby", "        initial_value = 0\n", "        initial_value = 1\n", name="T3 sum accumulator initialised to 1")
add("T3", "break", NB, "_build_target_for_groupby", "if np_type.kind in 'iub':", "if np_type.kind in 'ib':", name="T3 unsigned sums keep their narrow dtype")
add("T3", "break", NB, "_build_target_for_groupby", "initial_value = _null_value_for_numpy_type(np.dtype(dtype))", "initial_value = 0", name="T3 min/max accumulator initialised to 0")
add("T3", "keep", NB, "_build_target_for_groupby", "if np_type.kind in 'iub':", "if np_type.kind in ('i', 'u', 'b'):", name="T3 kind test as tuple")
add("T3", "break", UTIL, "_null_value_for_numpy_type", "        case 'i':\n            return np.iinfo(np_type).min\n", "        case 'i':\n            return np.iinfo(np_type).max\n", name="T3 int null writer disagrees with the reader")
add("T3", "break", UTIL, "_null_value_for_numpy_type", "return np.array([np.nan], dtype=np_type)[0]", "return np.array([np.inf], dtype=np_type)[0]", name="T3 float null writer is inf")
add("T3", "break", UTIL, "jit_is_null.is_null#2", "return x == MIN_INT", "return x == MAX_INT", expect_func="jit_is_null", name="T3 int null reader disagrees with the writer")
add("T3", "break", UTIL, "mean_from_sum_count", "return (sum_.astype('int64') // count).astype(sum_.dtype)", "return (sum_.astype('int64') / count).astype(sum_.dtype)", name="T3 temporal mean through float division")
add("T3", "break", CORE, "GroupBy._add_margins", "agg_func='sum' if func_name in ('size', 'count', 'sum_squares') else func_name", "agg_func='sum' if func_name in ('size', 'sum_squares') else func_name", name="T3 count margins aggregated with count")
add("T3", "break", CORE, "GroupBy._add_margins", "agg_func='sum' if func_name in ('size', 'count', 'sum_squares') else func_name", "agg_func=func_name", name="T3 margin aggregator is always the op itself")

# --------------------------------------------------------------------------------------------- D1..D9 dispatch
add("D1", "break", CORE, "GroupBy.min", "func_name='min'", "func_name='max'", expect_func="*", name="D1 GroupBy.min dispatched to max")
add("D1", "break", CORE, "GroupBy.first", "func_name='first'", "func_name='last'", expect_func="*", name="D1 GroupBy.first dispatched to last")
add("D1", "break", NB, "group_min", "_group_func_wrap('nanmin', **locals())", "_group_func_wrap('min', **locals())", name="D1 group_min uses the non-skipping reducer")
add("D1", "break", NB, "group_max", "_group_func_wrap('nanmax', **locals())", "_group_func_wrap('nanmin', **locals())", name="D1 group_max uses nanmin")
add("D1", "break", NB, "group_count", "_group_func_wrap('nancount', **locals())", "_group_func_wrap('count', **locals())", name="D1 group_count counts rows")
add("D1", "break", NB, "group_sum", "if isinstance(values, np.ndarray) and values.dtype.kind in 'ui':", "if isinstance(values, np.ndarray) and values.dtype.kind in 'uif':", name="D1 non-skipping sum selected for floats")
add("D1", "break", NB, "group_sum_squares", "reduce_func_name='nansum_squares'", "reduce_func_name='nansum'", name="D1 sum_squares dispatched to nansum")
add("D1", "break", CORE, "GroupBy._apply_gb_reduction", "            effective_func_name = 'sum'\n", "            effective_func_name = 'last'\n", name="D1 mean computed from last")
add("D1", "break", CORE, "GroupBy.size", "np.empty(len(self), dtype='int8')", "np.empty(len(self), dtype='float64')", expect_func="*", name="D1 size counts non-null of a float scratch array")
add("D1", "break", NB, "_apply_group_method_single_chunk", "_build_target_for_groupby(values.dtype, reduce_func_name, ngroups)", "_build_target_for_groupby(values.dtype, 'sum', ngroups)", name="D1 accumulator always built for sum")
add("D1", "keep", CORE, "GroupBy.min", "GroupBy._apply_gb_reduction(func_name='min', **locals())", "GroupBy._apply_gb_reduction(self, 'min', values=values, mask=mask, transform=transform, margins=margins, observed_only=observed_only)", name="D1 explicit keywords instead of **locals()")
add("D1", "keep", NB, "group_min", "_group_func_wrap('nanmin', **locals())", "_group_func_wrap(reduce_func_name='nanmin', **locals())", name="D1 reducer name by keyword")
add("D2", "break", CORE, "GroupBy._apply_gb_func_across_chunked_group_keys", "if func_name in ('size', 'count', 'sum_squares'):", "if func_name in ('size', 'count'):", name="D2 sum_squares partials merged by squaring again")
add("D2", "break", CORE, "GroupBy._apply_gb_func_across_chunked_group_keys", "reducer = numba_funcs.ScalarFuncs.nansum\n", "reducer = numba_funcs.ScalarFuncs.nanmax\n", name="D2 counts merged with max")
add("D2", "break", NB, "_group_func_wrap", "'sum' if counting or 'sum' in reduce_func_name else reduce_func_name", "reduce_func_name", name="D2 thread partials of counts/sums merged with their row reducer")
add("D2", "keep", CORE, "GroupBy._apply_gb_func_across_chunked_group_keys", "if func_name in ('size', 'count', 'sum_squares'):", "if func_name in ['sum_squares', 'count', 'size']:", name="D2 membership list reordered")
add("D3", "break", NB, "rolling_min", "want_max=False", "want_max=True", name="D3 rolling_min asks for max")
add("D3", "break", NB, "rolling_mean", "want_mean=True", "want_mean=False", name="D3 rolling_mean returns sums")
add("D3", "break", NB, "rolling_diff", "want_shift=False", "want_shift=True", name="D3 rolling_diff returns shift")
add("D3", "break", NB, "_rolling_max_or_min_1d", "(want_max and val >= cur_best) or (want_min and val <= cur_best)", "(want_max and val <= cur_best) or (want_min and val >= cur_best)", name="D3 orientation swapped in the kernel")
add("D3", "break", NB, "_rolling_shift_or_diff_1d", "out[i] = val - group_buffers[key, pos]", "out[i] = group_buffers[key, pos] - val", name="D3 diff sign reversed")
add("D3", "break", NB, "_apply_rolling", "'min': _rolling_max_or_min_1d, 'max': _rolling_max_or_min_1d", "'min': _rolling_max_or_min_1d, 'max': _rolling_sum_or_mean_1d", name="D3 max mapped to the sum kernel")
add("D3", "break", NB, "min_or_max_and_position", "want_max and v >= best or (not want_max and v <= best)", "want_max and v <= best or (not want_max and v >= best)", name="D3 recomputation orientation swapped")
add("D4", "break", NB, "_apply_cumulative", "name = 'nan' + operation if skip_na else operation", "name = operation if skip_na else 'nan' + operation", name="D4 skip_na inverted")
add("D4", "break", NB, "cummin", "_apply_cumulative('min', group_key, values, ngroups, mask, skip_na)", "_apply_cumulative('max', group_key, values, ngroups, mask, skip_na)", name="D4 cummin dispatched to max")
add("D4", "break", NB, "cummax", "_apply_cumulative('max', group_key, values, ngroups, mask, skip_na)", "_apply_cumulative('max', group_key, values, ngroups, mask)", name="D4 cummax drops skip_na")
add("D4", "break", CORE, "GroupBy.cumsum", "self._apply_rolling_or_cumulative_func('cumsum', values, mask, skip_na=skip_na)", "self._apply_rolling_or_cumulative_func('cummax', values, mask, skip_na=skip_na)", name="D4 GroupBy.cumsum dispatched to cummax")
add("D4", "keep", NB, "_apply_cumulative", "name = 'nan' + operation if skip_na else operation", "name = f'nan{operation}' if skip_na else operation", name="D4 f-string form")
add("D5", "break", NANOPS, "reduce_1d", "        kwargs = dict(skipna=True, initial_value=int(0))\n        chunk_reduction = 'sum'\n", "        kwargs = dict(skipna=True, initial_value=int(0))\n        chunk_reduction = 'count'\n", name="D5 count chunks combined by counting chunks")
add("D5", "break", NANOPS, "reduce_1d", "        kwargs = dict(skipna=skipna, initial_value=0)\n        chunk_reduction = 'sum'\n", "        kwargs = dict(skipna=skipna, initial_value=0)\n        chunk_reduction = reduce_func_name\n", name="D5 sum_square chunks squared again")
add("D5", "break", NANOPS, "reduce_1d", "kwargs = dict(skipna=skipna, initial_value=None)", "kwargs = dict(skipna=skipna, initial_value=0)", name="D5 min/max start from 0")
add("D5", "break", NANOPS, "nanmax", "reduce(reduce_func_name='max', **locals())", "reduce(reduce_func_name='min', **locals())", name="D5 nanmax dispatched to min")
add("D5", "break", NANOPS, "reduce_1d", "result = reduce_1d(chunk_reduction, chunks, skipna=skipna, n_threads=1)", "result = reduce_1d(chunk_reduction, chunks, skipna=False, n_threads=1)", name="D5 combine stage does not skip nulls")
add("D6", "break", NB, "_group_func_wrap", "        if counting:\n            result = count\n", "", name="D6 counting op returns the placeholder target (single chunk)")
add("D6", "break", NB, "_group_func_wrap", "        if counting:\n            chunks = counts\n", "", name="D6 counting op merges the placeholder targets (threads)")
add("D6", "break", NB, "_group_func_wrap", "counting = 'count' in reduce_func_name", "counting = reduce_func_name == 'count'", name="D6 nancount not recognised as counting")
add("D6b", "break", CORE, "GroupBy._apply_gb_func_across_chunked_group_keys", "'sum' if func_name in ('size', 'count') else func_name", "func_name", name="D6b chunked count merged into the boolean placeholder")
add("D7", "break", CORE, "GroupBy.var", "sum_sq = self.sum(values=values, **kwargs)", "sum_sq = self.sum(values=values, mask=mask)", name="D7 var: sum without the shared keyword set")
add("D7", "break", CORE, "GroupBy.var", "count = self.count(values=values, **kwargs)", "count = self.size(**kwargs)", name="D7 var: size instead of count")
add("D7", "break", CORE, "GroupBy.var", "kwargs = dict(mask=mask, margins=margins, transform=transform, observed_only=observed_only)", "kwargs = dict(mask=mask, margins=margins, transform=transform)", name="D7 var drops observed_only")
add("D7", "break", CORE, "GroupBy.std", "GroupBy.var(**locals()) ** 0.5", "GroupBy.var(self, values, mask=mask, transform=transform, margins=margins, observed_only=observed_only) ** 0.5", name="D7 std drops ddof")
add("D7", "keep", CORE, "GroupBy.std", "GroupBy.var(**locals()) ** 0.5", "GroupBy.var(self, values, mask=mask, transform=transform, margins=margins, ddof=ddof, observed_only=observed_only) ** 0.5", name="D7 std explicit keywords")
add("D8", "break", NB, "_group_func_wrap", "        values = values[mask]\n        group_key = group_key[mask]\n        mask = None\n", "        values = values[mask]\n        mask = None\n", name="D8 slice applied to values only")
add("D8", "break", NB, "_apply_group_method_single_chunk", "        if len(mask) != len(group_key):\n            raise ValueError('Mask must have the same length as group_key')\n", "", name="D8 boolean mask length check removed")
add("D8", "break", NB, "_apply_group_method_single_chunk", "        indexer = mask\n        check_in_bounds = True\n", "        indexer = mask\n        check_in_bounds = False\n", name="D8 bounds check disabled for positional masks")
add("D8", "break", NB, "_group_by_reduce", "            if check_in_bounds and i >= n_rows:\n                raise ValueError(f'Indexer {i} is out of bounds for array of length {n_rows}')\n", "", name="D8 bounds check deleted in the kernel")

# --------------------------------------------------------------------------------------------- M1..M5, D9
ACROSS = "GroupBy._apply_gb_func_across_chunked_group_keys"
MERGE_CORE = "numba_funcs.reduce_array_pair(combined[pointer], result, reducer=reducer, counts=count[pointer], y_counts=counts_one_value[j][:-1])"
add("M1", "break", CORE, ACROSS, MERGE_CORE, "numba_funcs.reduce_array_pair(combined[pointer], result, reducer=reducer)", name="M1 chunked merge without counts")
add("M1", "break", CORE, ACROSS, MERGE_CORE, "numba_funcs.reduce_array_pair(combined[pointer], result, reducer=reducer, counts=counts_one_value[j][:-1], y_counts=counts_one_value[j][:-1])", name="M1 chunked merge given the partial's own count")
add("M1", "break", NB, "combine_chunk_results_for_factorized_key", "counts=combined_count if counts_tracked else None, y_counts=count if counts_tracked else None", "counts=None, y_counts=count if counts_tracked else None", name="M1 thread merge never passes the accumulated count")
add("M1", "break", NB, "reduce_array_pair", "            count = counts[i]\n", "            count = 1\n", name="M1 merge kernel ignores the accumulated count")
add("M1", "break", NB, "reduce_array_pair", "        if y_counts is not None and y_counts[i] == 0:\n            continue\n", "", name="M1 merge kernel does not skip empty partials")
add("M1", "break", NB, "_group_func_wrap", "result, count = combine_chunk_results_for_factorized_key('sum' if counting or 'sum' in reduce_func_name else reduce_func_name, chunks, counts)", "result, count = combine_chunk_results_for_factorized_key('sum' if counting or 'sum' in reduce_func_name else reduce_func_name, chunks)", name="M1 thread merge site does not hand over the counts", expect_func="*")
add("M1", "keep", CORE, ACROSS, MERGE_CORE, "numba_funcs.reduce_array_pair(combined[pointer], result, reducer, count[pointer], counts_one_value[j][:-1])", name="M1 counts passed positionally")
add("M2", "break", CORE, ACROSS, "                combined[pointer] = " + MERGE_CORE + "\n                count[pointer] += counts_one_value[j][:-1]\n",
    "                count[pointer] += counts_one_value[j][:-1]\n                combined[pointer] = " + MERGE_CORE + "\n", name="M2 count accumulated before the merge that reads it")
add("M2", "break", CORE, ACROSS, "                count[pointer] += counts_one_value[j][:-1]\n", "", name="M2 accumulated count never updated", expect_func="*")
add("M2", "break", NB, "combine_chunk_results_for_factorized_key", "        combined_count = combined_count + count\n", "", name="M2 thread merge never accumulates the count", expect_func="*")
add("M3", "break", UTIL, "parallel_map", "                results[index] = future.result()\n", "                results.append(future.result())\n", name="M3 results appended in completion order")
add("M3", "break", UTIL, "parallel_map", "            index = future_to_index[future]\n", "            index = len(future_to_index) - 1 - future_to_index[future]\n", name="M3 placement index not the submission index")
add("M3", "keep", UTIL, "parallel_map", "        future_to_index = {executor.submit(func, *args): i for i, args in enumerate(arg_list)}\n        results = [None] * len(arg_list)\n        for future in concurrent.futures.as_completed(future_to_index):\n            index = future_to_index[future]\n            try:\n                results[index] = future.result()\n            except Exception as exc:\n                print(f'Item at index {index} generated an exception: {exc}')\n                raise\n",
    "        futures = [executor.submit(func, *args) for args in arg_list]\n        results = [f.result() for f in futures]\n", name="M3 futures consumed in submission order")
add("M4", "break", NB, "_chunk_args_for_unchunked_values", "value_list = np.array_split(values, n_chunks)", "value_list = np.array_split(values, n_chunks + 1)", name="M4 values split by a different splitter")
add("M4", "break", NB, "_chunk_args_for_chunked_values", "np.array_split(mask, splits)", "np.array_split(mask, len(splits) + 1)", name="M4 mask split evenly instead of at the value chunk boundaries")
add("M4", "keep", NB, "_chunk_args_for_unchunked_values", "    key_list = np.array_split(group_key, n_chunks)\n    value_list = np.array_split(values, n_chunks)\n", "    n = n_chunks\n    key_list = np.array_split(group_key, n)\n    value_list = np.array_split(values, n)\n", name="M4 split count hoisted into a local")
add("M5", "break", CORE, ACROSS, "pointer = self._group_key_pointers[first_chunk_in + j]", "pointer = self._group_key_pointers[j]", name="M5 merge pointer not offset by the first chunk")
add("M5", "break", CORE, ACROSS, "self._group_key_pointers[first_chunk_in + i] if self._group_key_pointers is not None else self.result_index", "self._group_key_pointers[i] if self._group_key_pointers is not None else self.result_index", name="M5 ngroups pointer not offset")
add("M5", "break", CORE, "GroupBy.count_ikey", "pointer = self._group_key_pointers[first_chunk_in + i]", "pointer = self._group_key_pointers[i]", name="M5 count_ikey pointer not offset")
add("M5", "keep", CORE, "GroupBy.count_ikey", "pointer = self._group_key_pointers[first_chunk_in + i]", "pointer = self._group_key_pointers[i + first_chunk_in]", name="M5 offset operands commuted")
add("D9", "break", NB, "_chunk_groupby_args", "            mask = mask.nonzero()[0]\n", "            mask = np.sort(mask.nonzero()[0])[::-1]\n", name="D9 positions reversed before splitting")

# --------------------------------------------------------------------------------------------- S1..S4
UNIFY = "GroupBy._unify_group_key_chunks"
add("S1", "break", CORE, UNIFY, "            self._group_key_pointers = None\n", "", name="S1 pointer tables kept after they were applied (applied twice on the next call)")
add("S1", "break", CORE, UNIFY, "        elif keep_chunked:\n            return\n        else:\n            chunks = self._group_ikey.chunks\n", "        elif keep_chunked:\n            return\n", name="S1 chunks unbound from the chunked-global state")
add("S1", "break", CORE, UNIFY, "        if keep_chunked:\n            self._group_ikey = pa.chunked_array(chunks)\n        else:\n            self._group_ikey = np.concatenate(chunks)", "        self._group_ikey = pa.chunked_array(chunks)", name="S1 keep_chunked=False leaves the key chunked")
add("S1", "break", CORE, UNIFY, "            chunks = [np.append(p, -1)[k] for p, k in zip(self._group_key_pointers, self._group_ikey.chunks)]\n            self._group_key_pointers = None\n",
    "            self._group_key_pointers = None\n            chunks = [np.append(p, -1)[k] for p, k in zip(self._group_key_pointers, self._group_ikey.chunks)]\n", name="S1 pointers reset before they are applied")
add("S1", "keep", CORE, UNIFY, "        if not self.key_is_chunked:\n            return\n", "        if not isinstance(self._group_ikey, pa.ChunkedArray):\n            return\n", name="S1 chunkedness test written out")
add("S2", "break", CORE, "GroupBy.head", "        if self.key_is_chunked:\n            print('Unifying chunked group-key before finding head')\n            self._unify_group_key_chunks()\n", "", name="S2 head reads chunk-local codes")
add("S2", "break", CORE, "GroupBy.nth", "            self._unify_group_key_chunks()\n", "            pass\n", name="S2 nth reads chunk-local codes")
add("S2", "break", CORE, "GroupBy._apply_gb_reduction", "            self._unify_group_key_chunks()\n", "", expect_func="*", name="S2 transform indexes with chunk-local codes")
add("S2", "break", CORE, "GroupBy._apply_rolling_or_cumulative_func", "            self._unify_group_key_chunks()\n", "            pass\n", expect_func="*", name="S2 rolling/cumulative kernels get chunk-local codes")
add("S2", "break", CORE, "GroupBy.ema", "        if self.key_is_chunked:\n            self._unify_group_key_chunks()\n", "", name="S2 ema reads chunk-local codes")
add("S2", "break", CORE, "GroupBy.group_nearby_members", "        if self.key_is_chunked:\n            self._unify_group_key_chunks()\n", "", name="S2 group_nearby_members reads chunk-local codes")
add("S2", "break", CORE, "GroupBy._group_sort_indexer", "        self._unify_group_key_chunks(keep_chunked=True)\n", "", name="S2 group-sorted indexer built from chunk-local codes")
add("S2", "keep", CORE, "GroupBy.apply", "                self._unify_group_key_chunks(keep_chunked=False)\n", "", name="S2 apply(transform): codes already global after _group_sort_indexer (NumPy accepts a chunked index)")
add("S2", "keep", CORE, "GroupBy.head", "        if self.key_is_chunked:\n            print('Unifying chunked group-key before finding head')\n            self._unify_group_key_chunks()\n", "        self._unify_group_key_chunks()\n", name="S2 unconditional unify in head")
add("S2", "keep", CORE, "GroupBy.ema", "        if self.key_is_chunked:\n            self._unify_group_key_chunks()\n", "        self._unify_group_key_chunks(keep_chunked=False)\n", name="S2 unconditional unify in ema")
INIT = "GroupBy.__init__"
for attr, line in (("_key_index", "            self._key_index = group_keys._key_index\n"), ("_index_is_sorted", "            self._index_is_sorted = group_keys._index_is_sorted\n"),
                   ("_group_key_pointers", "            self._group_key_pointers = group_keys._group_key_pointers\n"), ("_sort", "            self._sort = group_keys._sort\n")):
    add("S3", "break", CORE, INIT, line, "", name=f"S3 copy constructor leaves {attr} unset")
add("S3", "break", CORE, INIT, "        self._index_is_sorted = False\n", "", name="S3 _index_is_sorted only set on the chunked sorted path")
add("S3", "break", CORE, INIT, "        self._group_key_pointers: List[np.ndarray] = None\n", "", name="S3 _group_key_pointers only set on the chunked path")
add("S3", "break", CORE, INIT, "            self._sort = sort\n", "", name="S3 _sort unset for multi-key groupings")
add("S3", "keep", CORE, INIT, "            self._group_ikey, self._result_index = (group_keys.group_ikey, group_keys.result_index)\n", "            self._group_ikey = group_keys.group_ikey\n            self._result_index = group_keys.result_index\n", name="S3 tuple assignment split")
add("S4", "break", CORE, "GroupBy._apply_gb_reduction", "        sortkey = self._labels_argsort\n", "        sortkey = self._labels_argsort\n        self._sort = False\n", name="S4 a reduction clears _sort")
add("S4", "break", CORE, "GroupBy.head", "        ilocs = numba_funcs._find_first_or_last_n(", "        self._index_is_sorted = True\n        ilocs = numba_funcs._find_first_or_last_n(", name="S4 head marks the index sorted")
add("S4", "break", CORE, "GroupBy._get_row_selection", "        keep = ilocs > -1\n", "        keep = ilocs > -1\n        self._result_index = self._result_index[self._labels_argsort]\n", name="S4 row selection re-orders the labels in place")
add("S4", "break", CORE, "GroupBy.groups", "        indexer = self._group_sort_indexer\n", "        indexer = self._group_sort_indexer\n        self._group_ikey = np.asarray(self._group_ikey)[indexer]\n", name="S4 groups replaces the codes by group-sorted codes")
add("S4", "break", CORE, "GroupBy.count_ikey", "            count = np.zeros(self.ngroups, dtype=np.int64)\n", "            count = np.zeros(self.ngroups, dtype=np.int64)\n            self._group_key_pointers = None\n", name="S4 count_ikey drops the pointer tables without remapping")
add("S4", "keep", CORE, "GroupBy._apply_gb_reduction", "        sortkey = self._labels_argsort\n", "        sortkey = self._labels_argsort\n        self._last_op = func_name\n", name="S4 unrelated bookkeeping attribute written")

# --------------------------------------------------------------------------------------------- P1..P11
RED = "GroupBy._apply_gb_reduction"
add("P1", "break", NB, "_apply_cumulative", "    if orig_dtype.kind in 'mM':\n        result = result.astype(orig_dtype)\n", "    elif orig_dtype.kind in 'mM':\n        result = result.astype(orig_dtype)\n", name="P1 cumulative restore becomes the elif of the null-key post-fill")
add("P1", "break", NB, "_apply_cumulative", "    if orig_dtype.kind in 'mM':\n        result = result.astype(orig_dtype)\n", "", name="P1 cumulative restore deleted")
add("P1", "break", NB, "_group_func_wrap", "    if orig_type.kind in 'mM' and (not counting):\n        result = result.astype(orig_type)\n", "    if orig_type.kind == 'M' and (not counting):\n        result = result.astype(orig_type)\n", name="P1 timedeltas not restored")
add("P1", "break", NB, "group_mean", "    if orig_type.kind in 'mM':\n        mean = mean.astype(orig_type)\n", "", name="P1 group_mean restore deleted")
add("P1", "break", NB, "_apply_rolling", "        else:\n            result = result.view(orig_dtype)\n", "        else:\n            pass\n", name="P1 rolling restore deleted on the non-diff arm")
add("P1", "break", NANOPS, "reduce_1d", "        output_converter = pd.to_timedelta\n", "        output_converter = np.asarray\n", name="P1 reduce_1d timedelta converter dropped")
add("P1", "keep", NB, "_apply_cumulative", "result = result.astype(orig_dtype)", "result = result.view(orig_dtype)", name="P1 astype <-> view")
add("P1", "keep", NB, "_group_func_wrap", "    if orig_type.kind in 'mM' and (not counting):\n        result = result.astype(orig_type)\n", "    is_temporal = orig_type.kind in 'mM'\n    if is_temporal and (not counting):\n        result = result.astype(orig_type)\n", name="P1 temporal test through a local alias")
add("P10", "break", NB, "_apply_rolling", "result = result.view(f'm8[{np.datetime_data(orig_dtype)[0]}]')", "result = result.view('m8[ns]')", name="P10 diff hard-codes nanoseconds")
add("P10", "break", NB, "_apply_rolling", "            result = result.view(orig_dtype)\n", "            result = result.view('M8[ns]')\n", name="P10 restore hard-codes datetime64[ns]")
add("P10", "keep", NB, "_apply_rolling", "result = result.view(f'm8[{np.datetime_data(orig_dtype)[0]}]')", "result = result.view(np.dtype(f'timedelta64[{np.datetime_data(orig_dtype)[0]}]'))", name="P10 unit taken from the original dtype, other spelling")
add("P2", "break", CORE, RED, "            if func_is_mean:\n                count_df = self._add_margins(count_df, margins=margins, func_name='sum')\n", "", name="P2 count frame gets no margins")
add("P2", "break", CORE, RED, "count_df = self._add_margins(count_df, margins=margins, func_name='sum')", "count_df = self._add_margins(count_df, margins=margins, func_name='count')", name="P2 count margins aggregated by count")
add("P2", "break", CORE, RED, "        if margins:\n            result_df = self._add_margins(result_df, margins=margins, func_name=effective_func_name)\n            if func_is_mean:\n                count_df = self._add_margins(count_df, margins=margins, func_name='sum')\n        if func_is_mean:\n            with np.errstate(invalid='ignore', divide='ignore'):\n                result_df = pd.DataFrame({k: mean_from_sum_count(result_df[k], count_df[k].reindex(result_df.index)) for k in result_df})\n",
    "        if func_is_mean:\n            with np.errstate(invalid='ignore', divide='ignore'):\n                result_df = pd.DataFrame({k: mean_from_sum_count(result_df[k], count_df[k].reindex(result_df.index)) for k in result_df})\n        if margins:\n            result_df = self._add_margins(result_df, margins=margins, func_name=effective_func_name)\n",
    name="P2 mean divided before the margins are added")
add("P2", "break", CORE, RED, "            if func_is_mean:\n                with np.errstate(invalid='ignore', divide='ignore'):\n                    result_columns = [mean_from_sum_count(", "            if func_is_mean and False:\n                with np.errstate(invalid='ignore', divide='ignore'):\n                    result_columns = [mean_from_sum_count(", name="P2 transform path broadcasts sums for mean")
add("P3", "break", CORE, RED, "observed = self.ikey_count > 0", "observed = self.key_count > 0", name="P3 label-indexed Series used positionally")
add("P3", "break", CORE, RED, "observed = self.count_ikey(mask=mask) > 0", "observed = self.ikey_count > 0", name="P3 masked recount ignores the mask")
add("P3", "break", CORE, RED, "                if mask is not None:\n                    observed = self.count_ikey(mask=mask) > 0\n                else:\n                    observed = self.ikey_count > 0\n", "                pass\n", name="P3 all-null groups dropped from the result")
add("P4", "break", CORE, RED, "            result_df = result_df.iloc[sortkey]\n            count_df = count_df.iloc[sortkey]\n", "            count_df = count_df.iloc[sortkey]\n", name="P4 unfiltered arm forgets to sort the result frame")
add("P4", "break", CORE, RED, "                observed = sortkey[observed[sortkey]]\n", "                observed = np.flatnonzero(observed)\n", name="P4 observed arm loses the sort permutation")
add("P5", "break", CORE, RED, "result_columns = [result[self.group_ikey] for result in result_columns]", "result_columns = [result[self._labels_argsort][self.group_ikey] for result in result_columns]", name="P5 label-sorted results indexed by first-appearance codes")
add("P6", "break", CORE, ACROSS, "ngroups=len(pointer) + 1 if pointer is not None else self.ngroups + 1", "ngroups=len(pointer) if pointer is not None else self.ngroups", name="P6 no null slot in the per-chunk targets")
add("P6", "break", CORE, ACROSS, "len(self._result_index) + 1)", "len(self._result_index))", name="P6 no null slot in the merged target")
add("P6", "break", CORE, "GroupBy._build_arg_dict_for_function", "ngroups=self.ngroups + 1", "ngroups=self.ngroups", name="P6 rolling/cumulative state without null slot")
add("P7", "break", CORE, "GroupBy._factorize_group_key_in_chunks", "        if self._sort:\n            self._result_index = self._result_index.sort_values()\n            self._index_is_sorted = True\n", "        self._index_is_sorted = True\n        if self._sort:\n            self._result_index = self._result_index.sort_values()\n", name="P7 index marked sorted without sorting")
add("P7", "break", CORE, "GroupBy._factorize_group_key_in_chunks", "            unique_list = [mono_uniques, *unique_list]\n", "            unique_list = [*unique_list, mono_uniques]\n", name="P7 monotonic uniques appended at the other end")
add("P7", "break", CORE, "GroupBy._factorize_group_key_in_chunks", "        arg_list = [(pd.Index(self.result_index), arr) for arr in unique_list]\n        self._group_key_pointers = parallel_map(get_indexer, arg_list)\n", "", also=((CORE, "GroupBy._factorize_group_key_in_chunks", "        if self._sort:\n", "        arg_list = [(pd.Index(self.result_index), arr) for arr in unique_list]\n        self._group_key_pointers = parallel_map(get_indexer, arg_list)\n        if self._sort:\n"),), name="P7 pointer tables computed before the labels are sorted")
add("P8", "break", NB, "_apply_cumulative", "        result[np.asarray(group_key) < 0] = na_rep\n", "", name="P8 null-key rows keep the scratch value")
add("P8", "break", NB, "_apply_cumulative", "        result[np.asarray(group_key) < 0] = na_rep\n", "        result[np.asarray(group_key) < 0] = result[0]\n", name="P8 null-key rows filled with a data value")
add("P9", "break", CORE, INIT, "        self._result_index = self._result_index.set_names(group_key_names)", "        pass", name="P9 key names never assigned")
add("P9", "break", CORE, INIT, "        self._result_index = self._result_index.set_names(group_key_names)", "        if len(group_key_list) > 1:\n            self._result_index = self._result_index.set_names(group_key_names)", name="P9 key names only for multi-key groupings")
add("P11", "break", CORE, RED, "            if common_index is not None:\n                result_index = common_index\n            else:\n                result_index = pd.RangeIndex(len(self))\n", "            result_index = pd.RangeIndex(len(self))\n", name="P11 transform drops the inputs' index")
add("P11", "break", CORE, RED, "            if common_index is not None:\n                result_index = common_index\n            else:\n                result_index = pd.RangeIndex(len(self))\n", "            result_index = self.result_index\n", name="P11 transform labelled by the group index")
add("P1", "keep", NB, "_group_func_wrap", "orig_type", "source_dtype", count=0, name="P1 original-dtype variable renamed")
add("P1", "keep", NB, "_apply_cumulative", "orig_dtype", "dt0", count=0, name="P1 original-dtype variable renamed (cumulative)")

# --------------------------------------------------------------------------------------------- A2..A8, A3*
BG = "BaseGroupBy."
add("A2", "break", EMAS, "ema", "@check_data_inputs_aligned('values', 'times')", "@check_data_inputs_aligned('values, times')", name="A2 decorator given one comma-joined string")
add("A2", "break", EMAS, "ema_grouped", "@check_data_inputs_aligned('group_key', 'values', 'times', 'mask')", "@check_data_inputs_aligned('group_keys', 'values', 'times', 'mask')", name="A2 decorator names a parameter that does not exist")
add("A2", "break", NB, "_apply_group_method_single_chunk", "@check_data_inputs_aligned('group_key', 'values')", "@check_data_inputs_aligned('group_key', 'value')", name="A2 misspelt name on the chunk worker")
add("A4", "break", API, BG + "cumsum", "self._grouper.cumsum(self._values_to_group)", "self._grouper.cumsum(self._obj)", name="A4 cumsum passes the whole object")
add("A4", "break", API, BG + "head", "self._grouper.head(self._values_to_group, n)", "self._grouper.head(self._obj, n)", name="A4 head passes the whole object")
add("A4", "break", API, BG + "agg", "self._grouper.apply(self._values_to_group, func, mask=mask)", "self._grouper.apply(self._obj, func, mask=mask)", name="A4 agg(callable) passes the whole object")
add("A4", "break", API, "BaseGroupByRolling.agg", "method(self._groupby_obj._values_to_group,", "method(self._groupby_obj._obj,", name="A4 rolling passes the whole object")
add("A4", "break", API, BG + "sum", "self._grouper.sum(self._values_to_group, mask=mask, margins=margins)", "self._grouper.sum(self._obj[self._obj.columns], mask=mask, margins=margins)", name="A4 sum re-selects all columns")
add("A4", "keep", API, BG + "cumsum", "return self._grouper.cumsum(self._values_to_group)", "vals = self._values_to_group\n        return self._grouper.cumsum(vals)", name="A4 selection through a local")
add("A4", "keep", API, BG + "sum", "self._grouper.sum(self._values_to_group, mask=mask, margins=margins)", "self._grouper.sum(values=self._values_to_group, mask=mask, margins=margins)", name="A4 values by keyword")
add("A5", "break", API, BG + "cumcount", "self._grouper.cumcount()", "self._grouper.cumcount(self._values_to_group)", name="A5 values bound to cumcount's mask parameter")
add("A5", "break", API, BG + "nth", "self._grouper.nth(self._values_to_group, n)", "self._grouper.nth(n, self._values_to_group)", name="A5 nth arguments swapped")
add("A5", "break", API, BG + "apply", "self._grouper.apply(self._values_to_group, func, mask, *func_args, **func_kwargs)", "self._grouper.apply(self._values_to_group, mask, func, *func_args, **func_kwargs)", name="A5 apply: mask and func swapped")
add("A5", "break", API, BG + "std", "self._grouper.std(self._values_to_group, ddof=ddof, mask=mask, margins=margins)", "self._grouper.std(self._values_to_group, ddof, mask=mask, margins=margins)", name="A5 std: ddof lands in the mask position", expect_func="*")
add("A6", "break", API, BG + "__iter__", "self._obj.iloc[indexer]", "self._obj.loc[indexer]", name="A6 iteration uses labels")
add("A6", "keep", API, BG + "__iter__", "self._obj.iloc[indexer]", "self._obj.take(indexer)", name="A6 iteration with take")
add("A7", "break", API, "DataFrameGroupBy._from_by_keys", "value_columns = [col for col in obj.columns if col not in columns_used_as_keys]", "value_columns = list(obj.columns)", name="A7 key columns stay among the values")
add("A7", "break", API, "DataFrameGroupBy._from_by_keys", "                            columns_used_as_keys.add(key)\n", "", name="A7 key columns never recorded")
add("A7", "break", API, "DataFrameGroupBy._values_to_group", "for col in self.value_columns}", "for col in self._obj.columns}", name="A7 _values_to_group ignores value_columns")
add("A7", "break", API, "DataFrameGroupBy._from_by_keys", "return cls(obj, grouper=grouper, value_columns=value_columns)", "return cls(obj, grouper=grouper)", name="A7 value_columns not passed to the constructor")
add("A3f", "break", API, BG + "mean", "self._grouper.mean(self._values_to_group, mask=mask, margins=margins)", "self._grouper.mean(self._values_to_group, margins=margins)", name="A3f mean drops mask")
add("A3f", "break", API, BG + "var", "self._grouper.var(self._values_to_group, ddof=ddof, mask=mask, margins=margins)", "self._grouper.var(self._values_to_group, mask=mask, margins=margins)", name="A3f var drops ddof")
add("A3f", "break", API, BG + "agg", "return method() if mask is None else method(mask=mask)", "return method()", name="A3f agg(str) drops mask on the method path")
add("A3f", "break", API, BG + "quantile", "self._grouper.quantile(self._values_to_group, q=q, mask=mask)", "self._grouper.quantile(self._values_to_group, q=q)", name="A3f quantile drops mask")
add("A3f", "break", API, "BaseGroupByRolling.agg", "window=self._window, min_periods=self._min_periods, mask=mask, index_by_groups=index_by_groups", "window=self._window, min_periods=self._min_periods, index_by_groups=index_by_groups", name="A3f rolling drops mask")
add("A3f", "break", API, "BaseGroupByRolling.min", "self.agg('min', mask=mask, index_by_groups=index_by_groups)", "self.agg('min', index_by_groups=index_by_groups)", name="A3f rolling min drops mask")
add("A3f", "break", API, BG + "size", "self._grouper.size(mask=mask)", "self._grouper.size()", name="A3f size drops mask")
add("A3f", "keep", API, BG + "mean", "self._grouper.mean(self._values_to_group, mask=mask, margins=margins)", "self._grouper.mean(self._values_to_group, mask, margins=margins)", name="A3f mask positionally")
add("A3m", "break", CORE, "value_counts", "GroupBy.size(x, mask=mask)", "GroupBy.size(x)", name="A3m value_counts drops mask")
add("A3m", "break", CORE, "GroupBy.median", "self.apply(values=values, mask=mask, func=np.median, transform=transform)", "self.apply(values=values, func=np.median, transform=transform)", name="A3m median drops mask")
add("A3m", "break", CORE, "GroupBy.density", "totals = self.sum(values, mask, margins=True)", "totals = self.sum(values, margins=True)", name="A3m density drops mask")
add("A3m", "break", CORE, "GroupBy.cummin", "self._apply_rolling_or_cumulative_func('cummin', values, mask, skip_na=skip_na)", "self._apply_rolling_or_cumulative_func('cummin', values, skip_na=skip_na)", name="A3m cummin drops mask")
add("A3m", "break", CORE, "GroupBy._apply_gb_reduction", "results = self._apply_gb_func_across_chunked_group_keys(effective_func_name, value_list=value_list, mask=mask)", "results = self._apply_gb_func_across_chunked_group_keys(effective_func_name, value_list=value_list)", name="A3m reduction drops mask before the kernels")
add("A3m", "break", CORE, "GroupBy._build_arg_dict_for_function", "shared_kwargs = dict(group_key=self.group_ikey, mask=mask, ngroups=self.ngroups + 1, **kwargs)", "shared_kwargs = dict(group_key=self.group_ikey, ngroups=self.ngroups + 1, **kwargs)", name="A3m rolling/cumulative arg dict drops mask")
add("A3m", "break", NB, "_apply_cumulative", "mask=mask, target=target)", "target=target)", name="A3m cumulative kernel called without mask")
add("A3c", "break", CORE, "GroupBy.agg", "return func(values, mask=mask, transform=transform, margins=margins, observed_only=observed_only)", "return func(values, mask=mask, transform=transform, margins=margins)", name="A3c agg drops observed_only")
add("A3c", "break", CORE, "GroupBy.agg", "signature(self.agg).bind(v, agg_func=f, mask=mask, transform=transform, margins=margins, observed_only=observed_only)", "signature(self.agg).bind(v, agg_func=f, mask=mask, transform=transform, observed_only=observed_only)", name="A3c agg list branch drops margins")
add("A3c", "break", CORE, "GroupBy.ratio", "kwargs = dict(mask=mask, agg_func=agg_func, margins=margins)", "kwargs = dict(mask=mask, agg_func=agg_func)", name="A3c ratio drops margins")
add("A3c", "break", CORE, "GroupBy.median", "transform=transform)", "transform=False)", name="A3c median ignores transform")
add("A3c", "break", CORE, "GroupBy.quantile", "self.apply(values=values, func=np.quantile, q=q, mask=mask)", "self.apply(values=values, func=np.quantile, q=0.5, mask=mask)", name="A3c quantile ignores q")
add("A3x", "break", CORE, "crosstab", "aggregation = grouper.size(mask=mask, margins=margin_levels)", "aggregation = grouper.size(margins=margin_levels)", name="A3x crosstab counts ignore mask")
add("A3x", "break", CORE, "crosstab", "grouper.agg(values=values, agg_func=aggfunc, mask=mask, margins=margin_levels)", "grouper.agg(values=values, agg_func='sum', mask=mask, margins=margin_levels)", name="A3x crosstab ignores aggfunc")
add("A3x", "break", CORE, "crosstab", "grouper.agg(values=values, agg_func=aggfunc, mask=mask, margins=margin_levels)", "grouper.agg(values=values, agg_func=aggfunc, mask=mask)", name="A3x crosstab values branch drops margins")
add("A8", "break", CORE, "add_row_margin", "    data = data.sort_index()\n", "    from pandas.core.reshape.util import cartesian_product\n    data = data.sort_index()\n", name="A8 import of a helper that pandas 3 removed")
add("A8", "break", UTIL, "to_arrow", "isinstance(a, pd.core.base.PandasObject)", "isinstance(a, pd.core.base.PandasObjectBase)", name="A8 private attribute path that does not exist")
add("A8", "keep", CORE, "add_row_margin", "    data = data.sort_index()\n", "    from pandas.api.types import is_scalar\n    data = data.sort_index()\n", name="A8 import of a public pandas name")

# --------------------------------------------------------------------------------------------- E1 E2 E3 U1 U2 F1
add("E1", "break", EMAS, "ema_grouped", "            alpha = 1 - np.exp(-np.log(2) / halflife)\n", "            alpha = 1 - np.exp(-np.log(2) / int(halflife))\n", name="E1 grouped halflife truncated before alpha")
add("E1", "break", EMAS, "ema_grouped", "        if times is None:\n            if halflife <= 0:\n                raise ValueError('Halflife must be positive.')\n            alpha = 1 - np.exp(-np.log(2) / halflife)\n        else:\n            halflife = _halflife_to_int(halflife)\n",
    "        halflife = _halflife_to_int(halflife)\n        if times is None:\n            alpha = 1 - np.exp(-np.log(2) / halflife)\n", name="E1 nanosecond conversion reaches the untimed path")
add("E1", "break", EMAS, "ema", "alpha = 1 - np.exp(-np.log(2) / halflife)", "alpha = 1 - np.exp(-1 / halflife)", expect_func="*", name="E1 ungrouped entry uses a different conversion")
add("E1", "keep", EMAS, "ema", "alpha = 1 - np.exp(-np.log(2) / halflife)", "decay = np.log(2) / halflife\n        alpha = 1 - np.exp(-decay)", name="E1 conversion through a local")
add("E2", "break", EMAS, "_ema_grouped", "            out[i] = last_seen[k]\n", "            out[i] = out[i - 1]\n", name="E2 invalid row repeats the previous ROW, not the group's value")
add("E2", "break", EMAS, "_ema_grouped_timed", "            out[i] = last_seen[k]\n", "            out[i] = np.nan\n", name="E2 invalid row gets NaN in the timed kernel")
add("E2", "break", EMAS, "_ema_grouped", "        last_seen[k] = out[i]\n", "", name="E2 carried value never recorded")
add("E2", "break", EMAS, "_ema_grouped", "        residual_weights[k] *= beta\n        last_seen[k] = out[i]\n", "        residual_weights[k] *= beta\n        if not np.isnan(x):\n            last_seen[k] = x\n", name="E2 carried value is the raw input, not the EMA")
add("E3", "break", EMAS, "_ema_grouped_timed", "        last_seen_times[k] = times[i]\n", "        if not np.isnan(x):\n            last_seen_times[k] = times[i]\n", name="E3 clock not advanced on invalid rows although the state was decayed")
add("E3", "break", EMAS, "_ema_grouped_timed", "hl = (times[i] - last_seen_times[k]) / halflife", "hl = (times[i] - times[i - 1]) / halflife", name="E3 elapsed time measured from the previous ROW")
add("U1", "break", NB, "_cumulative_reduce", "reduce_func(target[last_seen], val, group_count[key])", "reduce_func(target[i - 1], val, group_count[key])", name="U1 running value read from the previous row of any group")
add("U1", "break", NB, "_cumulative_reduce", "reduce_func(target[last_seen], val, group_count[key])", "reduce_func(target[key], val, group_count[key])", name="U1 running value read at the code position")
add("U1", "break", NB, "_cumulative_reduce", "    group_last_seen = np.full(ngroups, -1)\n", "    group_last_seen = np.full(ngroups, 0)\n", name="U1 initial last-seen cell points at row 0")
add("U2", "break", NB, "_cumulative_reduce", "            group_last_seen[key] = i\n", "", name="U2 last-seen row never recorded")
add("U2", "break", NB, "_cumulative_reduce", "            group_last_seen[key] = i\n", "            if not is_null(val):\n                group_last_seen[key] = i\n", name="U2 last-seen row recorded only for non-null values")
add("U2", "break", NB, "_cumulative_reduce", "            last_seen = group_last_seen[key]\n", "            last_seen = group_last_seen[key]\n            group_count[key] += 0 * i + 1\n", name="U2 count touched before the mask test")
add("F1", "break", FACT, "_monotonic_factorization", "        if x != x:\n            return (i, codes, labels[:n_labels])\n", "", name="F1 null key compared before it is tested")
add("F1", "break", FACT, "_monotonic_factorization", "    if arr[0] != arr[0]:\n        return (0, codes, labels[:0])\n", "", name="F1 leading null becomes a label")
add("F1", "break", FACT, "factorize_1d", "pd.factorize(values, use_na_sentinel=True)", "pd.factorize(values, use_na_sentinel=False)", name="F1 pandas route makes NaN a label")
add("F1", "break", CORE, "GroupBy._factorize_group_key_in_chunks", "codes_list = [mono_codes.astype(np.int64), *codes_list]", "codes_list = [mono_codes, *codes_list]", name="F1 unsigned prefix codes fix the chunked array type")
add("F1", "keep", FACT, "_monotonic_factorization", "        if x != x:\n            return (i, codes, labels[:n_labels])\n        if x < prev:\n            return (i, codes, labels[:n_labels])\n", "        if x != x or x < prev:\n            return (i, codes, labels[:n_labels])\n", name="F1 null test merged into the ordering test (tested first)")

# --------------------------------------------------------------------------------------------- A1 must-validate
PRE = "GroupBy._preprocess_arguments"
add("A1", "break", CORE, PRE, "        if input_len != len(self):\n            raise ValueError(f'Length of the input values ({input_len}) does not match length of group keys ({len(self)})')\n", "", name="A1 length comparison with the keys deleted", expect_func="*")
add("A1", "break", CORE, PRE, "            if not self._key_index.equals(common_index):\n                raise ValueError('Pandas index of inputs does not match that of the group keys')\n", "            pass\n", name="A1 index comparison with the keys deleted", expect_func="*")
add("A1", "break", CORE, PRE, "        if mask_is_boolean:\n            to_check = [*to_check, mask]\n", "", name="A1 boolean mask no longer validated", expect_func="*")
add("A1", "break", CORE, PRE, "        common_index = _validate_input_lengths_and_indexes(to_check)\n", "        common_index = _validate_input_lengths_and_indexes(value_list)\n", name="A1 validation runs on the values only", expect_func="*")
add("A1", "break", CORE, "_validate_input_lengths_and_indexes", "    if len(lengths) > 1:\n        raise ValueError(f'found more than one unique length: {lengths}')\n", "", name="A1 mutual length check deleted", expect_func="*")
add("A1", "break", CORE, "_validate_input_lengths_and_indexes", "        if not left.equals(right):\n            raise ValueError('Found different indices in the array_inputs')\n", "        pass\n", name="A1 mutual index check deleted", expect_func="*")
add("A1", "break", CORE, "GroupBy._get_row_selection", "        if len(value_list[0]) != len(self):\n            raise ValueError(f'Length of the input values ({len(value_list[0])}) does not match length of group keys ({len(self)})')\n", "", name="A1 head/tail/nth values not compared with the keys (length)", expect_func="*")
add("A1", "break", CORE, "GroupBy._get_row_selection", "            if not self._key_index.equals(common_index):\n                raise ValueError('Pandas index of inputs does not match that of the group keys')\n", "            pass\n", name="A1 head/tail/nth values not compared with the keys (index)", expect_func="*")
add("A1", "break", CORE, "GroupBy.ema", "        if times is not None and len(times) != len(self):\n            raise ValueError(f\"group_key, values, times must have equal length. Got lengths: {{'group_key': {len(self)}, 'values': {len(self)}, 'times': {len(times)}}}\")\n", "", name="A1 ema: times length not checked before re-ordering", expect_func="*")
add("A1", "break", CORE, "GroupBy.ema", "                if index is not None and (not index.equals(times.index)):\n                    raise ValueError('Pandas index of times does not match that of the group keys / values')\n", "                pass\n", name="A1 ema: times index never compared", expect_func="*")
add("A1", "break", CORE, "GroupBy.count_ikey", "            if not self._key_index.equals(mask.index):\n                raise ValueError('Pandas index of the mask does not match that of the group keys')\n", "            pass\n", name="A1 count_ikey mask index not compared", expect_func="*")
add("A1", "break", CORE, "GroupBy.group_nearby_members", "        self._preprocess_arguments(values, None)\n", "", name="A1 group_nearby_members skips validation", expect_func="*")
add("A1", "break", CORE, "GroupBy.apply", "        value_names, value_list, type_list, common_index = self._preprocess_arguments(values, mask=mask)\n", "        value_list, value_names = convert_data_to_arr_list_and_keys(values)\n        type_list = [v.dtype for v in value_list]\n        common_index = None\n", name="A1 apply skips validation", expect_func="*")
add("A1", "break", UTIL, "check_data_inputs_aligned", "            if len(set(lengths.values())) > 1:\n                raise ValueError(f'{', '.join(lengths)} must have equal length. Got lengths: {lengths}')\n", "", name="A1 alignment decorator no longer compares lengths", expect_func="*")
add("A1", "keep", CORE, PRE, "        if input_len != len(self):", "        if len(self) != input_len:", name="A1 comparison operands swapped")
add("A1", "keep", CORE, PRE, "            if not self._key_index.equals(common_index):", "            if not common_index.equals(self._key_index):", name="A1 index equality mirrored")

# --------------------------------------------------------------------------------------------- O1 / O2 ownership
add("O1", "break", CORE, "GroupBy._apply_gb_reduction", "        result_len = len(self.result_index)\n", "        result_len = len(self.result_index)\n        value_list[0][0] = 0\n", name="O1 store into the caller's first value array", accept_error=False, expect_func="*")
add("O1", "break", NB, "_group_func_wrap", "    group_key = _val_to_numpy(group_key)\n    values = _val_to_numpy(values, as_list=True)\n", "    group_key = _val_to_numpy(group_key)\n    group_key.sort()\n    values = _val_to_numpy(values, as_list=True)\n", name="O1 in-place sort of the caller's key array", expect_func="*")
add("O1", "break", NB, "_apply_cumulative", "    counting = 'count' in operation\n", "    counting = 'count' in operation\n    if mask is not None:\n        mask &= np.asarray(group_key) >= 0\n", name="O1 augmented assignment into the caller's mask", expect_func="*")
add("O1", "break", NB, "_apply_rolling", "    result = rolling_1d_func(**kwargs)\n", "    result = rolling_1d_func(**kwargs)\n    np.nan_to_num(values[0], copy=False)\n", name="O1 copy=False mutation of the values", expect_func="*")
add("O1", "keep", NB, "group_mean", "    mean = sum_ / count\n", "    mean = np.divide(sum_, count, out=sum_.astype(float))\n", name="O1 out= into a fresh array")
add("O1", "break", NB, "_apply_rolling", "    result = rolling_1d_func(**kwargs)\n", "    result = rolling_1d_func(**kwargs)\n    np.putmask(values[0], values[0] < 0, 0)\n", name="O1 np.putmask on the values", expect_func="*")
add("O1", "break", CORE, "GroupBy.ikey_count", "return self.count_ikey()", "c = self.count_ikey()\n        np.asarray(self._group_ikey)[:1] = 0\n        return c", name="O1 store through a view of the grouping's codes", expect_func="*")
add("O1", "break", CORE, "GroupBy._get_row_selection", "        keep = ilocs > -1\n", "        keep = ilocs > -1\n        value_list[0].sort_index(inplace=True)\n", name="O1 inplace=True on a caller-owned Series", expect_func="*")
add("O1", "break", NB, "_cumulative_reduce", "                    target[i] = target[last_seen]\n", "                    target[i] = target[last_seen]\n                    group_key[i] = key\n", name="O1 kernel writes its key parameter", expect_func="*")
add("O1", "break", EMAS, "ema_grouped", "    if mask is not None:\n        mask = np.asarray(mask)\n", "    if mask is not None:\n        mask = np.asarray(mask)\n        mask[np.isnan(values_arr)] = False\n", name="O1 ema_grouped clears mask entries in place", expect_func="*")
add("O1", "keep", EMAS, "ema_grouped", "    if mask is not None:\n        mask = np.asarray(mask)\n", "    if mask is not None:\n        mask = np.array(mask, copy=True)\n        mask[np.isnan(values_arr)] = False\n", name="O1 same store on a copy")
add("O1", "keep", NB, "_group_func_wrap", "    group_key = _val_to_numpy(group_key)\n    values = _val_to_numpy(values, as_list=True)\n", "    group_key = _val_to_numpy(group_key).copy()\n    group_key.sort()\n    values = _val_to_numpy(values, as_list=True)\n", name="O1 in-place sort of a copy")
add("O2", "break", CORE, "GroupBy.cumsum", "return self._apply_rolling_or_cumulative_func('cumsum', values, mask, skip_na=skip_na)", "if mask is None and len(self) == 0:\n            return values\n        return self._apply_rolling_or_cumulative_func('cumsum', values, mask, skip_na=skip_na)", name="O2 cumsum returns its input on the empty path")
add("O2", "break", NB, "_apply_rolling", "    return result", "    return values[0] if window == 1 and operation in ('min', 'max') else result", name="O2 rolling returns the (viewed) input for window 1", expect_func="*")
add("O2", "break", CORE, "GroupBy.count_ikey", "            return numba_funcs.group_size(self.group_ikey, self.ngroups, mask=mask)", "            return self._chunk_offsets if mask is None else numba_funcs.group_size(self.group_ikey, self.ngroups, mask=mask)", name="O2 a public method hands out a cached array", expect_func="*")
add("O1", "break", CORE, "GroupBy._apply_gb_reduction", "                    observed = self.ikey_count > 0\n", "                    observed = self.ikey_count\n                    observed[observed > 1] = 1\n", name="O1 store into the cached key counts", expect_func="*")

# --------------------------------------------------------------------------------------------- M6 K4b P12 P7b E3(converse)
FFC = "GroupBy._find_first_chunk_in_slice"
add("M6", "break", CORE, FFC, "        if mask.start is None:\n            start = 0\n        elif mask.start < 0:\n            start = len(self) + mask.start\n        else:\n            start = mask.start\n", "        start = mask.start or 0\n", name="M6 negative start not normalised")
add("M6", "break", CORE, FFC, "        if mask.start is None:\n            start = 0\n        elif mask.start < 0:", "        if mask.start < 0:", name="M6 open start not handled")
add("M6", "break", CORE, FFC, "            if cum_length > start:", "            if cum_length >= start:", name="M6 boundary start lands in the previous chunk")
add("M6", "keep", CORE, FFC, "        if mask.start is None:\n            start = 0\n        elif mask.start < 0:\n            start = len(self) + mask.start\n        else:\n            start = mask.start\n", "        start = mask.start or 0\n        if start < 0:\n            start += len(self)\n", name="M6 or-0 idiom with in-place normalisation")
add("M6", "keep", CORE, FFC, "        if mask.start is None:\n            start = 0\n        elif mask.start < 0:\n            start = len(self) + mask.start\n        else:\n            start = mask.start\n", "        start = mask.indices(len(self))[0]\n", name="M6 slice.indices")
add("K4b", "break", FACT, "_combine_factorizations", "combined_codes = np.zeros(len(codes), dtype='int64')", "combined_codes = np.zeros(len(codes), dtype=codes.dtype)", name="K4b combined codes inherit the per-key code dtype")
add("K4b", "break", FACT, "_combine_factorizations", "combined_codes = np.zeros(len(codes), dtype='int64')", "combined_codes = np.zeros(len(codes), dtype='int16')", name="K4b combined codes int16")
add("K4b", "break", FACT, "factorize_2d", "code_tracker = np.full(cartesian_product_size, -1, dtype='int32')", "code_tracker = np.full(cartesian_product_size, -1, dtype='int16')", name="K4b code tracker int16")
add("K4b", "keep", FACT, "factorize_2d", "code_tracker = np.full(cartesian_product_size, -1, dtype='int32')", "code_tracker = np.full(cartesian_product_size, -1, dtype=np.int64)", name="K4b code tracker int64")
add("P12", "break", CORE, "GroupBy._convert_arr_to_polars_series", "            if ints.min() == np.iinfo(np.int64).min:\n                arr = arr\n            else:\n                arr = ints\n", "            arr = ints\n", name="P12 integer view always handed to polars")
add("P12", "break", CORE, "GroupBy._convert_arr_to_polars_series", "if ints.min() == np.iinfo(np.int64).min:", "if ints.min() != np.iinfo(np.int64).min:", name="P12 sentinel test inverted")
add("P12", "keep", CORE, "GroupBy._convert_arr_to_polars_series", "            if ints.min() == np.iinfo(np.int64).min:\n                arr = arr\n            else:\n                arr = ints\n", "            if ints.min() != np.iinfo(np.int64).min:\n                arr = ints\n", name="P12 test mirrored")
FCH = "GroupBy._factorize_group_key_in_chunks"
add("P7b", "break", CORE, FCH, "self._result_index = pd.Index(np.concatenate(unique_list)).drop_duplicates()", "self._result_index = pd.Index(np.unique(np.concatenate(unique_list)))", name="P7b labels through np.unique (sorted) on the unsorted path")
add("P7b", "break", CORE, FCH, "        arg_list = [(pd.Index(self.result_index), arr) for arr in unique_list]\n        self._group_key_pointers = parallel_map(get_indexer, arg_list)\n", "        arg_list = [(pd.Index(self.result_index), arr) for arr in unique_list[1:]]\n        self._group_key_pointers = [np.arange(len(unique_list[0])), *parallel_map(get_indexer, arg_list)]\n", name="P7b first pointer table assumed to be the identity")
add("P7b", "keep", CORE, FCH, "self._result_index = pd.Index(np.concatenate(unique_list)).drop_duplicates()", "self._result_index = pd.Index(pd.unique(np.concatenate(unique_list)))", name="P7b pd.unique keeps first-appearance order")
add("P7b", "keep", CORE, FCH, "        arg_list = [(pd.Index(self.result_index), arr) for arr in unique_list]\n        self._group_key_pointers = parallel_map(get_indexer, arg_list)\n", "        label_index = pd.Index(self.result_index)\n        self._group_key_pointers = [label_index.get_indexer(arr) for arr in unique_list]\n", name="P7b lookups in a comprehension")
add("E3", "break", EMAS, "_ema_grouped_timed", "        if last_seen_times[k] > 0:\n", "        if masked and (not mask[i]):\n            out[i] = last_seen[k]\n            last_seen_times[k] = times[i]\n            continue\n        if last_seen_times[k] > 0:\n", name="E3 masked rows advance the clock without decaying the state")

# --------------------------------------------------------------------------------------------- M7 M8 P11b P13 P14 P15 P16 D3b E4 F1b S3b
add("M7", "break", CORE, "GroupBy.ema", "times=None if times is None else times[indexer]", "times=times", name="M7 times forwarded in row order while values are group-sorted")
add("M7", "break", CORE, "GroupBy.ema", "mask=None if mask is None else mask[indexer]", "mask=mask", name="M7 mask forwarded in row order")
add("M7", "keep", CORE, "GroupBy.ema", "times=None if times is None else times[indexer]", "times=times[indexer] if times is not None else None", name="M7 conditional mirrored")
add("M8", "break", CORE, "GroupBy.count_ikey", "count += numba_funcs.group_size(chunk, self.ngroups, mask=m)", "count += numba_funcs.group_size(chunk, self.ngroups, mask=mask)", name="M8 raw mask paired with the cut key chunks")
add("M8", "break", CORE, "GroupBy.count_ikey", "            count = np.zeros(self.ngroups, dtype=np.int64)\n", "            if self._group_key_pointers is None:\n                return numba_funcs.group_size(_val_to_numpy(group_key), self.ngroups, mask=mask)\n            count = np.zeros(self.ngroups, dtype=np.int64)\n", name="M8 single-pass count re-applies the slice")
add("M8", "keep", CORE, "GroupBy.count_ikey", "                m = mask_chunks[i]\n", "                m = mask_chunks[i]\n                n_rows = len(chunk)\n", name="M8 unrelated local")
add("P11b", "break", CORE, "GroupBy.apply", "index = self._build_group_sorted_index(common_index)", "index = self._build_group_sorted_index(self._key_index)", name="P11b apply labels rows by the keys' index")
add("P11b", "break", CORE, "GroupBy.ema", "result_index = self._build_group_sorted_index(common_index)", "result_index = self._build_group_sorted_index()", name="P11b ema labels rows by position")
add("P13", "break", CORE, "GroupBy._col_names_from_value_names", "name if name is not None else f'_arr_{i}'", "name or f'_arr_{i}'", name="P13 falsy names replaced")
add("P13", "break", CORE, "GroupBy._col_names_from_value_names", "name if name is not None else f'_arr_{i}'", "name if name else f'_arr_{i}'", name="P13 truthiness test")
add("P13", "keep", CORE, "GroupBy._col_names_from_value_names", "name if name is not None else f'_arr_{i}'", "f'_arr_{i}' if name is None else name", name="P13 is None form")
add("P14", "break", CORE, "crosstab", "column_levels = levels[n0:]", "column_levels = levels[n1:]", name="P14 column levels cut at the wrong bound")
add("P14", "keep", CORE, "crosstab", "    row_levels = levels[:n0]\n    column_levels = levels[n0:]\n", "    row_levels, column_levels = (levels[:n0], levels[n0:])\n", name="P14 tuple assignment")
add("P15", "break", CORE, "add_row_margin", "        out.loc[summary.index] = summary\n", "        out.update(summary)\n", name="P15 summary rows written with update()")
add("P16", "break", CORE, "add_row_margin", "        summary = add_row_margin(summary, agg_func)\n", "        if len(levels) == len(all_levels):\n            summary = add_row_margin(summary, agg_func)\n", name="P16 recursion only when all levels are requested")
add("P16", "keep", CORE, "add_row_margin", "        summary = add_row_margin(summary, agg_func)\n", "        summary = add_row_margin(summary, agg_func=agg_func)\n", name="P16 keyword form")
add("D3b", "break", NB, "_rolling_max_or_min_1d", "if group_non_null[key] == 0 or (want_max and val >= cur_best)", "if n_seen == 0 or (want_max and val >= cur_best)", name="D3b first value installed on rows seen, not non-null values seen")
add("D3b", "break", NB, "_rolling_max_or_min_1d", "if group_non_null[key] == 0 or (want_max and val >= cur_best) or (want_min and val <= cur_best):", "if (want_max and val >= cur_best) or (want_min and val <= cur_best):", name="D3b no unconditional install for the first non-null value")
add("E4", "break", EMAS, "_ema_adjusted", "            residual_weights += 1\n            residual += x\n        residual *= beta\n        residual_weights *= beta\n", "            residual_weights = beta * (residual_weights + 1)\n            residual = beta * (residual + x)\n", name="E4 ungrouped kernel does not age the history on null rows")
add("E4", "break", EMAS, "_ema_grouped", "        residuals[k] *= beta\n        residual_weights[k] *= beta\n", "        if not np.isnan(x):\n            residuals[k] *= beta\n            residual_weights[k] *= beta\n", name="E4 grouped kernel does not age the history on null rows")
add("E4", "break", EMAS, "_ema_adjusted", "        residual *= beta\n", "        residual *= beta * beta\n", name="E4 numerator decayed twice per row")
add("E4", "keep", EMAS, "_ema_adjusted", "        if np.isnan(x):\n            out[i] = out[i - 1]\n        else:\n            out[i] = (x + residual) / (1 + residual_weights)\n            residual_weights += 1\n            residual += x\n        residual *= beta\n        residual_weights *= beta\n", "        if np.isnan(x):\n            out[i] = out[i - 1]\n            residual_weights = residual_weights * beta\n            residual = residual * beta\n        else:\n            out[i] = (x + residual) / (1 + residual_weights)\n            residual_weights = beta * (residual_weights + 1)\n            residual = beta * (residual + x)\n", name="E4 decay folded into both arms")
add("F1b", "break", FACT, "factorize_range_index", "if index.step != 1:", "if index.step > 1:", name="F1b negative steps not divided")
add("F1b", "keep", FACT, "factorize_range_index", "    if index.step != 1:\n        codes = codes // index.step\n", "    codes = codes // index.step\n", name="F1b always divided")
add("S3b", "break", CORE, INIT, "            self._sort = group_keys._sort\n", "            self._sort = sort\n", name="S3b copy takes _sort from the constructor argument")
add("S3b", "break", CORE, INIT, "            self._group_key_pointers = group_keys._group_key_pointers\n", "            self._group_key_pointers = None\n", name="S3b copy drops the pointer tables of chunk-local codes")

# --------------------------------------------------------------------------------------------- R1 P17 P18 P19 (+ O2 wrapped state)
add("R1", "break", NB, "_find_first_or_last_n", "    if not forward:\n        out = out[:, ::-1]\n", "", name="R1 backward scan not flipped back")
add("R1", "keep", NB, "_find_first_or_last_n", "    if not forward:\n        out = out[:, ::-1]\n", "    if not forward:\n        out = np.fliplr(out)\n", name="R1 flip with np.fliplr")
add("P17", "break", CORE, "GroupBy._get_row_selection", "result = pd.DataFrame(dict(zip(col_names, value_list)), copy=False).iloc[ilocs].set_index(out_index)", "result = pd.DataFrame(np.column_stack([_val_to_numpy(v)[ilocs] for v in value_list]), index=out_index, columns=col_names, copy=False)", name="P17 selected rows assembled through one 2-D block")
add("P18", "break", NANOPS, "reduce_1d", "list(zip(np.array_split(arr, n_threads)))", "[(arr[i * (len(arr) // n_threads):(i + 1) * (len(arr) // n_threads)],) for i in range(n_threads)]", name="P18 inline floor-division chunks (no local)")
add("P18", "break", NANOPS, "reduce_1d", "        chunks = parallel_map(lambda a: _nb_reduce(reduce_func=reduce_func, arr=a, **kwargs), list(zip(np.array_split(arr, n_threads))))\n", "        chunk_len = len(arr) // n_threads\n        chunks = parallel_map(lambda a: _nb_reduce(reduce_func=reduce_func, arr=a, **kwargs), [(arr[i * chunk_len:(i + 1) * chunk_len],) for i in range(n_threads)])\n", name="P18 equal-length chunks drop the tail")
add("P19", "break", UTIL, "pretty_cut", "    sort_key = np.argsort(numeric_bins)\n    bins = bins[sort_key]\n    numeric_bins = numeric_bins[sort_key]\n", "    bins = np.sort(bins)\n", name="P19 labels sorted, searched edges left in the caller's order")
add("P19", "keep", UTIL, "pretty_cut", "    sort_key = np.argsort(numeric_bins)\n    bins = bins[sort_key]\n    numeric_bins = numeric_bins[sort_key]\n", "    order = numeric_bins.argsort()\n    bins = bins[order]\n    numeric_bins = numeric_bins[order]\n", name="P19 argsort as a method, key renamed")
add("O2", "break", CORE, "GroupBy.size", "        return self._apply_gb_reduction(", "        if mask is None and (not transform) and (not margins) and (not observed_only):\n            return pd.Series(self.ikey_count[self._labels_argsort], self.result_index[self._labels_argsort], copy=False)\n        return self._apply_gb_reduction(", name="O2 size hands out a Series over the cached counts")
add("A1", "break", CORE, PRE, "        to_check = list(value_list)\n", "", also=((CORE, PRE, "        mask_is_boolean = mask is not None", "        to_check = value_list\n        mask_is_boolean = mask is not None"),), name="A1 validation runs after the timestamp conversion dropped the index", expect_func="*")
add("A1", "break", CORE, PRE, " or (isinstance(mask, pl.Series) and mask.dtype == pl.Boolean)", "", name="A1 polars boolean masks not recognised as boolean", expect_func="*")
add("A1", "keep", CORE, PRE, "        to_check = list(value_list)\n", "        to_check = [*value_list]\n", name="A1 copy of the value list taken with a star expression")
add("P5b", "break", CORE, "GroupBy.apply", "observed = np.array([len(arr) > 0 for arr in array_splits[0]], dtype=bool)", "observed = self.count_ikey(mask) > 0", name="P5b label-sorted index filtered by code-order counts")
add("P5b", "break", CORE, "GroupBy.apply", "observed = group_counts > 0", "observed = self.ikey_count > 0", name="P5b label-sorted index filtered by the raw key counts")
add("P5b", "keep", CORE, "GroupBy.apply", "observed = group_counts > 0", "observed = self.ikey_count[self._labels_argsort] > 0", name="P5b counts re-ordered by the label permutation first")
add("P20", "break", CORE, "GroupBy.var", "return (sq_sum - sum_sq / count) / (count - ddof)", "return np.fmax(sq_sum - sum_sq / count, 0.0) / (count - ddof)", name="P20 variance numerator clamped with fmax (drops NaN)")
add("P20", "break", UTIL, "mean_from_sum_count", "return sum_ / count", "return (sum_ / count).fillna(0)", name="P20 mean of an empty group filled with 0")
add("P20", "keep", CORE, "GroupBy.var", "return (sq_sum - sum_sq / count) / (count - ddof)", "return np.maximum(sq_sum - sum_sq / count, 0.0) / (count - ddof)", name="P20 clamp with np.maximum (propagates NaN)")

# --------------------------------------------------------------------------------------------- W1 W2 (rolling windows)
for fn, parr in (("_rolling_sum_or_mean_1d", "group_positions"), ("_rolling_max_or_min_1d", "group_buffer_pos"), ("_rolling_shift_or_diff_1d", "group_buffer_pos")):
    add("W1", "break", NB, fn, "(pos + 1) % window", "pos % window + 1", name=f"W1 position not wrapped in {fn}")
    add("W1", "break", NB, fn, "(pos + 1) % window", "(pos + 1) % (window + 1)", name=f"W1 wrong modulus in {fn}")
add("W1", "break", NB, "_rolling_sum_or_mean_1d", "group_full = group_n_seen[key] >= window", "group_full = group_n_seen[key] > window", name="W1 fullness one row late (sum)")
add("W1", "break", NB, "_rolling_max_or_min_1d", "group_full = n_seen >= window", "group_full = n_seen > window", name="W1 fullness one row late (max/min)")
add("W1", "break", NB, "_rolling_shift_or_diff_1d", "if group_counts[key] >= window:", "if group_counts[key] > window:", name="W1 fullness one row late (shift)")
add("W1", "break", NB, "_rolling_sum_or_mean_1d", "            if not group_full:\n                group_n_seen[key] += 1\n", "            group_n_seen[key] += 1\n", name="W1 row counter keeps counting after the buffer is full", accept_error=False)
add("W1", "break", NB, "_rolling_sum_or_mean_1d", "            group_buffers[key, pos] = val\n", "            if not val_is_null:\n                group_buffers[key, pos] = val\n", name="W1 null values not stored in the buffer")
add("W1", "keep", NB, "_rolling_sum_or_mean_1d", "group_positions[key] = (pos + 1) % window", "group_positions[key] = (1 + pos) % window", name="W1 commuted increment")
add("W1", "keep", NB, "_rolling_max_or_min_1d", "            new_position = (pos + 1) % window\n            group_buffer_pos[key] = new_position\n", "            group_buffer_pos[key] = (pos + 1) % window\n", name="W1 position update inlined")
add("W2", "break", NB, "_rolling_sum_or_mean_1d", "if group_non_null[key] >= min_periods:", "if group_non_null[key] > min_periods:", name="W2 emission needs one value too many")
add("W2", "break", NB, "_rolling_max_or_min_1d", "if group_non_null[key] >= min_periods:", "if group_n_seen[key] >= min_periods:", name="W2 emission counts rows, not non-null values")
add("W2", "break", NB, "_rolling_sum_or_mean_1d", "    if min_periods is None:\n        min_periods = window\n", "    if min_periods is None:\n        min_periods = 1\n", name="W2 min_periods defaults to 1")
add("W2", "break", NB, "_rolling_sum_or_mean_1d", "            group_buffers[key, pos] = val\n", "", also=((NB, "_rolling_sum_or_mean_1d", "            group_full = group_n_seen[key] >= window\n", "            group_full = group_n_seen[key] >= window\n            group_buffers[key, pos] = val\n"),), name="W2 new value stored before the evicted one is read", expect_func="*")

# --------------------------------------------------------------------------------------------- H1 H2
add("H1", "break", NB, "_find_nth", "        if seen[k] == n:\n            assert out[k] == -1\n            out[k] = i\n        seen[k] += 1\n", "        seen[k] += 1\n        if seen[k] == n:\n            assert out[k] == -1\n            out[k] = i\n", name="H1 counter incremented before the comparison (nth off by one)")
add("H1", "break", NB, "_find_nth", "if seen[k] == n:", "if seen[k] >= n:", name="H1 nth records every later occurrence")
add("H1", "break", NB, "_find_nth", "        n = -n - 1\n", "        n = -n\n", name="H1 negative n not shifted by one")
add("H1", "break", NB, "_find_first_or_last_n", "        if j < n:", "        if j <= n:", name="H1 head stores n+1 rows (slot out of range)")
add("H1", "keep", NB, "_find_nth", "        n = -n - 1\n", "        n = -1 - n\n", name="H1 n := -1 - n")
add("H2", "break", CORE, "GroupBy._build_group_sorted_indexer_numba", "group_starts[i + 1] = group_starts[i] + group_counts[i]", "group_starts[i + 1] = group_starts[i] + group_counts[i + 1]", name="H2 group starts use the next group's count")
add("H2", "break", CORE, "GroupBy._build_group_sorted_indexer_numba", "                    indexer[pos] = i\n                    current_pos[k] += 1\n", "                    current_pos[k] += 1\n                    indexer[pos + 1] = i\n", name="H2 position advanced before the write")
add("H2", "break", CORE, "GroupBy._build_group_sorted_indexer_numba", "                    current_pos[k] += 1\n", "", name="H2 position never advanced")

# --------------------------------------------------------------------------------------------- E5
add("E5", "break", EMAS, "_ema_grouped", "out[i] = (x + residuals[k]) / (1 + residual_weights[k])", "out[i] = (x + residuals[k]) / residual_weights[k]", name="E5 denominator misses the current observation")
add("E5", "break", EMAS, "_ema_grouped_timed", "            residual_weights[k] += 1\n", "            residual_weights[k] += beta\n", name="E5 weight grows by beta instead of 1")
add("E5", "break", EMAS, "_ema_adjusted", "            residual += x\n", "", name="E5 numerator never accumulates the observation")
add("E5", "break", EMAS, "_ema_time_weighted", "out[i] = (x + residual) / (1 + residual_weights)", "out[i] = (x + residual) / (2 + residual_weights)", name="E5 wrong normalisation constant")
add("E5", "keep", EMAS, "_ema_grouped", "            residual_weights[k] += 1\n            residuals[k] += x\n", "            residuals[k] += x\n            residual_weights[k] += 1\n", name="E5 updates reordered")
add("E5", "keep", EMAS, "_ema_adjusted", "out[i] = (x + residual) / (1 + residual_weights)", "out[i] = (residual + x) / (residual_weights + 1)", name="E5 operands commuted")

# --------------------------------------------------------------------------------------------- W3
add("W3", "break", NB, "_rolling_sum_or_mean_1d", "                if not is_null(old_val):\n                    group_sums[key] -= old_val\n                    group_non_null[key] -= 1\n", "                if not is_null(old_val):\n                    group_sums[key] -= old_val\n", name="W3 non-null count not decremented at eviction")
add("W3", "break", NB, "_rolling_sum_or_mean_1d", "            if not val_is_null:\n                group_non_null[key] += 1\n                group_sums[key] += val\n", "            group_non_null[key] += 1\n            if not val_is_null:\n                group_sums[key] += val\n", name="W3 null values counted as non-null")
add("W3", "break", NB, "_rolling_max_or_min_1d", "                if not is_null(to_remove):\n                    group_non_null[key] -= 1\n", "                group_non_null[key] -= 1\n", name="W3 evicted nulls decrement the non-null count")
add("W3", "break", NB, "_rolling_sum_or_mean_1d", "                    group_sums[key] -= old_val\n", "", name="W3 evicted value never leaves the running sum")

# --------------------------------------------------------------------------------------------- D7b
add("D7b", "break", CORE, "GroupBy.var", "return (sq_sum - sum_sq / count) / (count - ddof)", "return (sq_sum - sum_sq / count) / (count + ddof)", name="D7b ddof added instead of subtracted")
add("D7b", "break", CORE, "GroupBy.var", "return (sq_sum - sum_sq / count) / (count - ddof)", "return (sq_sum / count - sum_sq / count) / (count - ddof)", name="D7b numerator divided twice")
add("D7b", "break", CORE, "GroupBy.var", "return (sq_sum - sum_sq / count) / (count - ddof)", "return (sq_sum - sum_sq) / count / (count - ddof)", name="D7b mean of squares minus square of sum")
add("D7b", "break", CORE, "GroupBy.std", "GroupBy.var(**locals()) ** 0.5", "GroupBy.var(**locals()) ** 2", name="D7b std squares the variance")
add("D7b", "keep", CORE, "GroupBy.var", "return (sq_sum - sum_sq / count) / (count - ddof)", "numerator = sq_sum - sum_sq / count\n        return np.maximum(numerator, 0.0) / (count - ddof)", name="D7b numerator in a local, clamped with np.maximum")
add("D7b", "keep", CORE, "GroupBy.var", "return (sq_sum - sum_sq / count) / (count - ddof)", "return (-(sum_sq / count) + sq_sum) / (-ddof + count)", name="D7b terms commuted")

# --------------------------------------------------------------------------------------------- L1 L2
ARGS = "argsort_index_numeric_only"
add("L1", "break", UTIL, ARGS, "codes_for_sorting.append(np.argsort(level.argsort())[codes])", "codes_for_sorting.append(level.argsort()[codes])", name="L1 permutation used instead of rank")
add("L1", "break", UTIL, ARGS, "return pd.core.sorting.lexsort_indexer(codes_for_sorting)", "return pd.core.sorting.lexsort_indexer(codes_for_sorting[::-1])", name="L1 levels sorted in reverse priority")
add("L1", "break", UTIL, ARGS, "if isinstance(index.dtype, pd.CategoricalDtype) or index.is_monotonic_increasing:", "if isinstance(index.dtype, pd.CategoricalDtype) or index.is_monotonic_decreasing:", name="L1 decreasing labels taken for sorted")
add("L1", "break", CORE, "GroupBy._labels_argsort", "if self._sort and (not self._index_is_sorted):", "if self._sort or (not self._index_is_sorted):", name="L1 labels sorted although sort=False")
add("L1", "keep", UTIL, ARGS, "        if isinstance(index.dtype, pd.CategoricalDtype) or index.is_monotonic_increasing:\n            return slice(None)\n        else:\n            return index.argsort()\n", "        if isinstance(index.dtype, pd.CategoricalDtype) or index.is_monotonic_increasing:\n            return slice(None)\n        return index.argsort()\n", name="L1 else removed (fall-through return)")
add("L2", "break", CORE, "GroupBy._maybe_squeeze_to_1d", "if n_values == 1 and isinstance(values, ArrayType1D)", "if n_values == 1 or isinstance(values, ArrayType1D)", name="L2 one-column frames squeezed too")
add("L2", "break", CORE, "GroupBy._maybe_squeeze_to_1d", "if get_array_name(values) is None:", "if get_array_name(values) is not None:", name="L2 named inputs lose their name")
add("L2", "break", CORE, "GroupBy._maybe_squeeze_to_1d", "result = result[result.columns[0]]", "result = result[result.columns[-1]].rename(None)", name="L2 wrong column / name always cleared")

# --------------------------------------------------------------------------------------------- round-2 rules (rules_z.py) and extensions
add("W4", "break", NB, "_rolling_max_or_min_1d", "if group_full and need_recalc:", "if need_recalc:", name="W4 buffer rescanned before it is full")
add("W4", "keep", NB, "_rolling_max_or_min_1d", "if group_full and need_recalc:", "if need_recalc and group_full:", name="W4 conjuncts swapped")
add("W1", "break", NB, "_rolling_shift_or_diff_1d", "            pos = group_buffer_pos[key]\n", "            pos = group_counts[key] % window\n", also=((NB, "_rolling_shift_or_diff_1d", "            group_buffer_pos[key] = (pos + 1) % window\n", "            pass\n"),), name="W1 position derived from a counter that saturates at the window")
add("E6", "break", EMAS, "ema_grouped", "        result = _ema_grouped(**nb_kwargs, alpha=alpha)\n", "        if ngroups == 1 and mask is None:\n            return _maybe_to_series(_ema_adjusted(values_arr, alpha))\n        result = _ema_grouped(**nb_kwargs, alpha=alpha)\n", name="E6 single-group fast path through the ungrouped kernel")
add("E7", "break", EMAS, "_ema_grouped_timed", "last_seen_times = np.zeros(ngroups, dtype='int64')", "last_seen_times = np.zeros(ngroups, dtype='float64')", name="E7 float clock")
add("E7", "keep", EMAS, "_ema_grouped_timed", "last_seen_times = np.zeros(ngroups, dtype='int64')", "last_seen_times = np.zeros(ngroups, dtype=np.int64)", name="E7 dtype spelled np.int64")
add("P24", "break", EMAS, "_times_to_int_array", "    times, _ = _convert_timestamp_to_tz_unaware(times)\n    return times.view(np.int64)", "    return pd.DatetimeIndex(times).tz_localize(None).as_unit('ns').asi8", name="P24 zone dropped with tz_localize(None)")
add("P24", "break", UTIL, "pretty_cut", "        numeric_bins = pd.to_timedelta(bins)\n", "        numeric_bins = pd.to_timedelta(bins).asi8\n", name="P24 .asi8 without unit normalisation")
add("P24", "keep", EMAS, "_times_to_int_array", "    times, _ = _convert_timestamp_to_tz_unaware(times)\n    return times.view(np.int64)", "    times, _ = _convert_timestamp_to_tz_unaware(times)\n    return pd.DatetimeIndex(times).as_unit('ns').asi8", name="P24 .asi8 after as_unit")
add("M9", "break", CORE, ACROSS, "numba_funcs._build_target_for_groupby(results_one_value[0].dtype,", "numba_funcs._build_target_for_groupby(results[0].dtype,", name="M9 merge target typed by the first value column")
add("D7c", "break", CORE, "GroupBy.var", "self.sum(values=values, **kwargs).to_numpy().astype(np.float64) ** 2", "self.sum(values=values, **kwargs).to_numpy() ** 2", name="D7c sums squared in their integer dtype")
add("D7c", "keep", CORE, "GroupBy.var", "self.sum(values=values, **kwargs).to_numpy().astype(np.float64) ** 2", "self.sum(values=values, **kwargs).to_numpy().astype(float) ** 2", name="D7c astype(float)")
add("P15b", "break", CORE, "add_row_margin", "data.groupby(level=other_levels, observed=True)", "data.groupby(level=other_levels, observed=False)", name="P15b subtotals over unobserved category combinations")
add("P15b", "break", CORE, "add_row_margin", "out = data.reindex(new_index, fill_value=0)", "out = data.reindex(new_index)", name="P15b margin grid filled with NaN (float detour)")
add("A3y", "break", CORE, "crosstab", "aggregation = grouper.size(mask=mask, margins=margin_levels)", "aggregation = grouper.size(mask=mask, margins=bool(margins))", name="A3y margins passed as a flag")
add("P21", "break", CORE, "GroupBy._get_row_selection", "        value_list, value_names = convert_data_to_arr_list_and_keys(values)\n        common_index = _validate_input_lengths_and_indexes(value_list)\n", "        value_names, value_list, _, common_index = self._preprocess_arguments(values, mask=None)\n", name="P21 row selection through the aggregation pre-processor")
add("P22", "break", UTIL, "check_if_func_is_non_reduce", "    if len(arr_in) == 1:\n        len_2 = len(func(np.tile(arr_in, 2), *args[1:]))\n    else:\n        len_2 = len(func(arr_in[:2], *args[1:]))\n", "    len_2 = len(func(arr_in[:2], *args[1:]))\n", name="P22 one-element probe not doubled")
add("A9", "break", API, "SeriesGroupBy._from_by_keys", "                grouping_keys.append(by)\n", "                grouping_keys.append(by.reindex(obj.index) if isinstance(by, pd.Series) else by)\n", name="A9 facade re-aligns a Series key")
add("D5b", "break", NANOPS, "reduce_1d", "chunks = output_converter(chunks)", "chunks = output_converter(np.asarray(chunks).astype(arr.dtype))", name="D5b chunk results cast back to the input dtype")
add("P23", "break", UTIL, "bools_to_categorical", "bit_mask = nb_dot(df, ", "bit_mask = nb_dot(df.loc[:, df.any()], ", name="P23 packed frame differs from the decoded frame")
add("S5", "break", CORE, "GroupBy._chunk_offsets", "return np.cumsum(self._group_key_lengths[:-1])", "return np.cumsum(self._group_key_lengths[:-1])\n\n    @cached_property\n    def _group_key_chunks(self):\n        return _val_to_numpy(self._group_ikey, as_list=True)", name="S5 new cache of the code chunks", expect_func="*")
add("S3b", "break", CORE, INIT, "            self._group_key_pointers = group_keys._group_key_pointers\n", "", also=((CORE, INIT, "        if isinstance(group_keys, GroupBy):", "        self._group_key_pointers = None\n        if isinstance(group_keys, GroupBy):"),), name="S3b pointer tables defaulted before the copy branch, not copied")
add("L1", "break", UTIL, ARGS, "    return pd.core.sorting.lexsort_indexer(codes_for_sorting)", "    if index.is_monotonic_increasing:\n        return slice(None)\n    return pd.core.sorting.lexsort_indexer(codes_for_sorting)", name="L1 multi-level shortcut on pandas monotonicity")
add("A1", "break", CORE, "GroupBy.ema", "        value_names, value_list, type_list, common_index = self._preprocess_arguments(values, mask)\n", "        if mask is not None:\n            mask = np.asarray(mask)\n        value_names, value_list, type_list, common_index = self._preprocess_arguments(values, mask)\n", name="A1 mask re-bound to an index-free array before validation", expect_func="*")

# --------------------------------------------------------------------------------------------- NV1 / ND1 / PC1
add("NV1", "break", NANOPS, "nanvar", "return (sum_sq - sum ** 2 / n) / d", "return (sum_sq / n - sum ** 2 / n) / d", name="NV1 sum of squares divided too")
add("NV1", "break", NANOPS, "nanvar", "return (sum_sq - sum ** 2 / n) / d", "return (sum_sq - sum ** 2 / n) / n", name="NV1 ddof ignored in the denominator")
add("NV1", "break", NANOPS, "nanvar", "d = n - ddof", "d = n + ddof", name="NV1 ddof added")
add("NV1", "break", NANOPS, "nanvar", "n = count(arr, axis=axis)", "n = count(arr)", name="NV1 count over the whole array instead of the axis")
add("NV1", "break", NANOPS, "nanvar", "sum = reduce(reduce_func_name='sum', **kwargs)", "sum = reduce(reduce_func_name='sum', arr=arr, axis=axis)", name="NV1 sum ignores skipna / threads of the caller")
add("NV1", "break", NANOPS, "nanvar", "sum = reduce(reduce_func_name='sum', **kwargs)", "sum = reduce(reduce_func_name='max', **kwargs)", name="NV1 wrong primitive")
add("NV1", "break", NANOPS, "nanmean", "return sum / n", "return sum / len(arr)", name="NV1 mean divides by the length, nulls included")
add("NV1", "break", NANOPS, "nanmean", "sum = nansum(**locals())", "sum = nansum(arr, axis=axis, n_threads=n_threads)", name="NV1 mean drops skipna")
add("NV1", "break", NANOPS, "nanstd", "nanvar(**locals()) ** 0.5", "nanvar(**locals()) ** 2", name="NV1 std squares")
add("NV1", "break", NANOPS, "nanstd", "nanvar(**locals()) ** 0.5", "nanvar(arr, skipna=skipna, min_count=min_count, axis=axis, n_threads=n_threads) ** 0.5", name="NV1 std drops ddof")
add("NV1", "keep", NANOPS, "nanvar", "return (sum_sq - sum ** 2 / n) / d", "return (-(sum * sum / n) + sum_sq) / d", name="NV1 commuted, s*s")
add("NV1", "keep", NANOPS, "nanvar", "d = n - ddof\n", "d = -ddof + n\n", name="NV1 denominator commuted")
add("NV1", "keep", NANOPS, "nanstd", "return nanvar(**locals()) ** 0.5", "v = nanvar(arr, skipna=skipna, min_count=min_count, axis=axis, n_threads=n_threads, ddof=ddof)\n    return np.sqrt(v)", name="NV1 explicit keywords, np.sqrt")
add("NV1", "keep", NANOPS, "nanmean", "return sum / n", "mean = sum / n\n    return mean", name="NV1 mean in a local")

add("ND1", "break", UTIL, "_nb_dot", "out[row] += a[col][row] * b[col]", "out[row] += a[col][row] * b[row]", name="ND1 vector indexed by the row")
add("ND1", "break", UTIL, "_nb_dot", "out[row] += a[col][row] * b[col]", "out[row] = a[col][row] * b[col]", name="ND1 overwrite instead of accumulate")
add("ND1", "break", UTIL, "_nb_dot", "for col in nb.prange(len(b)):", "for col in nb.prange(len(b) - 1):", name="ND1 last column skipped")
add("ND1", "break", UTIL, "nb_dot", "out=np.zeros(len(a), dtype=return_type)", "out=np.empty(len(a), dtype=return_type)", name="ND1 uninitialised output")
add("ND1", "break", UTIL, "nb_dot", "arr_list = a.T", "arr_list = a", name="ND1 rows handed over as columns")
add("ND1", "keep", UTIL, "_nb_dot", "out[row] += a[col][row] * b[col]", "out[row] += b[col] * a[col][row]", name="ND1 factors commuted")
add("ND1", "keep", UTIL, "_nb_dot", "for col in nb.prange(len(b)):", "for col in range(len(b)):", name="ND1 plain range")
add("ND1", "keep", UTIL, "nb_dot", "out = _nb_dot(arr_list, np.asarray(b), out=np.zeros(len(a), dtype=return_type))", "zeros = np.zeros(len(a), dtype=return_type)\n        out = _nb_dot(arr_list, np.asarray(b), zeros)", name="ND1 output in a local, positional")

add("PC1", "break", UTIL, "pretty_cut", "codes = numeric_bins.searchsorted(x)", "codes = numeric_bins.searchsorted(x, side='right')", name="PC1 side right")
add("PC1", "break", UTIL, "pretty_cut", "    if not is_integer:\n        codes[pd.Series(x).isnull()] = -1\n", "", name="PC1 nulls fall into the last bin")
add("PC1", "break", UTIL, "pretty_cut", "labels = [f' <= {bins[0]}']", "labels = []", name="PC1 head label missing")
add("PC1", "keep", UTIL, "pretty_cut", "codes = numeric_bins.searchsorted(x)", "codes = np.searchsorted(numeric_bins, x, side='left')", name="PC1 np.searchsorted explicit left")
add("PC1", "keep", UTIL, "pretty_cut", "labels = [f' <= {bins[0]}']", "labels = []\n    labels.append(f' <= {bins[0]}')", name="PC1 head appended")

# --------------------------------------------------------------------------------------------- MG1
ARM = "add_row_margin"
add("MG1", "break", CORE, ARM, "data.loc['All'] = data.agg(agg_func)", "data.loc['All'] = data.sum()", name="MG1 single-level total always a sum")
add("MG1", "break", CORE, ARM, "other_levels = [lvl for lvl in all_levels if lvl != level]", "other_levels = [lvl for lvl in all_levels if lvl > level]", name="MG1 only the later levels kept")
add("MG1", "break", CORE, ARM, "all_levels = list(range(data.index.nlevels))", "all_levels = list(range(data.index.nlevels - 1))", name="MG1 last level never summarised")
add("MG1", "break", CORE, ARM, "data.groupby(level=other_levels, observed=True).agg(agg_func)", "data.groupby(level=other_levels, observed=True).agg('sum')", name="MG1 subtotal always summed")
add("MG1", "break", CORE, ARM, "data.groupby(level=other_levels, observed=True).agg(agg_func)", "data.groupby(level=other_levels[:1], observed=True).agg(agg_func)", name="MG1 subtotal grouped by the first other level only")
add("MG1", "break", CORE, ARM, "summary = add_row_margin(summary, agg_func)", "summary = add_row_margin(summary)", name="MG1 nested subtotals with the default aggregator")
add("MG1", "break", CORE, ARM, "reorder_levels(np.argsort([level, *other_levels]))", "reorder_levels([level, *other_levels])", name="MG1 permutation instead of its inverse")
add("MG1", "break", CORE, ARM, "names=[data.index.names[lvl] for lvl in [level, *other_levels]]", "names=[data.index.names[lvl] for lvl in all_levels]", name="MG1 names in index order")
add("MG1", "break", CORE, ARM, "    for lvl in set(all_levels) - set(levels):\n        out.drop('All', level=lvl, inplace=True)\n", "", name="MG1 unrequested All rows kept")
add("MG1", "break", CORE, "GroupBy._add_margins", "levels = list(margins)", "levels = None", name="MG1 requested levels ignored")
add("MG1", "keep", CORE, ARM, "summary = pd.concat({'All': summary}, names=[data.index.names[lvl] for lvl in [level, *other_levels]])\n        summary.index = summary.index.reorder_levels(np.argsort([level, *other_levels]))",
    "order = [level, *other_levels]\n        summary = pd.concat({'All': summary}, names=[data.index.names[lvl] for lvl in order])\n        summary.index = summary.index.reorder_levels(np.argsort(order))", name="MG1 order in a local")
add("MG1", "keep", CORE, ARM, "other_levels = [lvl for lvl in all_levels if lvl != level]", "other_levels = [lvl for lvl in all_levels if level != lvl]", name="MG1 comparison commuted")
add("MG1", "keep", CORE, ARM, "summary = add_row_margin(summary, agg_func)", "summary = add_row_margin(summary, agg_func=agg_func)", name="MG1 keyword recursion")

# H1 (second half): the counter of _find_first_or_last_n
FFL = "_find_first_or_last_n"
add("H1", "break", NB, FFL, "            out[k, j] = i\n            seen[k] += 1", "            out[k, j] = i", name="H1 head counter never advances (every row overwrites slot 0)")
add("H1", "break", NB, FFL, "            out[k, j] = i\n            seen[k] += 1", "            out[k, j] = i\n            seen[k] += 2", name="H1 head counter advances by two")
add("H1", "break", NB, FFL, "        j = seen[k]\n        if j < n:\n            out[k, j] = i\n            seen[k] += 1", "        seen[k] += 1\n        j = seen[k]\n        if j < n:\n            out[k, j] = i", name="H1 head counter advanced before the slot is read")
add("H1", "break", NB, FFL, "        if masked and (not mask[i]):\n            continue\n", "", name="H1 head ignores the mask", also=())
add("H1", "keep", NB, FFL, "            out[k, j] = i\n            seen[k] += 1", "            out[k, j] = i\n            seen[k] = j + 1", name="H1 counter set from the slot")
add("H1", "keep", NB, FFL, "        if k < 0:\n            continue\n        if masked and (not mask[i]):\n            continue\n", "        if k < 0 or (masked and (not mask[i])):\n            continue\n", name="H1 head guards merged")
add("H1", "keep", NB, FFL, "        j = seen[k]\n        if j < n:\n            out[k, j] = i\n            seen[k] += 1", "        if seen[k] >= n:\n            continue\n        out[k, seen[k]] = i\n        seen[k] += 1", name="H1 head early continue, no slot local")

# --------------------------------------------------------------------------------------------- K7 / D9b
BAD = "GroupBy._build_arg_dict_for_function"
RMC = "GroupBy._resolve_mask_argument_into_chunks"


def _m(s: str) -> str:
    """fragment written at function-body indentation -> method-body indentation (add() dedents method fragments again)"""
    return "".join(("    " + l if l.strip() else l) for l in s.splitlines(True))


_K7_GUARD = "    if mask is not None and (not (pd.api.types.is_bool_dtype(mask) or (isinstance(mask, pl.Series) and mask.dtype == pl.Boolean))):\n        raise TypeError('mask must be a boolean array')\n"
add("K7", "break", CORE, BAD, _m(_K7_GUARD), "", name="K7 row-wise binder without a boolean test (the defect repaired in 1587edf)")
add("K7", "break", CORE, BAD, _m(_K7_GUARD), _m("    if mask is not None and isinstance(mask, slice):\n        raise TypeError('mask must be a boolean array')\n"), name="K7 only slices rejected, positions pass")
add("K7", "break", CORE, BAD, _m(_K7_GUARD), _m("    if mask is not None and (not (pd.api.types.is_bool_dtype(mask) or isinstance(mask, pl.Series))):\n        raise TypeError('mask must be a boolean array')\n"), name="K7 any polars series passes")
add("K7", "break", EMAS, "ema_grouped", "        if mask.dtype.kind != 'b':\n            raise TypeError('mask must be a boolean array')\n", "", name="K7 ema_grouped without a boolean test (the defect repaired in b4e05aa)")
add("K7", "break", EMAS, "ema_grouped", "if mask.dtype.kind != 'b':", "if mask.dtype.kind == 'O':", name="K7 ema_grouped rejects object arrays only")
add("K7", "keep", CORE, BAD, _m(_K7_GUARD), _m("    if mask is not None:\n        if not pd.api.types.is_bool_dtype(mask):\n            if not (isinstance(mask, pl.Series) and mask.dtype == pl.Boolean):\n                raise TypeError('mask must be a boolean array')\n"), name="K7 nested tests")
add("K7", "keep", CORE, BAD, _m(_K7_GUARD), _m("    mask_is_boolean = pd.api.types.is_bool_dtype(mask) or (isinstance(mask, pl.Series) and mask.dtype == pl.Boolean)\n    if mask is not None and (not mask_is_boolean):\n        raise TypeError('mask must be a boolean array')\n"), name="K7 test through a flag")
add("K7", "keep", EMAS, "ema_grouped", "if mask.dtype.kind != 'b':", "if not mask.dtype == bool:", name="K7 dtype == bool")

add("D9b", "break", CORE, RMC, "if self.key_is_chunked and mask is not None and (not mask_is_boolean):", "if False:", name="D9b positions scattered on chunked keys (the defect repaired in 2bde3fe)")
add("D9b", "break", CORE, RMC, _m("        mask_chunks = mask_chunks[first_chunk_in:]\n"), _m("        mask_chunks = mask_chunks[first_chunk_in:]\n        if mask.step is not None:\n            rows = np.full(len(self), False)\n            rows[mask] = True\n            mask = rows\n"), name="D9b stepped slice scattered into a row mask")
add("D9b", "keep", CORE, RMC, "if self.key_is_chunked and mask is not None and (not mask_is_boolean):", "if self.key_is_chunked and (not mask_is_boolean) and (mask is not None):", name="D9b conjuncts reordered")
add("D9b", "keep", CORE, RMC, _m("            if not pd.api.types.is_bool_dtype(mask):\n                bool_mask = np.full(len(self), False)\n                bool_mask[mask] = True\n                mask = bool_mask\n"),
    _m("            if not pd.api.types.is_bool_dtype(mask):\n                bool_mask = np.zeros(len(self), dtype=bool)\n                bool_mask[mask] = True\n                mask = bool_mask\n"), name="D9b np.zeros bool")

# --------------------------------------------------------------------------------------------- P25 / P26 / D9 dropped selection / F1 exhaustive
add("P25", "break", CORE, "GroupBy.groups", "key_count = self.ikey_count[self._labels_argsort]", "key_count = self.ikey_count", name="P25 groups cut with code-order counts")
add("P25", "break", CORE, "GroupBy.apply", "group_counts = self.ikey_count[self._labels_argsort]", "group_counts = self.ikey_count", name="P25 apply splits with code-order counts")
add("P25", "break", CORE, "GroupBy.ema", "group_counts = self.ikey_count[self._labels_argsort]", "group_counts = self.ikey_count", name="P25 ema repeats codes with code-order counts")
add("P25", "break", CORE, "GroupBy._group_sort_indexer", "group_counts = self.ikey_count[self._labels_argsort]", "group_counts = self.ikey_count", name="P25 counting sort sized with code-order counts")
add("P25", "break", CORE, "GroupBy._build_group_sorted_index", _m("        group_counts = group_counts[self._labels_argsort]\n"), "", name="P25 index built with code-order counts when sorting")
add("P25", "keep", CORE, "GroupBy.groups", "key_count = self.ikey_count[self._labels_argsort]\n        group_indexers = np.array_split(indexer, np.cumsum(key_count)[:-1])",
    "group_indexers = np.array_split(indexer, np.cumsum(self.ikey_count[self._labels_argsort])[:-1])", name="P25 counts inlined")
add("P25", "keep", CORE, "GroupBy.apply", "group_counts = self.ikey_count[self._labels_argsort]", "counts_by_code = self.ikey_count\n        group_counts = counts_by_code[self._labels_argsort]", name="P25 two steps")

add("P26", "break", NB, "group_mean", "mean = sum_ / count", "mean = sum_ // count", name="P26 floor division by the counts")
add("P26", "keep", NB, "group_mean", "mean = sum_ / count", "mean = np.true_divide(sum_, count)", name="P26 np.true_divide")

SC = "_apply_group_method_single_chunk"
add("D9", "break", NB, SC, "    target = _build_target_for_groupby(", "    if indexer is not None and len(indexer) == len(group_key):\n        indexer = None\n    target = _build_target_for_groupby(", name="D9 full-length selection dropped")
add("D9", "break", NB, SC, "    target = _build_target_for_groupby(", "    if check_in_bounds and len(indexer) > len(group_key):\n        indexer = None\n    target = _build_target_for_groupby(", name="D9 long positional selection dropped")

FZ1 = "factorize_1d"
add("F1", "break", FACT, FZ1, "    if not isinstance(values, pd.Series):\n        values = pd.Series(values)\n", "    if isinstance(values, pd.Index) and values.is_unique:\n        return (np.arange(len(values)), values)\n    if not isinstance(values, pd.Series):\n        values = pd.Series(values)\n", name="F1 unique-index shortcut numbers the rows, nulls included")
add("F1", "break", FACT, FZ1, "codes, uniques = pd.factorize(values, use_na_sentinel=True)", "uniques, codes = np.unique(np.asarray(values), return_inverse=True)", name="F1 np.unique route has no null sentinel")
add("F1", "keep", FACT, FZ1, "codes, uniques = pd.factorize(values, use_na_sentinel=True)", "factorized = pd.factorize(values, use_na_sentinel=True)\n        codes, uniques = factorized", name="F1 factorize result in a local")

# --------------------------------------------------------------------------------------------- A10 / A11 / A12 (facade)
VTG = "DataFrameGroupBy._values_to_group"
FBK = "DataFrameGroupBy._from_by_keys"
add("A10", "break", API, VTG, "return pd.DataFrame({col: self._obj[col] for col in self.value_columns}, copy=False)", "return pd.DataFrame({col: self._obj[col] for col in self.value_columns}, copy=False).select_dtypes(include='number')", name="A10 value columns narrowed by dtype")
add("A10", "break", API, VTG, "for col in self.value_columns}", "for col in self.value_columns if self._obj[col].notna().any()}", name="A10 all-null columns dropped")
add("A10", "break", API, VTG, "for col in self.value_columns}", "for col in self._obj.columns}", name="A10 every column of the object")
add("A10", "keep", API, VTG, "return pd.DataFrame({col: self._obj[col] for col in self.value_columns}, copy=False)", "columns = {col: self._obj[col] for col in self.value_columns}\n        return pd.DataFrame(columns, copy=False)", name="A10 dict in a local")
add("A11", "break", API, FBK, _m("                        if isinstance(obj.index, pd.MultiIndex):\n                            level_idx = obj.index.names.index(key)\n                            grouping_keys.append(obj.index.get_level_values(level_idx))\n                        else:\n                            grouping_keys.append(obj.index)\n"), _m("                        deferred_levels.append(key)\n"), name="A11 index-level names resolved after the loop",
    also=((API, FBK, _m("    grouper = GroupBy(grouping_keys)\n"), _m("    for lv in deferred_levels:\n        grouping_keys.append(obj.index.get_level_values(lv))\n    grouper = GroupBy(grouping_keys)\n")),
          (API, FBK, _m("    grouping_keys = []\n"), _m("    grouping_keys = []\n    deferred_levels = []\n"))))
add("A11", "break", API, FBK, _m("            elif callable(key):\n                grouping_keys.append(obj.index.map(key))\n"), _m("            elif callable(key):\n                grouping_keys.insert(0, obj.index.map(key))\n                grouping_keys.append(obj.index.map(key))\n"), name="A11 callable key added twice")
add("A11", "break", API, FBK, _m("    grouper = GroupBy(grouping_keys)\n"), _m("    grouping_keys.reverse()\n    grouper = GroupBy(grouping_keys)\n"), name="A11 key list reversed")
add("A11", "keep", API, FBK, _m("            elif callable(key):\n                grouping_keys.append(obj.index.map(key))\n"), _m("            elif callable(key):\n                mapped = obj.index.map(key)\n                grouping_keys.append(mapped)\n"), name="A11 mapped key in a local")
add("A12", "break", API, "BaseGroupBy.cumcount", "return self._grouper.cumcount()", "return pd.Series(self._grouper.cumcount(), index=self._obj.index)", name="A12 cumcount re-aligned by label")
add("A12", "break", API, "BaseGroupBy.cumcount", "return self._grouper.cumcount()", "counts = self._grouper.cumcount()\n        return pd.Series(counts, index=self._obj.index, name=None)", name="A12 through a local")
add("A12", "keep", API, "BaseGroupBy.cumcount", "return self._grouper.cumcount()", "return pd.Series(self._grouper.cumcount().to_numpy(), index=self._obj.index)", name="A12 relabelled by position")

# --------------------------------------------------------------------------------------------- P27 / P26b / P2c / P28
AGR = "GroupBy._apply_gb_reduction"
add("P27", "break", CORE, AGR, _m("        if common_index is not None:\n            result_index = common_index\n"), _m("        if common_index is not None and (not isinstance(common_index, pd.RangeIndex)):\n            result_index = common_index\n"), name="P27 RangeIndex inputs relabelled from 0")
add("P27", "break", CORE, AGR, _m("        if common_index is not None:\n            result_index = common_index\n        else:\n            result_index = pd.RangeIndex(len(self))\n"), _m("        result_index = pd.RangeIndex(len(self))\n"), name="P27 transform always relabelled")
add("P27", "keep", CORE, AGR, _m("        if common_index is not None:\n            result_index = common_index\n        else:\n            result_index = pd.RangeIndex(len(self))\n"), _m("        if common_index is None:\n            result_index = pd.RangeIndex(len(self))\n        else:\n            result_index = common_index\n"), name="P27 test inverted")
add("P26b", "break", CORE, AGR, "mean_from_sum_count(pd.Series(sums), pd.Series(np.append(n, np.zeros(len(sums) - len(n), dtype=n.dtype)))).to_numpy()", "mean_from_sum_count(sums, np.append(n, np.zeros(len(sums) - len(n), dtype=n.dtype)))", name="P26b bare arrays into mean_from_sum_count")
add("P26b", "keep", CORE, AGR, "mean_from_sum_count(pd.Series(sums), pd.Series(np.append(n, np.zeros(len(sums) - len(n), dtype=n.dtype)))).to_numpy()", "mean_from_sum_count(pd.Series(sums), pd.Series(np.concatenate([n, np.zeros(len(sums) - len(n), dtype=n.dtype)]))).to_numpy()", name="P26b concatenate instead of append")
add("P2c", "break", CORE, AGR, "pd.Series(np.append(n, np.zeros(len(sums) - len(n), dtype=n.dtype)))).to_numpy() for sums, n in zip(result_columns, counts)]", "pd.Series(np.append(counts[0], np.zeros(len(sums) - len(counts[0]), dtype=counts[0].dtype)))).to_numpy() for sums in result_columns]", name="P2c first column's counts for every column")
add("P28", "break", CORE, "GroupBy._apply_rolling_or_cumulative_func", "result_dict[key] = self._convert_arr_to_pandas_series(result, dtype, common_index)", "series = self._convert_arr_to_pandas_series(result, dtype, common_index)\n                result_dict[key] = series.mask(np.asarray(self.group_ikey) < 0)", name="P28 null-key rows masked (int -> float)")
add("P28", "break", CORE, "GroupBy._apply_rolling_or_cumulative_func", "result_dict[key] = self._convert_arr_to_pandas_series(result, dtype, common_index)", "result_dict[key] = self._convert_arr_to_pandas_series(result, dtype, common_index).where(np.asarray(self.group_ikey) >= 0)", name="P28 where on the conversion result")
add("P28", "keep", CORE, "GroupBy._apply_rolling_or_cumulative_func", "result_dict[key] = self._convert_arr_to_pandas_series(result, dtype, common_index)", "series = self._convert_arr_to_pandas_series(result, dtype, common_index)\n                result_dict[key] = series", name="P28 through a local")

# --------------------------------------------------------------------------------------------- P5 / P6 at apply(transform=True) (repaired)
add("P5", "break", CORE, "GroupBy.apply", "arrays = [broadcast_to_rows(arr) for arr in arrays]", "arrays = [arr[self.group_ikey] for arr in arrays]", name="P5 apply: label-sorted results indexed by row codes (the defect repaired in /repo)", expect_func="*")
add("P6", "break", CORE, "GroupBy.apply", "by_code = np.full(self.ngroups + 1, null, dtype=arr.dtype)", "by_code = np.full(self.ngroups, null, dtype=arr.dtype)", name="P6 apply: per-code table without the null slot", expect_func="*")
add("P5", "break", CORE, "GroupBy.apply", "observed_codes = np.arange(self.ngroups)[self._labels_argsort][observed]", "observed_codes = np.arange(self.ngroups)[observed]", name="P5 apply: results scattered without the label permutation", expect_func="*")
add("P6", "keep", CORE, "GroupBy.apply", "by_code = np.full(self.ngroups + 1, null, dtype=arr.dtype)", "by_code = np.full(1 + self.ngroups, null, dtype=arr.dtype)", name="P6 apply: 1 + ngroups")

# --------------------------------------------------------------------------------------------- round-3 rules
add("S6", "break", CORE, "GroupBy.head", "ilocs = numba_funcs._find_first_or_last_n(group_key=self.group_ikey, ngroups=self.ngroups, n=n, forward=True)",
    "if not hasattr(self, '_row_cache'):\n            self._row_cache = {}\n        if n not in self._row_cache:\n            self._row_cache[n] = numba_funcs._find_first_or_last_n(group_key=self.group_ikey, ngroups=self.ngroups, n=n, forward=True)\n        ilocs = self._row_cache[n]", name="S6 head memoised on the grouping")
add("S6", "keep", CORE, "GroupBy.head", "ilocs = numba_funcs._find_first_or_last_n(group_key=self.group_ikey, ngroups=self.ngroups, n=n, forward=True)",
    "found = {}\n        found[n] = numba_funcs._find_first_or_last_n(group_key=self.group_ikey, ngroups=self.ngroups, n=n, forward=True)\n        ilocs = found[n]", name="S6 local dict")
add("S7", "break", CORE, "GroupBy.__init__", "self._group_ikey, self._result_index = factorize_1d(group_key)", "self._group_ikey, self._result_index = factorize_1d(group_key, sort=self._sort)\n                self._index_is_sorted = self._sort", name="S7 flag set from the request to sort")
add("S7", "break", CORE, "GroupBy._factorize_group_key_in_chunks", "self._result_index = self._result_index.sort_values()", "self._result_index = self._result_index[:1].append(self._result_index[1:].sort_values())", name="S7 only part of the labels sorted before the flag is set")
add("S8", "break", CORE, "GroupBy._resolve_mask_argument_into_chunks", "elif self.key_is_chunked:", "elif len(mask_chunks) > 1:", name="S8 chunkedness from the cached lengths")
add("W5", "break", NB, "_rolling_sum_or_mean_1d", "is_null(old_val)", "np.isnan(old_val)", name="W5 evicted value tested with np.isnan")
add("Q1", "break", UTIL, "is_categorical", "a.dtype == pl.Categorical", "a.dtype is pl.Categorical", name="Q1 identity comparison of a polars dtype")
add("Q2", "break", API, "BaseGroupByRolling.__init__", "min_periods if min_periods is not None else window", "min_periods or window", name="Q2 min_periods=0 replaced by the window")

add("A13", "break", API, "BaseGroupBy.cumsum", "self._grouper.cumsum(self._values_to_group)", "self._grouper.cumsum(self._values_to_group, skip_na=False)", name="A13 facade fixes skip_na=False")
add("A13", "break", API, "BaseGroupBy.__iter__", "self._obj.iloc[", "self._values_to_group.iloc[", name="A13 iteration over the value columns")
add("O3", "break", CORE, "GroupBy.median", "func=np.median", "func=lambda a: np.median(a, overwrite_input=True)", name="O3 median may scramble its input")
add("K4c", "break", FACT, "factorize_2d", "nb.typed.Dict.empty(nb.types.int64, nb.types.int64)", "nb.typed.Dict.empty(nb.types.int32, nb.types.int32)", name="K4c 32-bit typed dictionary")
add("D9c", "break", CORE, "GroupBy._resolve_mask_argument_into_chunks", "self._unify_group_key_chunks(keep_chunked=False)\n                group_key = self.group_ikey\n                mask_chunks = [mask]",
    "chunk_of = np.searchsorted(self._chunk_offsets, mask, side='right')\n                mask_chunks = [mask[chunk_of == i] for i in range(len(self._group_key_lengths))]", name="D9c positions dealt to the key chunks")
add("D6b", "break", CORE, "GroupBy._apply_gb_func_across_chunked_group_keys", "combined = numba_funcs._build_target_for_groupby(results_one_value[0].dtype, 'sum' if func_name in ('size', 'count') else func_name, len(self._result_index) + 1)", "combined = np.zeros(len(self._result_index) + 1, dtype=results_one_value[0].dtype)", name="D6b merge target starts at zero")
add("D9", "break", NB, "_group_func_wrap", "chunked_args = _chunk_groupby_args(**kwargs, n_chunks=n_threads)", "if fancy_indexing:\n            kwargs['mask'] = np.sort(mask)\n        chunked_args = _chunk_groupby_args(**kwargs, n_chunks=n_threads)", name="D9 positions sorted before they are dealt to the threads")

add("P1", "break", NB, "_group_func_wrap", "    if orig_type.kind in 'mM' and (not counting):\n        result = result.astype(orig_type)\n", "", name="P1 reductions of temporal values never restored")
add("P1", "keep", NB, "_group_func_wrap", "    if orig_type.kind in 'mM' and (not counting):\n        result = result.astype(orig_type)\n", "    if not counting:\n        if orig_type.kind in 'mM':\n            result = result.astype(orig_type)\n", name="P1 counting test outside")
add("P1", "break", NB, "_group_func_wrap", "    if orig_type.kind in 'mM' and (not counting):\n        result = result.astype(orig_type)\n", "    if orig_type.kind in 'mM':\n        result = result.astype(orig_type)\n", name="P1 counts cast to the temporal dtype (the defect repaired in /repo)")

# ---- round 4 rules: E8, MG1 (container kind), PC1 (null guard), A14, T5, V1
_E8_OLD = "group_key = np.repeat(np.arange(self.ngroups), group_counts)"
add("E8", "break", CORE, "GroupBy.ema", _E8_OLD, "group_key = result_index.codes[0]", name="E8 codes of the outer index level")
add("E8", "break", CORE, "GroupBy.ema", _E8_OLD, "group_key = pd.factorize(result_index.get_level_values(0))[0]", name="E8 factorised first level")
add("E8", "keep", CORE, "GroupBy.ema", _E8_OLD, "group_key = np.arange(self.ngroups).repeat(group_counts)", name="E8 method form of repeat")
add("E8", "keep", CORE, "GroupBy.ema", _E8_OLD, "group_key = self.group_ikey[indexer]", name="E8 the grouping's own codes re-ordered")
_AM_OLD = "    if np.ndim(margins) == 1:\n        levels = list(margins)\n    else:\n        levels = None\n"
add("MG1", "break", CORE, "GroupBy._add_margins", _m(_AM_OLD), _m("    if isinstance(margins, list):\n        levels = list(margins)\n    else:\n        levels = None\n"), name="MG1 only a list counts as levels")
add("MG1", "break", CORE, "GroupBy._add_margins", _m(_AM_OLD), _m("    if type(margins) is list:\n        levels = list(margins)\n    else:\n        levels = None\n"), name="MG1 type(margins) is list")
add("MG1", "keep", CORE, "GroupBy._add_margins", _m(_AM_OLD), _m("    if isinstance(margins, (list, tuple, np.ndarray)):\n        levels = list(margins)\n    else:\n        levels = None\n"), name="MG1 all sequence containers")
add("MG1", "keep", CORE, "GroupBy._add_margins", _m(_AM_OLD), _m("    if np.ndim(margins) != 1:\n        levels = None\n    else:\n        levels = list(margins)\n"), name="MG1 arms swapped")
_PC_OLD = "is_integer = np_type.kind in 'ui' and bins.dtype.kind in 'ui'"
add("PC1", "break", UTIL, "pretty_cut", _PC_OLD, "is_integer = bins.dtype.kind in 'ui' and (np_type.kind in 'ui' or precision == 0)", name="PC1 integer labels for float data: nulls unmasked")
add("PC1", "break", UTIL, "pretty_cut", _PC_OLD, "is_integer = bins.dtype.kind in 'ui'", name="PC1 integer flag from the bins alone")
add("PC1", "keep", UTIL, "pretty_cut", _PC_OLD, "is_integer = bins.dtype.kind in 'ui' and np_type.kind in 'ui'", name="PC1 conjuncts swapped")
add("A14", "break", CORE, "GroupBy._preprocess_arguments", "to_check = list(value_list)", "to_check = value_list", name="A14 alias instead of snapshot")
add("A14", "break", CORE, "GroupBy._preprocess_arguments", "common_index = _validate_input_lengths_and_indexes(to_check)", "common_index = _validate_input_lengths_and_indexes(value_list if not mask_is_boolean else [*value_list, mask])", name="A14 converted list validated")
add("A14", "keep", CORE, "GroupBy._preprocess_arguments", "to_check = list(value_list)", "to_check = [*value_list]", name="A14 snapshot by unpacking")
add("A14", "keep", CORE, "GroupBy._preprocess_arguments", "to_check = list(value_list)", "to_check = value_list.copy()", name="A14 snapshot by copy()")
add("T5", "break", NB, "_apply_cumulative", "orig_dtype = orig_dtypes[0]", "orig_dtype = orig_dtypes[0]\n    if orig_dtype.kind in 'mM' and (not skip_na):\n        values = tuple((np.where(v == MIN_INT, np.nan, v) for v in values))", name="T5 NaT -> NaN in the int views")
add("T5", "break", NB, "_apply_cumulative", "orig_dtype = orig_dtypes[0]", "orig_dtype = orig_dtypes[0]\n    values = [v.astype('float64') for v in values]", name="T5 int views cast to float64")
add("T5", "break", NB, "_group_func_wrap", "    if reduce_func_name == 'sum_squares':\n        values = [v.astype(float) for v in values]\n", "    values = [v.astype(float) for v in values]\n", name="T5 every reduction on floats")
add("T5", "keep", NB, "_group_func_wrap", "    if reduce_func_name == 'sum_squares':\n        values = [v.astype(float) for v in values]\n", "    if reduce_func_name in ('sum_squares',):\n        values = [np.asarray(v).astype(float) for v in values]\n", name="T5 float conversion for the sum of squares only")
add("V1", "break", CORE, "value_counts", "vc = vc / vc.sum()", "vc = vc / len(x)", name="V1 divided by the number of rows")
add("V1", "break", CORE, "value_counts", "vc = vc / vc.sum()", "vc = vc / (len(x) if mask is None else vc.sum())", name="V1 row count without a mask")
add("V1", "keep", CORE, "value_counts", "vc = vc / vc.sum()", "total = vc.sum()\n        vc = vc / total", name="V1 total through a local")
add("V1", "keep", CORE, "value_counts", "vc = vc / vc.sum()", "vc /= vc.sum()", name="V1 in-place division")
_M1_CALL = "        combined = reduce_array_pair(combined, chunk, getattr(ScalarFuncs, reduce_func_name), counts=combined_count if counts_tracked else None, y_counts=count if counts_tracked else None)\n"
add("M1", "break", NB, "combine_chunk_results_for_factorized_key", _M1_CALL, "        if reduce_func_name in ('nanmin', 'nanmax'):\n            combined = (np.fmin if reduce_func_name == 'nanmin' else np.fmax)(combined, chunk)\n        else:\n    " + _M1_CALL, name="M1 extremes merged by a ufunc around the count-aware merge")
add("M1", "keep", NB, "combine_chunk_results_for_factorized_key", _M1_CALL, "        merged = reduce_array_pair(combined, chunk, getattr(ScalarFuncs, reduce_func_name), counts=combined_count if counts_tracked else None, y_counts=count if counts_tracked else None)\n        combined = merged\n", name="M1 merge result through a local")
_E9_OLD = "    if times.dtype.kind in 'mM':\n        times = times.astype(f'{times.dtype.kind}8[ns]')\n"
add("E9", "break", EMAS, "_times_to_int_array", _E9_OLD, "", name="E9 clock in the array's own unit (the defect repaired in round 4)")
add("E9", "break", EMAS, "_times_to_int_array", _E9_OLD, "    if times.dtype.kind in 'mM':\n        times = times.astype(f'{times.dtype.kind}8[us]')\n", name="E9 clock in microseconds")
add("E9", "keep", EMAS, "_times_to_int_array", _E9_OLD, "    if times.dtype.kind == 'M':\n        times = times.astype('datetime64[ns]')\n    elif times.dtype.kind == 'm':\n        times = times.astype('timedelta64[ns]')\n", name="E9 explicit dtypes")
_D10_OLD = "        else:\n            values = NumbaList(values)\n"
add("D10", "break", NB, "_group_func_wrap", _D10_OLD, "", name="D10 chunked values left as a tuple (the defect repaired in round 4)")
add("D10", "break", NB, "_group_func_wrap", _D10_OLD, "        else:\n            values = list(values)\n", name="D10 chunked values as a plain list")
add("D10", "keep", NB, "_group_func_wrap", _D10_OLD, "        else:\n            values = NumbaList(list(values))\n", name="D10 typed list built from a list")
add("D10", "keep", NB, "_chunk_groupby_args", "if isinstance(values, NumbaList):", "if isinstance(values, (NumbaList, list, tuple)):", name="D10 dispatcher accepts the other containers too", also=[(NB, "_group_func_wrap", _D10_OLD, "")])
add("U3", "keep", NB, "ScalarFuncs.sum", _m("    if count:\n"), _m("    if is_null(next_val) or (count and is_null(cur_sum)):\n        return (next_val if is_null(next_val) else cur_sum, count + 1)\n    if count:\n"), name="U3 repaired reducer: nulls handed on (silent, the known finding disappears)")
