"""Result records shared by all rules."""
from __future__ import annotations

from dataclasses import dataclass, field, asdict
from typing import Any, Dict, List, Optional


@dataclass
class Instance:
    """One rule instance that was examined (an obligation)."""
    rule: str
    file: str
    line: int
    function: str
    construct: str
    verdict: str = "ok"          # ok | violation | exempt | info
    reason: str = ""
    nontrivial: bool = True      # the rule had something to decide here

    def key(self):
        return (self.rule, self.file, self.function, self.construct)

    def to_json(self) -> Dict[str, Any]:
        return asdict(self)


@dataclass
class Violation:
    rule: str
    file: str
    line: int
    function: str
    construct: str               # normalised text of the offending construct (the finding key)
    message: str
    path: str = ""               # branch decisions / call path leading to it, when relevant

    def key(self):
        return (self.rule, self.file, self.function, self.construct)

    def text(self) -> str:
        s = f"{self.file}:{self.line} {self.function}: {self.rule} — {self.construct} — {self.message}"
        if self.path:
            s += f" [path: {self.path}]"
        return s

    def to_json(self) -> Dict[str, Any]:
        return asdict(self)


@dataclass
class RuleResult:
    rule: str
    title: str = ""
    instances: List[Instance] = field(default_factory=list)
    violations: List[Violation] = field(default_factory=list)
    notes: List[str] = field(default_factory=list)
    floor: Optional[int] = None  # confirmed-instance floor (ANALYSIS-ERROR below it)
    analysed: Dict[str, Any] = field(default_factory=dict)

    def ok(self, func, node, construct: str, reason: str = "", nontrivial: bool = True, line=None):
        self.instances.append(Instance(
            self.rule, func.file, line or getattr(node, "lineno", func.lineno), func.qualname,
            construct, "ok", reason, nontrivial))

    def exempt(self, func, node, construct: str, reason: str):
        self.instances.append(Instance(
            self.rule, func.file, getattr(node, "lineno", func.lineno), func.qualname,
            construct, "exempt", reason, True))

    def bad(self, func, node, construct: str, message: str, path: str = "", line=None):
        ln = line or getattr(node, "lineno", func.lineno)
        self.instances.append(Instance(
            self.rule, func.file, ln, func.qualname, construct, "violation", message, True))
        self.violations.append(Violation(
            self.rule, func.file, ln, func.qualname, construct, message, path))

    def bad_at(self, file: str, line: int, function: str, construct: str, message: str, path: str = ""):
        self.instances.append(Instance(self.rule, file, line, function, construct, "violation", message, True))
        self.violations.append(Violation(self.rule, file, line, function, construct, message, path))

    def ok_at(self, file: str, line: int, function: str, construct: str, reason: str = "", nontrivial=True):
        self.instances.append(Instance(self.rule, file, line, function, construct, "ok", reason, nontrivial))

    @property
    def n_obligations(self) -> int:
        return len([i for i in self.instances if i.verdict in ("ok", "violation", "exempt")])

    @property
    def n_discharged(self) -> int:
        return len([i for i in self.instances if i.verdict in ("ok", "exempt")])
