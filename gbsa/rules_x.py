"""Rules added after the second round of seeded changes (each one encodes a necessary structural condition that an
independent seeded change broke without any earlier rule noticing):

M6   slice start normalised (None / negative) before the first chunk inside a slice mask is located
K4b  identifier / counter arrays never take their width from an input's dtype; counter tables handed to kernels are wide
P12  datetime results are handed to polars as integers only when no null sentinel is present
P7b  chunk-wise label union preserves first-appearance order on the unsorted path
"""
from __future__ import annotations

import ast
from typing import Dict, List, Optional, Set, Tuple

from .kernels import base_name, const_int
from .model import AnalysisError, Func, Repo, attr_chain, call_name, norm, walk_no_nested
from .paths import SymEnv, enumerate_paths
from .report import RuleResult
from .rules_k import _INT_WIDTH, _alloc_dtype, _dtype_name

CORE = "groupby.core"
NB = "groupby.numba"
FACT = "groupby.factorization"


# ------------------------------------------------------------------------------------------------ M6

def _is_len_self(e: ast.AST) -> bool:
    t = norm(e)
    return t in ("len(self)", "self.__len__()", "sum(self._group_key_lengths)")


def rule_M6(repo: Repo) -> RuleResult:
    """GroupBy._find_first_chunk_in_slice: the start of a slice mask is normalised before it is compared with the chunk
    boundaries - None means 0 and a negative start counts from the end (len(self) + start) - and a start that falls
    exactly on a boundary belongs to the next chunk."""
    res = RuleResult("M6", "slice masks on chunked keys: start normalised (None, negative) before the first chunk is located")
    f = repo.func(CORE, "GroupBy._find_first_chunk_in_slice")
    params = [p for p in f.named_params if p != "self"]
    if not params:
        raise AnalysisError("M6: _find_first_chunk_in_slice no longer takes the slice")
    m = params[0]
    nodes = list(walk_no_nested(f.node))
    start_reads = [n for n in nodes if isinstance(n, ast.Attribute) and n.attr == "start" and isinstance(n.value, ast.Name)
                   and n.value.id == m]
    uses_indices = any(isinstance(n, ast.Call) and isinstance(n.func, ast.Attribute) and n.func.attr == "indices"
                       and isinstance(n.func.value, ast.Name) and n.func.value.id == m and n.args and _is_len_self(n.args[0])
                       for n in nodes)
    if uses_indices:
        res.ok(f, f.node, f"{m}.indices(len(self))", "slice.indices normalises None and negative bounds")
    else:
        if not start_reads:
            raise AnalysisError("M6: _find_first_chunk_in_slice no longer reads the slice start")
        # aliases of the raw start
        alias: Set[str] = set()
        for n in nodes:
            if isinstance(n, ast.Assign) and len(n.targets) == 1 and isinstance(n.targets[0], ast.Name) \
                    and isinstance(n.value, ast.Attribute) and n.value in start_reads:
                alias.add(n.targets[0].id)

        def is_raw(e: ast.AST) -> bool:
            return (e in start_reads) or (isinstance(e, ast.Name) and e.id in alias) or (
                isinstance(e, ast.Attribute) and e.attr == "start" and isinstance(e.value, ast.Name) and e.value.id == m)

        # None handling: `start is None` test, or the `start or 0` idiom
        none_ok = False
        for n in nodes:
            if isinstance(n, ast.Compare) and len(n.ops) == 1 and isinstance(n.ops[0], (ast.Is, ast.IsNot)) and is_raw(n.left) \
                    and isinstance(n.comparators[0], ast.Constant) and n.comparators[0].value is None:
                none_ok = True
            if isinstance(n, ast.BoolOp) and isinstance(n.op, ast.Or) and is_raw(n.values[0]) and const_int(n.values[-1]) == 0:
                none_ok = True
        # negative handling: a test `start < 0` (or <= -1) guarding an expression len(self) + start
        neg_ok = False
        for n in nodes:
            test = body = None
            if isinstance(n, ast.If):
                test, body = n.test, n.body
            elif isinstance(n, ast.IfExp):
                test, body = n.test, [n.body]
            if test is None:
                continue
            tests = [test] + ([v for v in test.values] if isinstance(test, ast.BoolOp) else [])
            negative_test = any(isinstance(t, ast.Compare) and len(t.ops) == 1 and (
                (isinstance(t.ops[0], ast.Lt) and const_int(t.comparators[0]) == 0) or
                (isinstance(t.ops[0], ast.LtE) and const_int(t.comparators[0]) == -1)) and (
                is_raw(t.left) or isinstance(t.left, ast.Name)) for t in tests)
            if not negative_test:
                continue
            for b in body:
                for x in ast.walk(b):
                    if isinstance(x, ast.BinOp) and isinstance(x.op, ast.Add):
                        sides = [x.left, x.right]
                        if any(_is_len_self(s_) for s_ in sides) and any(is_raw(s_) or isinstance(s_, ast.Name) for s_ in sides):
                            neg_ok = True
                    if isinstance(x, ast.AugAssign) and isinstance(x.op, ast.Add) and _is_len_self(x.value):
                        neg_ok = True
        if none_ok:
            res.ok(f, start_reads[0], f"{m}.start: None handled", "an open start means row 0")
        else:
            res.bad(f, start_reads[0], f"{m}.start: None not handled",
                    "an open slice start (None) is compared with the chunk boundaries without being replaced by 0")
        if neg_ok:
            res.ok(f, start_reads[0], f"{m}.start: negative start normalised", "len(self) + start")
        else:
            res.bad(f, start_reads[0], f"{m}.start: negative start not normalised",
                    "a negative slice start (\"the last N rows\") is compared with the chunk boundaries as it stands, so the first "
                    "chunk inside the mask is always chunk 0: the partial results of the sliced chunks are mapped through "
                    "another chunk's pointer table and credited to the wrong labels")
    # boundary: cumulative length strictly greater than the start / searchsorted(side='right')
    decided = False
    for n in nodes:
        if isinstance(n, ast.If) and any(isinstance(b, ast.Break) for b in n.body) and isinstance(n.test, ast.Compare) \
                and len(n.test.ops) == 1:
            decided = True
            op = n.test.ops[0]
            left_is_cum = "start" not in norm(n.test.left)
            strict = (isinstance(op, ast.Gt) and left_is_cum) or (isinstance(op, ast.Lt) and not left_is_cum)
            if strict:
                res.ok(f, n, norm(n.test), "a start on a chunk boundary belongs to the next chunk")
            else:
                res.bad(f, n, norm(n.test), "the chunk search stops at a chunk that ends exactly at the start (off by one chunk)")
        if isinstance(n, ast.Call) and (call_name(n) or "").endswith("searchsorted"):
            decided = True
            side = next((k.value for k in n.keywords if k.arg == "side"), n.args[2] if len(n.args) > 2 else None)
            if isinstance(side, ast.Constant) and side.value == "right":
                res.ok(f, n, norm(n), "side='right': a start on a chunk boundary belongs to the next chunk")
            else:
                res.bad(f, n, norm(n), "searchsorted without side='right' puts a start on a chunk boundary into the previous chunk")
    if not decided:
        res.ok(f, f.node, "chunk search idiom not classified", "only the normalisation of the start is decided", nontrivial=False)
    return res


# ------------------------------------------------------------------------------------------------ K4b

def _incremented_locals(f: Func) -> Set[str]:
    out = set()
    for n in walk_no_nested(f.node):
        if isinstance(n, ast.AugAssign) and isinstance(n.target, ast.Name) and isinstance(n.op, ast.Add):
            out.add(n.target.id)
    return out


def _flat_targets(st: ast.Assign) -> List[ast.AST]:
    out = []
    for t in st.targets:
        out.extend(t.elts if isinstance(t, (ast.Tuple, ast.List)) else [t])
    return out


def rule_K4b(repo: Repo) -> RuleResult:
    """In kernels, an array that stores a running identifier / counter (it is assigned from a local that is incremented, or is
    itself incremented) has an explicit integer dtype of at least 32 bits - never a dtype taken from an input array (whose
    width the caller decides: int8 codes of a categorical / boolean key wrap at 128).  Counter tables that a kernel
    receives as a parameter are allocated by the caller with an explicit dtype of at least 32 bits."""
    res = RuleResult("K4b", "identifier / counter arrays do not take their width from an input; counter tables handed to kernels are wide")
    n = 0
    for f in repo.kernels():
        inc = _incremented_locals(f)
        allocs: Dict[str, ast.Assign] = {}
        for s in walk_no_nested(f.node):
            if isinstance(s, ast.Assign) and len(s.targets) == 1 and isinstance(s.targets[0], ast.Name) \
                    and isinstance(s.value, ast.Call):
                fn = (call_name(s.value) or "").split(".")[-1]
                if fn in ("zeros", "full", "empty", "ones", "zeros_like", "empty_like", "full_like", "ones_like"):
                    allocs.setdefault(s.targets[0].id, s)
        stores: Dict[str, List[ast.stmt]] = {}
        for s in walk_no_nested(f.node):
            if isinstance(s, ast.Assign):
                for t in _flat_targets(s):
                    if isinstance(t, ast.Subscript) and base_name(t) is not None:
                        if isinstance(s.value, ast.Name) and s.value.id in inc:
                            stores.setdefault(base_name(t), []).append(s)
            elif isinstance(s, ast.AugAssign) and isinstance(s.target, ast.Subscript) and isinstance(s.op, ast.Add) \
                    and const_int(s.value) == 1 and base_name(s.target) is not None:
                stores.setdefault(base_name(s.target), []).append(s)
        for arr, sts in stores.items():
            if arr in allocs:
                a = allocs[arr]
                call = a.value
                fn = (call_name(call) or "").split(".")[-1]
                dt_node = _alloc_dtype(call)
                dt = _dtype_name(dt_node)
                construct = f"{arr} = {norm(call)}"
                n += 1
                if dt is not None and dt.startswith(("float", "complex", "bool")):
                    res.ok(f, a, construct, f"explicit {dt}: not an integer identifier array", nontrivial=False)
                elif dt is not None and dt in _INT_WIDTH:
                    if _INT_WIDTH[dt] >= 32:
                        res.ok(f, a, construct, f"explicit {dt}")
                    else:
                        res.bad(f, a, construct, f"{dt} array stores a running identifier/count ({norm(sts[0])})")
                elif dt_node is None and not fn.endswith("_like"):
                    fill = call.args[1] if fn == "full" and len(call.args) > 1 else None
                    if fn == "full" and fill is not None and const_int(fill) is not None:
                        res.ok(f, a, construct, "integer fill without dtype: platform integer (64 bit)")
                    elif fn in ("zeros", "empty", "ones"):
                        res.ok(f, a, construct, "float64 by default (not an integer identifier array)", nontrivial=False)
                    else:
                        res.ok(f, a, construct, "dtype follows the fill value", nontrivial=False)
                else:
                    src = norm(dt_node) if dt_node is not None else norm(call.args[0]) if call.args else "?"
                    res.bad(f, a, construct,
                            f"the array stores a running identifier/count ({norm(sts[0])}) but takes its dtype from {src}: its width "
                            f"is whatever the caller's input happens to be (int8 codes of categorical / boolean keys wrap at 128 "
                            f"and are then read as null or collide with earlier groups)")
            elif arr in f.named_params:
                # counter table received as a parameter: check the allocations at the call sites
                for g in repo.all_functions():
                    if g.is_njit or g is f:
                        continue
                    for c in walk_no_nested(g.node):
                        if not (isinstance(c, ast.Call) and (call_name(c) or "").split(".")[-1] == f.name):
                            continue
                        actual = next((k.value for k in c.keywords if k.arg == arr), None)
                        if actual is None:
                            idx = f.named_params.index(arr)
                            if idx < len(c.args):
                                actual = c.args[idx]
                        if not isinstance(actual, ast.Name):
                            continue
                        for d in walk_no_nested(g.node):
                            if isinstance(d, ast.Assign) and len(d.targets) == 1 and isinstance(d.targets[0], ast.Name) \
                                    and d.targets[0].id == actual.id and isinstance(d.value, ast.Call):
                                cn_full = call_name(d.value) or ""
                                fn = cn_full.split(".")[-1]
                                if fn not in ("zeros", "full", "empty", "ones") or cn_full.split(".")[0] not in ("np", "numpy"):
                                    continue
                                dt = _dtype_name(_alloc_dtype(d.value))
                                construct = f"{g.qualname}: {actual.id} = {norm(d.value)} -> {f.name}({arr})"
                                n += 1
                                if dt in _INT_WIDTH and _INT_WIDTH[dt] < 32:
                                    res.bad(g, d, construct,
                                            f"{dt} table receives running group identifiers in {f.qualname} ({norm(sts[0])}): more than "
                                            f"{2 ** (_INT_WIDTH[dt] - 1) - 1} groups wrap around")
                                elif dt in _INT_WIDTH:
                                    res.ok(g, d, construct, f"{dt}" + (": accepted under the stated assumption < 2^31 labels"
                                                                       if _INT_WIDTH[dt] == 32 else ""))
                                elif dt is None and fn == "full" and len(d.value.args) > 1 and const_int(d.value.args[1]) is not None:
                                    res.ok(g, d, construct, "platform integer (64 bit)")
                                else:
                                    res.bad(g, d, construct, f"the table that receives running group identifiers has dtype {dt!r}")
    res.analysed = {"identifier_arrays": n}
    if n < 6:
        raise AnalysisError(f"K4b: only {n} identifier/counter arrays found (floor 6)")
    return res


# ------------------------------------------------------------------------------------------------ P12

def rule_P12(repo: Repo) -> RuleResult:
    """GroupBy._convert_arr_to_polars_series: a datetime result may be handed to polars as its int64 view (with the target
    dtype) only on a path that established that the null sentinel (int64 min = NaT) does not occur; otherwise polars turns
    NaT into a valid timestamp."""
    res = RuleResult("P12", "datetime results reach polars as integers only when no null sentinel is present")
    f = repo.func(CORE, "GroupBy._convert_arr_to_polars_series")
    n = 0
    for p in enumerate_paths(f.node.body):
        if p.exit != "return" or p.exit_node is None or p.exit_node.value is None:
            continue
        temporal = any(pol is True and isinstance(t, ast.AST) and "kind" in norm(t) and ("'M'" in norm(t) or '"M"' in norm(t))
                       for t, pol in p.conds)
        if not temporal:
            continue
        env = SymEnv(f.named_params)
        for st in p.stmts:
            env.assign(st)
        rv = p.exit_node.value
        if not (isinstance(rv, ast.Call) and norm(rv.func) in ("pl.Series", "polars.Series") and rv.args):
            continue
        n += 1
        data = env.sym(rv.args[-1] if len(rv.args) == 1 else rv.args[0] if not isinstance(rv.args[0], ast.Constant) else rv.args[1])
        as_int = ".view(int)" in data or ".view('int64')" in data or ".astype(int)" in data or ".astype('int64')" in data \
            or ".view(np.int64)" in data
        construct = f"pl.Series({data[:60]}) on path {p.describe()[:80]}"
        if not as_int:
            res.ok(f, p.exit_node, construct, "the datetime array itself is passed (polars respects NaT)")
            continue
        no_null = False
        for t, pol in p.conds:
            if not isinstance(t, ast.AST):
                continue
            txt = env.sym(t) if False else norm(t)
            if isinstance(t, ast.Compare) and len(t.ops) == 1 and ".min()" in txt and ("iinfo" in txt or "MIN_INT" in txt):
                if (isinstance(t.ops[0], ast.Eq) and pol is False) or (isinstance(t.ops[0], ast.NotEq) and pol is True) \
                        or (isinstance(t.ops[0], ast.Gt) and pol is True):
                    no_null = True
        if no_null:
            res.ok(f, p.exit_node, construct, "integer view only where the minimum is not the null sentinel")
        else:
            res.bad(f, p.exit_node, construct,
                    "the int64 view of a datetime result is handed to polars without having established that the null sentinel "
                    "(int64 min = NaT) is absent: NaT of null-key rows / empty groups becomes a valid timestamp",
                    path=p.describe())
    if n < 1:
        raise AnalysisError("P12: no temporal path to pl.Series found in _convert_arr_to_polars_series")
    return res


# ------------------------------------------------------------------------------------------------ P7b / P7c

ORDER_DESTROYING = {"union", "union1d", "np.unique", "numpy.unique", "sort_values", "sorted", "np.sort", "numpy.sort", "set",
                    "frozenset", "intersection", "difference", "symmetric_difference", "np.intersect1d", "np.setdiff1d"}


def rule_P7b(repo: Repo) -> RuleResult:
    """_factorize_group_key_in_chunks: (a) the labels collected from the chunks keep first-appearance order unless sorting
    was requested - no order-destroying operation outside the `if self._sort` arm; (b) every per-chunk pointer table is the
    result of get_indexer against the final label index (no table assumed to be the identity)."""
    res = RuleResult("P7b", "chunk-wise factorization: label union keeps first-appearance order; every pointer table is looked up")
    f = repo.func(CORE, "GroupBy._factorize_group_key_in_chunks")
    n = 0
    # (a)
    for s in walk_no_nested(f.node):
        if isinstance(s, ast.Assign) and any(attr_chain(t) == ("self", "_result_index") for t in s.targets):
            tests = _enclosing_if_tests(f, s)
            under_sort = any("_sort" in norm(t) for t in tests)
            bad = []
            for c in ast.walk(s.value):
                if isinstance(c, ast.Call):
                    cn = call_name(c) or norm(c.func)
                    short = cn.split(".")[-1]
                    if cn in ORDER_DESTROYING or short in ORDER_DESTROYING:
                        bad.append(cn)
                elif isinstance(c, ast.Attribute) and c.attr in ("union",) and not isinstance(getattr(c, "ctx", None), ast.Store):
                    bad.append(norm(c))      # pd.Index.union passed to reduce(...)
            n += 1
            construct = norm(s)[:100]
            if bad and not under_sort:
                res.bad(f, s, construct,
                        f"the label index is built with {sorted(set(bad))[0]}, which sorts / re-orders the labels, outside the "
                        f"`if self._sort` arm: with sort=False the groups are no longer reported in first-appearance order and "
                        f"chunk-wise factorization disagrees with whole-array factorization")
            else:
                res.ok(f, s, construct, "order-preserving" if not bad else "sorting arm")
    # (b)
    ptr = [s for s in walk_no_nested(f.node) if isinstance(s, ast.Assign)
           and any(attr_chain(t) == ("self", "_group_key_pointers") for t in s.targets)]
    if not ptr:
        raise AnalysisError("P7b: assignment of the pointer tables not found")

    def defs_of(name: str) -> List[ast.Assign]:
        return [d for d in walk_no_nested(f.node) if isinstance(d, ast.Assign) and len(d.targets) == 1
                and isinstance(d.targets[0], ast.Name) and d.targets[0].id == name]

    def lookup_fn(e: ast.AST) -> bool:
        """a function (local def / lambda) whose result is <index>.get_indexer(<target>)"""
        if isinstance(e, ast.Lambda):
            return isinstance(e.body, ast.Call) and norm(e.body.func).endswith(".get_indexer")
        if isinstance(e, ast.Name):
            g = f.module.functions.get(f.qualname + "." + e.id)
            if g is not None:
                rets = [r for r in walk_no_nested(g.node) if isinstance(r, ast.Return) and r.value is not None]
                return bool(rets) and all(isinstance(r.value, ast.Call) and norm(r.value.func).endswith(".get_indexer") for r in rets)
        return False

    def whole_list_args(e: ast.AST, depth=0) -> Tuple[bool, str]:
        """arg_list = [(index, arr) for arr in <unique list>]: iterates a whole list (no slicing that drops a chunk)"""
        if isinstance(e, ast.Name) and depth < 3:
            ds = defs_of(e.id)
            if len(ds) == 1:
                return whole_list_args(ds[0].value, depth + 1)
            return False, f"{e.id} has {len(ds)} definitions"
        if isinstance(e, ast.ListComp) and len(e.generators) == 1:
            it = e.generators[0].iter
            if isinstance(it, ast.Name):
                return True, it.id
            return False, f"iterates {norm(it)}, not the whole unique list"
        if isinstance(e, ast.Call) and norm(e.func) in ("list", "zip"):
            return True, norm(e)
        return False, norm(e)[:40]

    def looked_up(e: ast.AST, depth=0) -> Tuple[bool, str]:
        if isinstance(e, ast.Name) and depth < 4:
            ds = defs_of(e.id)
            if not ds:
                return False, f"{e.id} is not defined in this function"
            for d in ds:
                ok, why = looked_up(d.value, depth + 1)
                if not ok:
                    return False, why
            return True, ""
        if isinstance(e, ast.Call) and (call_name(e) or "").split(".")[-1] == "parallel_map" and len(e.args) >= 2:
            if not lookup_fn(e.args[0]):
                return False, f"{norm(e.args[0])} is not a get_indexer lookup"
            ok, why = whole_list_args(e.args[1])
            return (ok, "" if ok else f"the lookups cover {why}")
        if isinstance(e, ast.Call) and norm(e.func).endswith(".get_indexer"):
            return True, ""
        if isinstance(e, (ast.List, ast.Tuple)):
            for x in e.elts:
                ok, why = looked_up(x.value if isinstance(x, ast.Starred) else x, depth + 1)
                if not ok:
                    return False, why
            return True, ""
        if isinstance(e, ast.ListComp):
            return looked_up(e.elt, depth + 1)
        return False, f"{norm(e)[:50]} is not the result of a get_indexer lookup against the label index"

    for s in ptr:
        n += 1
        ok, why = looked_up(s.value)
        if ok:
            res.ok(f, s, norm(s)[:90], "every table is index.get_indexer(chunk uniques)")
        else:
            res.bad(f, s, norm(s)[:90],
                    f"not every per-chunk pointer table is looked up against the final label index ({why}): a table that is "
                    f"assumed (identity / positional) is wrong as soon as sorting or another chunk's labels shift the positions")
    if n < 2:
        raise AnalysisError("P7b: anchors not found")
    return res


def _enclosing_if_tests(f: Func, stmt: ast.AST) -> List[ast.AST]:
    out: List[ast.AST] = []

    def rec(n, tests):
        if n is stmt:
            out.extend(tests)
            return True
        for fld, val in ast.iter_fields(n):
            if isinstance(val, list):
                for c in val:
                    if isinstance(c, ast.AST):
                        t2 = tests + [n.test] if isinstance(n, ast.If) and fld == "body" else tests
                        if rec(c, t2):
                            return True
        return False

    rec(f.node, [])
    return out
