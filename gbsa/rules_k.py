"""K rules: numba-compiled loop kernels (DESIGN.md section 4, K1-K6)."""
from __future__ import annotations

import ast
from typing import Dict, List, Optional, Set, Tuple

from .kernels import (KernelRoles, all_index_names, base_name, code_guard_facts, const_int,
                      first_index_names, infer_roles)
from .model import AnalysisError, Func, Repo, norm, walk_no_nested
from .paths import enumerate_paths, SymPath
from .report import RuleResult
from .walker import EMPTY, FactWalker, Facts


# ------------------------------------------------------------------------------- K1

class _K1Walker(FactWalker):
    def __init__(self, roles: KernelRoles, res: RuleResult):
        super().__init__()
        self.roles = roles
        self.res = res
        self.func = roles.func
        self.seen: Set[int] = set()
        self._pre: Facts = EMPTY

    def test_facts(self, test, facts):
        return code_guard_facts(test)

    def fact_names(self, fact):
        return [fact[1]]

    def on_stmt(self, stmt, facts):
        self._pre = facts

    def gen(self, stmt, facts):
        out = set()
        if isinstance(stmt, ast.Assign) and len(stmt.targets) == 1 and isinstance(stmt.targets[0], ast.Name):
            t = stmt.targets[0].id
            v = stmt.value
            # alias copy keeps the fact
            if isinstance(v, ast.Name) and ("ge0", v.id) in self._pre:
                out.add(("ge0", t))
            # re-mapping through a parameter table under an established guard (null case is K2's job)
            if isinstance(v, ast.Subscript) and isinstance(v.value, ast.Name) \
                    and v.value.id in self.roles.params and isinstance(v.slice, ast.Name) \
                    and ("ge0", v.slice.id) in self._pre and t in self.roles.code_vars:
                out.add(("ge0", t))
        return out

    def check_node(self, node, facts, store=False):
        if not isinstance(node, ast.Subscript):
            return
        if id(node) in self.seen:
            return
        b = base_name(node)
        if b is None:
            return
        used = [n for n in all_index_names(node) if n in self.roles.code_vars]
        if not used:
            return
        if b in self.roles.codes_arrays and not (set(first_index_names(node)) & set(self.roles.code_vars)):
            return
        self.seen.add(id(node))
        construct = norm(node) + (" (store)" if store else "")
        missing = [k for k in used if ("ge0", k) not in facts]
        if missing:
            self.res.bad(
                self.func, node, construct,
                f"per-group access indexed by code variable {missing[0]!r} is not dominated by a "
                f"null-code test ({missing[0]} >= 0): a negative code wraps to the last group's state",
                path=" ".join(self.path))
        else:
            self.res.ok(self.func, node, construct, "dominated by " + ", ".join(f"{k}>=0" for k in used))


def rule_K1(repo: Repo) -> RuleResult:
    res = RuleResult("K1", "null-code guard: every per-group state access by a code is dominated by k >= 0")
    kernels_with_codes = []
    for f in repo.kernels():
        roles = infer_roles(f)
        if not roles.code_vars:
            continue
        kernels_with_codes.append(f.qualname)
        w = _K1Walker(roles, res)
        w.walk(f.node.body, EMPTY)
    res.analysed = {"kernels_scanned": len(repo.kernels()), "kernels_with_code_variables": kernels_with_codes}
    res.floor = 60
    if len(kernels_with_codes) < 10:
        raise AnalysisError(f"K1: only {len(kernels_with_codes)} kernels with code variables found "
                            f"(confirmed floor 10): {kernels_with_codes}")
    return res


# ------------------------------------------------------------------------------- K6

def rule_K6(repo: Repo) -> RuleResult:
    """Manual row counters advance on every iteration (not control-dependent on a guard)."""
    res = RuleResult("K6", "manual row counter advances unconditionally in the row loop")
    for f in repo.kernels():
        roles = infer_roles(f)
        if not roles.code_vars:
            continue
        for loop in [n for n in walk_no_nested(f.node) if isinstance(n, ast.For)]:
            # counters incremented somewhere inside this loop and used as an index of an array
            incs = []
            for n in _walk_loop_body(loop):
                if isinstance(n, ast.AugAssign) and isinstance(n.target, ast.Name) \
                        and isinstance(n.op, ast.Add) and const_int(n.value) == 1:
                    incs.append(n)
            for inc in incs:
                name = inc.target.id
                used_as_row = any(
                    isinstance(s, ast.Subscript) and name in all_index_names(s)
                    and base_name(s) in (roles.codes_arrays | roles.row_aligned_arrays | {"mask"})
                    for s in _walk_loop_body(loop))
                if not used_as_row:
                    continue
                if _innermost_loop_of(loop, inc) is not loop:
                    continue
                construct = f"{name} += 1 in {norm(loop.target)}-loop"
                if inc not in loop.body:
                    res.bad(f, inc, construct,
                            f"row counter {name!r} is incremented under a condition: rows skipped by the "
                            f"guard would shift every later row's position")
                    continue
                pos = loop.body.index(inc)
                early = [s for st in loop.body[:pos] for s in _walk_stmt_same_loop(st)
                         if isinstance(s, (ast.Continue, ast.Break))]
                if early:
                    res.bad(f, inc, construct,
                            f"a continue/break at line {early[0].lineno} precedes the increment of row "
                            f"counter {name!r}: skipped rows would not advance the position")
                else:
                    res.ok(f, inc, construct, "direct child of the row loop, no earlier continue/break")
    return res


def _walk_loop_body(loop):
    for st in loop.body:
        yield from walk_no_nested(st)


def _walk_stmt_same_loop(st):
    """nodes of st, not descending into nested loops (their continue belongs to them)."""
    stack = [st]
    while stack:
        n = stack.pop()
        yield n
        for c in ast.iter_child_nodes(n):
            if isinstance(c, (ast.For, ast.While, ast.FunctionDef, ast.Lambda)):
                continue
            stack.append(c)


def _innermost_loop_of(loop, target) -> Optional[ast.AST]:
    best = None

    def rec(n, cur):
        nonlocal best
        if n is target:
            best = cur
            return
        for c in ast.iter_child_nodes(n):
            rec(c, c if isinstance(c, (ast.For, ast.While)) else cur)

    rec(loop, loop)
    return best


# ------------------------------------------------------------------------------- K4

_INT_WIDTH = {
    "int8": 8, "uint8": 8, "int16": 16, "uint16": 16, "int32": 32, "uint32": 32,
    "int64": 64, "uint64": 64, "int_": 64, "intp": 64, "int": 64, "uint": 64,
}


def _dtype_name(node: Optional[ast.AST]) -> Optional[str]:
    if node is None:
        return None
    if isinstance(node, ast.Constant) and isinstance(node.value, str):
        return node.value
    if isinstance(node, ast.Attribute):
        return node.attr
    if isinstance(node, ast.Name):
        return node.id
    return None


def _alloc_dtype(call: ast.Call) -> Optional[ast.AST]:
    for kw in call.keywords:
        if kw.arg == "dtype":
            return kw.value
    return None


def rule_K4(repo: Repo) -> RuleResult:
    """Per-group counters allocated in kernels are wide enough (no sub-32-bit row/position counters)."""
    res = RuleResult("K4", "integer counter arrays in kernels are at least 32 bits wide")
    seen = 0
    for f in repo.kernels():
        for n in walk_no_nested(f.node):
            if not (isinstance(n, ast.Assign) and len(n.targets) == 1
                    and isinstance(n.targets[0], ast.Name) and isinstance(n.value, ast.Call)):
                continue
            call = n.value
            fn = call.func.attr if isinstance(call.func, ast.Attribute) else \
                (call.func.id if isinstance(call.func, ast.Name) else "")
            if fn not in ("zeros", "full", "empty", "ones"):
                continue
            dt = _dtype_name(_alloc_dtype(call))
            if dt is None or dt not in _INT_WIDTH:
                continue
            arr = n.targets[0].id
            width = _INT_WIDTH[dt]
            # how is the array written inside loops?
            writes = []
            for loop in [x for x in walk_no_nested(f.node) if isinstance(x, (ast.For, ast.While))]:
                for s in _walk_loop_body(loop):
                    if isinstance(s, ast.AugAssign) and isinstance(s.target, ast.Subscript) \
                            and base_name(s.target) == arr:
                        writes.append(s)
                    elif isinstance(s, ast.Assign):
                        flat = []
                        for t in s.targets:
                            flat.extend(t.elts if isinstance(t, (ast.Tuple, ast.List)) else [t])
                        for t in flat:
                            if isinstance(t, ast.Subscript) and base_name(t) == arr:
                                writes.append(s)
            counting = [w for w in writes if not _is_literal_store(w)]
            seen += 1
            construct = f"{arr} = {norm(call)}"
            if not counting:
                res.ok(f, n, construct, f"{dt}: never holds a running count/position", nontrivial=False)
            elif width < 32:
                res.bad(f, n, construct,
                        f"{dt} array holds a per-group row count / position updated in the row loop "
                        f"({norm(counting[0])}); neither rows per group nor caller-supplied n/window are "
                        f"bounded by the API, so it overflows beyond {2 ** (width - 1) - 1}")
            elif width == 32:
                res.ok(f, n, construct, f"{dt}: accepted under the stated assumption < 2^31 rows per group / labels")
            else:
                res.ok(f, n, construct, f"{dt}: 64-bit counter")
    res.analysed = {"explicit_integer_dtype_arrays_in_kernels": seen}
    if seen < 10:
        raise AnalysisError(f"K4: only {seen} explicit-integer-dtype arrays found in kernels (floor 10)")
    return res


def _is_literal_store(st) -> bool:
    if isinstance(st, ast.Assign):
        v = st.value
        return isinstance(v, ast.Constant) or const_int(v) is not None
    return False


# ------------------------------------------------------------------------------- K3

def _mask_test_polarity(test: ast.expr, mask_names: Set[str], aliases: Dict[str, str]) -> Optional[str]:
    """Classify a leaf test: 'unselected' if true means the row is not selected, 'selected' if true
    means it is selected (or there is no mask)."""
    t = test
    # masked and not mask[i]
    if isinstance(t, ast.BoolOp) and isinstance(t.op, ast.And):
        has_masked = any(isinstance(v, ast.Name) and aliases.get(v.id) == "masked" for v in t.values)
        has_notmask = any(isinstance(v, ast.UnaryOp) and isinstance(v.op, ast.Not)
                          and isinstance(v.operand, ast.Subscript) and base_name(v.operand) in mask_names
                          for v in t.values)
        if has_masked and has_notmask and len(t.values) == 2:
            return "unselected"
    if isinstance(t, ast.BoolOp) and isinstance(t.op, ast.Or):
        has_unmasked = any(isinstance(v, ast.Name) and aliases.get(v.id) == "unmasked" for v in t.values)
        has_mask = any(isinstance(v, ast.Subscript) and base_name(v) in mask_names for v in t.values)
        if has_unmasked and has_mask and len(t.values) == 2:
            return "selected"
    return None


def _mask_aliases(func: Func, mask_names: Set[str]) -> Dict[str, str]:
    """masked = mask is not None ; unmasked = mask is None"""
    out: Dict[str, str] = {}
    for n in walk_no_nested(func.node):
        if isinstance(n, ast.Assign) and len(n.targets) == 1 and isinstance(n.targets[0], ast.Name):
            v = n.value
            if isinstance(v, ast.Compare) and len(v.ops) == 1 and isinstance(v.left, ast.Name) \
                    and v.left.id in mask_names and isinstance(v.comparators[0], ast.Constant) \
                    and v.comparators[0].value is None:
                if isinstance(v.ops[0], ast.IsNot):
                    out[n.targets[0].id] = "masked"
                elif isinstance(v.ops[0], ast.Is):
                    out[n.targets[0].id] = "unmasked"
    # single reaching definition only
    counts: Dict[str, int] = {}
    for n in walk_no_nested(func.node):
        if isinstance(n, ast.Name) and isinstance(n.ctx, ast.Store):
            counts[n.id] = counts.get(n.id, 0) + 1
    return {k: v for k, v in out.items() if counts.get(k, 0) == 1}


def _eval3(test: ast.expr, M: bool, B: bool, mask_names, aliases) -> Optional[bool]:
    """Kleene evaluation of a branch test under 'mask is not None' = M and 'mask[row]' = B;
    every other sub-expression is unknown (None)."""
    t = test
    if isinstance(t, ast.Constant) and isinstance(t.value, bool):
        return t.value
    if isinstance(t, ast.Name):
        a = aliases.get(t.id)
        if a == "masked":
            return M
        if a == "unmasked":
            return not M
        return None
    if isinstance(t, ast.Compare) and len(t.ops) == 1 and isinstance(t.left, ast.Name) and t.left.id in mask_names \
            and isinstance(t.comparators[0], ast.Constant) and t.comparators[0].value is None:
        if isinstance(t.ops[0], ast.IsNot):
            return M
        if isinstance(t.ops[0], ast.Is):
            return not M
        return None
    if isinstance(t, ast.Subscript) and base_name(t) in mask_names:
        return B if M else None
    if isinstance(t, ast.UnaryOp) and isinstance(t.op, ast.Not):
        v = _eval3(t.operand, M, B, mask_names, aliases)
        return None if v is None else (not v)
    if isinstance(t, ast.BoolOp):
        vals = [_eval3(v, M, B, mask_names, aliases) for v in t.values]
        if isinstance(t.op, ast.And):
            if any(v is False for v in vals):
                return False
            return True if all(v is True for v in vals) else None
        if any(v is True for v in vals):
            return True
        return False if all(v is False for v in vals) else None
    return None


def _feasible(path: SymPath, M: bool, B: bool, mask_names, aliases) -> bool:
    for test, pol in path.conds:
        v = _eval3(test, M, B, mask_names, aliases)
        if v is not None and v != pol:
            return False
    return True


def _selection_of_path(path: SymPath, mask_names, aliases) -> str:
    """'selected' | 'unselected' | 'unknown' from the branch decisions of a path: the row is unselected iff a
    mask is given and mask[row] is false.  The decisions are evaluated in three-valued logic under each of the
    valuations of (mask given, mask[row]); 'selected' = the unselected valuation contradicts a decision."""
    unsel = _feasible(path, True, False, mask_names, aliases)
    sel = _feasible(path, True, True, mask_names, aliases) or _feasible(path, False, False, mask_names, aliases)
    if not unsel:
        return "selected"
    if not sel:
        return "unselected"
    return "unknown"


def _leaves(test: ast.expr, pol: bool):
    """Decompose a decided test into sub-tests whose truth value is implied.
    (a or b) false  -> a false, b false ; (a and b) true -> a true, b true ; otherwise the
    sub-tests are undetermined (polarity None) but the test itself is yielded first."""
    yield test, pol
    if isinstance(test, ast.UnaryOp) and isinstance(test.op, ast.Not):
        yield from _leaves(test.operand, not pol)
    elif isinstance(test, ast.BoolOp):
        if isinstance(test.op, ast.Or) and pol is False:
            for v in test.values:
                yield from _leaves(v, False)
        elif isinstance(test.op, ast.And) and pol is True:
            for v in test.values:
                yield from _leaves(v, True)


K3_EXEMPT = {
    # one named exemption with reason (DESIGN.md K3)
    ("emas", "_ema_grouped_timed"): (
        {"residuals", "residual_weights", "last_seen_times"},
        "time-based decay composes multiplicatively (2^-(a+b)/h = 2^-a/h * 2^-b/h) and last_seen_times "
        "enters only through differences, so selected rows are unchanged up to rounding"),
}


def _time_decay_arrays(f: Func, roles) -> Set[str]:
    from .canon import inline_cell_reads
    f = inline_cell_reads(f)
    clock = None
    for n in walk_no_nested(f.node):
        if isinstance(n, ast.BinOp) and isinstance(n.op, ast.Sub):
            for side, other in ((n.left, n.right), (n.right, n.left)):
                if isinstance(side, ast.Subscript) and base_name(side) in roles.per_group_arrays \
                        and isinstance(other, ast.Subscript) and base_name(other) in f.named_params:
                    clock = base_name(side)
    if clock is None:
        return set()
    derived: Set[str] = set()
    changed = True
    while changed:
        changed = False
        for n in walk_no_nested(f.node):
            if isinstance(n, ast.Assign) and len(n.targets) == 1 and isinstance(n.targets[0], ast.Name) \
                    and n.targets[0].id not in derived:
                names = {x.id for x in ast.walk(n.value) if isinstance(x, ast.Name)}
                subs = {base_name(x) for x in ast.walk(n.value) if isinstance(x, ast.Subscript)}
                if clock in subs or names & derived:
                    derived.add(n.targets[0].id); changed = True
    out = {clock}
    for n in walk_no_nested(f.node):
        if isinstance(n, ast.AugAssign) and isinstance(n.op, ast.Mult) and isinstance(n.target, ast.Subscript) \
                and base_name(n.target) in roles.per_group_arrays \
                and {x.id for x in ast.walk(n.value) if isinstance(x, ast.Name)} & derived:
            out.add(base_name(n.target))
    return out


def rule_K3(repo: Repo) -> RuleResult:
    """Masked rows do not change per-group state (stores on not-provably-selected paths are identities)."""
    res = RuleResult("K3", "masked-row non-interference in every kernel with a mask parameter")
    kernels = []
    for f in repo.kernels():
        mask_names = {p for p in f.named_params if p == "mask"}
        if not mask_names:
            continue
        roles = infer_roles(f)
        if not roles.code_vars:
            continue
        kernels.append(f.qualname)
        aliases = _mask_aliases(f, mask_names)
        loop = _row_loop(f, roles)
        if loop is None:
            raise AnalysisError(f"K3: cannot find the row loop of kernel {f.qualname}")
        state_arrays = set(roles.per_group_arrays)
        exempt_arrays, exempt_reason = K3_EXEMPT.get((f.module.name, f.qualname), (set(), ""))
        if exempt_arrays:
            # the exemption is for a shape, not for spellings: the per-group clock (the array subtracted from times[...])
            # and the arrays that are multiplied by a factor derived from that difference
            exempt_arrays = _time_decay_arrays(f, roles) or exempt_arrays
        paths = enumerate_paths(loop.body, limit=4096)
        n_mask_tests = 0
        for p in paths:
            sel = _selection_of_path(p, mask_names, aliases)
            if sel in ("selected",):
                continue
            if sel == "unselected":
                n_mask_tests += 1
            # path that is not provably selected: every per-group state store must be an identity
            for st, target, value_txt, is_identity in p.state_stores(state_arrays):
                arr = base_name(target)
                construct = f"{norm(st)} on path {p.describe()}"
                # the finding key names the state array and the kind of store, not the spelling of the code variable or of the
                # scalars on the right-hand side (a rename of those must not turn a known finding into a new one)
                opname = {"Mult": "*=", "Add": "+=", "Sub": "-=", "Div": "/="}.get(type(st.op).__name__, "op=") \
                    if isinstance(st, ast.AugAssign) else "="
                key_construct = f"{arr}[<code>] {opname} ... [{sel}]"
                if is_identity:
                    res.ok(f, st, key_construct, "store of the cell's own current value (identity)")
                elif arr in exempt_arrays:
                    res.exempt(f, st, key_construct, exempt_reason)
                else:
                    res.bad(f, st, key_construct,
                            f"per-group state {arr!r} is updated on a path where the row is not provably "
                            f"selected by the mask ({sel}): an unselected row influences later rows of its group",
                            path=p.describe())
        # the kernel must test the mask at all
        tested = any(_selection_of_path(p, mask_names, aliases) != "unknown" for p in paths)
        if not tested:
            res.bad(f, loop, f"row loop of {f.qualname}",
                    "kernel takes a mask but no path of its row loop tests it")
        else:
            res.ok(f, loop, f"row loop of {f.qualname}: {len(paths)} paths", "mask tested; stores classified")
    res.analysed = {"kernels_with_mask": kernels}
    if len(kernels) < 8:
        raise AnalysisError(f"K3: only {len(kernels)} kernels with mask and code variables (floor 8): {kernels}")
    # de-duplicate violations by key (several paths reach the same store)
    seen = set()
    uniq = []
    for v in res.violations:
        if v.key() in seen:
            continue
        seen.add(v.key())
        uniq.append(v)
    res.violations = uniq
    return res


def _row_loop(f: Func, roles: KernelRoles) -> Optional[ast.For]:
    """innermost for-loop in which a code variable is defined or is the loop target."""
    best = None
    for loop in [n for n in walk_no_nested(f.node) if isinstance(n, ast.For)]:
        tnames = {n.id for n in ast.walk(loop.target) if isinstance(n, ast.Name)}
        defines = bool(tnames & set(roles.code_vars))
        if not defines:
            for st in loop.body:
                if isinstance(st, ast.Assign) and any(
                        isinstance(t, ast.Name) and t.id in roles.code_vars for t in st.targets):
                    defines = True
        if defines:
            best = loop  # walk order is outer-first, so the last match is the innermost
    return best


# ------------------------------------------------------------------------------- K5

def rule_K5(repo: Repo) -> RuleResult:
    """dtype provenance on selection paths of the rolling kernels."""
    res = RuleResult("K5", "arrays on a selection path (value -> output without arithmetic) follow the value dtype")
    m = repo.mod("groupby.numba")
    ar = m.func("_apply_rolling")
    # kernels dispatched by _apply_rolling: values of the dict literal rolling_1d_funcs
    kernels: List[str] = []
    for n in walk_no_nested(ar.node):
        if isinstance(n, ast.Dict):
            for v in n.values:
                if isinstance(v, ast.Name) and v.id in m.functions and v.id not in kernels:
                    kernels.append(v.id)
    if len(kernels) < 3:
        raise AnalysisError(f"K5: expected >= 3 rolling kernels in _apply_rolling's dispatch table, found {kernels}")
    # binding of the value-typed parameter at the single caller
    _check_null_value_binding(ar, res)
    for kname in kernels:
        f = m.func(kname)
        _k5_kernel(repo, f, res)
    res.analysed = {"rolling_kernels": kernels}
    return res


def _check_null_value_binding(ar: Func, res: RuleResult):
    """null_value := _null_value_for_numpy_type(values[0].dtype); may be replaced by np.nan only
    under a test that excludes temporal values."""
    assigns = [n for n in walk_no_nested(ar.node)
               if isinstance(n, ast.Assign) and any(isinstance(t, ast.Name) and t.id == "null_value" for t in n.targets)]
    if not assigns:
        raise AnalysisError("K5: _apply_rolling no longer assigns null_value")
    first = assigns[0]
    ok_first = isinstance(first.value, ast.Call) and norm(first.value.func).endswith("_null_value_for_numpy_type") \
        and "dtype" in norm(first.value)
    if ok_first:
        res.ok(ar, first, norm(first), "value-typed null derived from the value dtype")
    else:
        res.bad(ar, first, norm(first), "null_value is not derived from the value dtype")
    # any other assignment must sit under `... and not values_are_times`
    times_alias = None
    for n in walk_no_nested(ar.node):
        if isinstance(n, ast.Assign) and len(n.targets) == 1 and isinstance(n.targets[0], ast.Name) \
                and isinstance(n.value, ast.Compare) and 'in "mM"' in norm(n.value).replace("'", '"'):
            times_alias = n.targets[0].id
    for a in assigns[1:]:
        guard = _enclosing_if_tests(ar.node, a)
        txt = " and ".join(norm(g) for g in guard)
        excl = times_alias is not None and any(
            _conj_contains_not(g, times_alias) for g in guard)
        if excl:
            res.ok(ar, a, norm(a), f"float null only when values are not temporal ({txt})")
        else:
            res.bad(ar, a, norm(a),
                    "null_value is replaced by a float for temporal values: buffers and outputs of the rolling "
                    "kernels would be float64 and nanosecond timestamps above 2^53 are rounded")


def _conj_contains_not(test: ast.expr, name: str) -> bool:
    vals = test.values if isinstance(test, ast.BoolOp) and isinstance(test.op, ast.And) else [test]
    for v in vals:
        if isinstance(v, ast.UnaryOp) and isinstance(v.op, ast.Not) and isinstance(v.operand, ast.Name) \
                and v.operand.id == name:
            return True
    return False


def _enclosing_if_tests(fnode, target) -> List[ast.expr]:
    out: List[ast.expr] = []

    def rec(n, tests):
        if n is target:
            out.extend(tests)
            return True
        for fld, val in ast.iter_fields(n):
            if isinstance(val, list):
                for c in val:
                    if isinstance(c, ast.AST):
                        t2 = tests
                        if isinstance(n, ast.If) and fld == "body":
                            t2 = tests + [n.test]
                        if rec(c, t2):
                            return True
            elif isinstance(val, ast.AST):
                if rec(val, tests):
                    return True
        return False

    rec(fnode, [])
    return out


def _pure_return_components(repo: Repo, f: Func) -> Set[int]:
    """indices of returned tuple components that are elements of an array parameter (selection helper)."""
    params = set(f.named_params)
    pure_names: Set[str] = set()
    changed = True
    assigns: Dict[str, List[ast.AST]] = {}
    for n in walk_no_nested(f.node):
        if isinstance(n, ast.Assign) and len(n.targets) == 1 and isinstance(n.targets[0], ast.Name):
            assigns.setdefault(n.targets[0].id, []).append(n.value)
        elif isinstance(n, ast.For):
            # for j, v in enumerate(arr[...], i)
            it = n.iter
            if isinstance(it, ast.Call) and isinstance(it.func, ast.Name) and it.func.id == "enumerate" \
                    and isinstance(n.target, ast.Tuple) and len(n.target.elts) == 2 \
                    and isinstance(n.target.elts[1], ast.Name):
                a0 = it.args[0]
                while isinstance(a0, ast.Subscript):
                    a0 = a0.value
                if isinstance(a0, ast.Name) and a0.id in params:
                    assigns.setdefault(n.target.elts[1].id, []).append(ast.Subscript(
                        value=a0, slice=ast.Constant(0), ctx=ast.Load()))
            elif isinstance(n.target, ast.Name):
                # for v in arr[...]   (the same iteration with a manual counter instead of enumerate)
                a0 = it
                while isinstance(a0, ast.Subscript):
                    a0 = a0.value
                if isinstance(a0, ast.Name) and a0.id in params:
                    assigns.setdefault(n.target.id, []).append(ast.Subscript(value=a0, slice=ast.Constant(0), ctx=ast.Load()))
    while changed:
        changed = False
        for nm, vals in assigns.items():
            if nm in pure_names:
                continue
            ok = True
            for v in vals:
                if isinstance(v, ast.Subscript) and isinstance(v.value, ast.Name) and v.value.id in params:
                    continue
                if isinstance(v, ast.Name) and v.id in pure_names:
                    continue
                ok = False
            if ok and vals:
                pure_names.add(nm)
                changed = True
    out: Set[int] = set()
    rets = [n for n in walk_no_nested(f.node) if isinstance(n, ast.Return) and n.value is not None]
    for i in range(4):
        if rets and all(isinstance(r.value, ast.Tuple) and len(r.value.elts) > i
                        and isinstance(r.value.elts[i], ast.Name) and r.value.elts[i].id in pure_names
                        for r in rets):
            out.add(i)
    return out


def _k5_kernel(repo: Repo, f: Func, res: RuleResult):
    roles = infer_roles(f)
    m = f.module
    # value element names: loop targets over (elements of) the `values` parameter
    val_names = {n for n, r in roles.elem_of.items() if r == "values" and n not in roles.code_vars}
    # restrict to scalars: names that are iterated further are containers
    containers = set()
    for n in walk_no_nested(f.node):
        if isinstance(n, ast.For) and isinstance(n.iter, ast.Name) and n.iter.id in val_names:
            containers.add(n.iter.id)
    val_names -= containers
    if not val_names:
        raise AnalysisError(f"K5: cannot identify the value element variable of {f.qualname}")
    pure_names: Set[str] = set(val_names)
    pure_arrays: Set[str] = set()
    out_name = None
    rets = [n for n in walk_no_nested(f.node) if isinstance(n, ast.Return)]
    if rets and isinstance(rets[-1].value, ast.Name):
        out_name = rets[-1].value.id

    tuple_results: Dict[str, Set[int]] = {}      # r = helper(pure array)  ->  indices i for which r[i] is an input element

    def is_pure(e: ast.AST) -> bool:
        if isinstance(e, ast.Name):
            return e.id in pure_names
        if isinstance(e, ast.Subscript):
            if isinstance(e.value, ast.Name) and e.value.id in tuple_results:
                return const_int(e.slice) in tuple_results[e.value.id]
            b = base_name(e)
            return b in pure_arrays
        return False

    changed = True
    while changed:
        changed = False
        for n in walk_no_nested(f.node):
            if isinstance(n, ast.Assign) and len(n.targets) == 1:
                t, v = n.targets[0], n.value
                if isinstance(t, ast.Name):
                    if isinstance(v, ast.Call) and isinstance(v.func, ast.Name) and v.func.id in m.functions and t.id not in tuple_results:
                        # the tuple result of a selection helper kept whole:  r = helper(row); ... r[0]
                        comps_ = _pure_return_components(repo, m.functions[v.func.id])
                        if comps_ and any((isinstance(a, ast.Name) and (a.id in pure_names or a.id in pure_arrays))
                                          or (isinstance(a, ast.Subscript) and base_name(a) in pure_arrays) for a in v.args):
                            tuple_results[t.id] = comps_; changed = True
                    if is_pure(v) and t.id not in pure_names and t.id not in roles.local_arrays:
                        pure_names.add(t.id); changed = True
                    # row view of a pure array: window_vals = group_buffers[key]
                    if isinstance(v, ast.Subscript) and base_name(v) in pure_arrays and t.id not in pure_arrays \
                            and t.id not in pure_names:
                        pure_names.add(t.id); changed = True
                elif isinstance(t, ast.Subscript):
                    b = base_name(t)
                    if is_pure(v) and b and b not in pure_arrays:
                        pure_arrays.add(b); changed = True
                elif isinstance(t, ast.Tuple) and isinstance(v, ast.Call) and isinstance(v.func, ast.Name) \
                        and v.func.id in m.functions:
                    callee = m.functions[v.func.id]
                    comps = _pure_return_components(repo, callee)
                    args_pure = any((isinstance(a, ast.Name) and (a.id in pure_names or a.id in pure_arrays))
                                    or (isinstance(a, ast.Subscript) and base_name(a) in pure_arrays)   # row view passed directly
                                    for a in v.args)
                    if args_pure:
                        for i, el in enumerate(t.elts):
                            if i in comps and isinstance(el, ast.Name) and el.id not in pure_names:
                                pure_names.add(el.id); changed = True
    # every value stored into an array on a selection path is itself an input element (no constants, no arithmetic)
    for n in walk_no_nested(f.node):
        if isinstance(n, ast.Assign) and len(n.targets) == 1 and isinstance(n.targets[0], ast.Subscript):
            b = base_name(n.targets[0])
            if b in pure_arrays and b != out_name and not is_pure(n.value):
                res.bad(f, n, norm(n),
                        f"a value that is not an element of the input ({norm(n.value)[:40]}) is stored into {b!r}, which lies on "
                        f"a selection path to the output: it is typed/rounded independently of the input dtype (e.g. a float "
                        f"identity element makes nanosecond timestamps above 2^53 come back rounded)")
            elif b in pure_arrays and b != out_name:
                res.ok(f, n, norm(n), "stores an input element", nontrivial=False)
    on_path = set(pure_arrays)
    # the output is on a selection path if it receives a pure value
    if out_name and out_name in pure_arrays:
        on_path.add(out_name)
    if not on_path:
        res.ok(f, f.node, f"{f.qualname}: no selection path", "every output value is computed arithmetically",
               nontrivial=False)
        return
    # all arrays on the path, plus every array that holds values also through arithmetic-free stores
    for arr in sorted(on_path):
        alloc = roles.local_arrays.get(arr)
        if alloc is None:
            if arr in roles.params:
                continue
            raise AnalysisError(f"K5: array {arr} on a selection path of {f.qualname} has no visible allocation")
        kind, why = _classify_alloc(alloc, f)
        construct = f"{arr} = {norm(alloc)}"
        if kind == "POLY":
            res.ok(f, alloc, construct, why)
        else:
            res.bad(f, alloc, construct,
                    f"array on a selection path (input value -> {out_name} without arithmetic) has a fixed "
                    f"dtype ({why}); values of the input dtype (e.g. nanosecond timestamps above 2^53) are "
                    f"rounded instead of returned exactly")


def _classify_alloc(call: ast.Call, f: Func) -> Tuple[str, str]:
    fn = call.func.attr if isinstance(call.func, ast.Attribute) else (
        call.func.id if isinstance(call.func, ast.Name) else "")
    params = set(f.named_params)
    dt = _alloc_dtype(call)
    if dt is not None:
        txt = norm(dt)
        if txt.endswith(".dtype") and txt.split(".")[0] in params:
            return "POLY", f"dtype={txt}"
        return "FIXED", f"explicit dtype {txt}"
    if fn == "full" and len(call.args) >= 2:
        fill = call.args[1]
        if isinstance(fill, ast.Name) and fill.id == "null_value":
            return "POLY", "filled with the value-typed parameter null_value"
        return "FIXED", f"fill value {norm(fill)} fixes the dtype"
    if fn == "copy" and isinstance(call.func, ast.Attribute) and isinstance(call.func.value, ast.Name) \
            and call.func.value.id in params:
        return "POLY", "copy of a parameter"
    if fn in ("zeros_like", "empty_like", "full_like") and call.args and isinstance(call.args[0], ast.Name) \
            and call.args[0].id in params:
        return "POLY", f"{fn} of a parameter"
    return "FIXED", f"{fn} without value-derived dtype defaults to float64"
