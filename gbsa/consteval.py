"""Constant-set propagation through the repo's dynamic idioms (DESIGN.md section 2, I1-I8).

Value domain:
  CS(frozenset)   a finite set of possible Python constants (str/int/bool/None/float/tuple)
  TOP             unknown
  DictVal         symbolic dict with constant keys (``locals()``, ``dict(...)``, ``{...}``, ``a | b``)
  FuncRef         reference to repo function(s) (so that getattr(module, f"group_{x}") resolves)
  ModRef / ClsRef reference to a repo module / class (member tables for I5)

``Evaluator.run(func, env)`` executes a function body abstractly (flow-sensitive, joins at merges,
branches on tests whose truth value is determined) and records every call expression with the
environment in force, so that rules can ask "what is bound to parameter p at this call site".
"""
from __future__ import annotations

import ast
from dataclasses import dataclass, field
from typing import Callable, Dict, FrozenSet, List, Optional, Set, Tuple

from .model import Func, Module, Repo, norm


class _Top:
    def __repr__(self):
        return "TOP"


TOP = _Top()


@dataclass(frozen=True)
class CS:
    vals: FrozenSet

    def __repr__(self):
        return "CS{" + ", ".join(sorted(map(repr, self.vals))) + "}"

    @property
    def single(self):
        if len(self.vals) == 1:
            return next(iter(self.vals))
        raise ValueError


def cs(*vals) -> CS:
    return CS(frozenset(vals))


@dataclass
class DictVal:
    entries: Dict[str, object] = field(default_factory=dict)
    open: bool = False            # may contain further unknown keys
    origin: Dict[str, ast.AST] = field(default_factory=dict)   # key -> expression that produced it

    def copy(self):
        return DictVal(dict(self.entries), self.open, dict(self.origin))


@dataclass(frozen=True)
class FuncRef:
    funcs: Tuple[Func, ...]

    def __repr__(self):
        return "FuncRef(" + ", ".join(f.qualname for f in self.funcs) + ")"


@dataclass(frozen=True)
class ModRef:
    name: str


@dataclass(frozen=True)
class ClsRef:
    module: str
    name: str


@dataclass(frozen=True)
class ParamVal:
    """the (unknown) value of a parameter of the function under analysis - lets rules see that an
    actual *is* the caller's parameter"""
    name: str

    def __repr__(self):
        return f"Param({self.name})"


@dataclass
class Record:
    """an object with known constant attributes (e.g. a dtype with a known .kind)"""
    fields: Dict[str, object]
    label: str = ""

    def __repr__(self):
        return f"Record({self.label or self.fields})"


@dataclass(frozen=True)
class Named:
    """an unknown value identified by the variable it was first bound to (alias tracking)"""
    name: str
    line: int = 0

    def __repr__(self):
        return f"Named({self.name}@{self.line})"


@dataclass(frozen=True)
class SigParams:
    """signature(f).parameters for known f"""
    funcs: Tuple[Func, ...]


def join(a, b):
    if a is b:
        return a
    if isinstance(a, CS) and isinstance(b, CS):
        return CS(a.vals | b.vals)
    if isinstance(a, DictVal) and isinstance(b, DictVal):
        out = DictVal(open=a.open or b.open)
        for k in set(a.entries) | set(b.entries):
            if k in a.entries and k in b.entries:
                out.entries[k] = join(a.entries[k], b.entries[k])
                out.origin[k] = a.origin.get(k) or b.origin.get(k)
            else:
                out.entries[k] = TOP
                out.open = True
        return out
    if isinstance(a, FuncRef) and isinstance(b, FuncRef):
        return FuncRef(tuple(dict.fromkeys(a.funcs + b.funcs)))
    if a == b:
        return a
    return TOP


def join_env(a: Optional[dict], b: Optional[dict]) -> Optional[dict]:
    if a is None:
        return b
    if b is None:
        return a
    out = {}
    for k in set(a) | set(b):
        if k in a and k in b:
            out[k] = join(a[k], b[k])
        else:
            # defined on one side only: any execution that reads it later came through that side
            out[k] = a[k] if k in a else b[k]
    return out


def truth(v) -> Optional[bool]:
    """definite truth value of an abstract value, or None"""
    if isinstance(v, CS):
        ts = {bool(x) for x in v.vals}
        if len(ts) == 1:
            return ts.pop()
    return None


@dataclass
class CallRecord:
    node: ast.Call
    env: dict
    func: Func                   # enclosing function
    callee: object               # abstract value of the callee expression


class Evaluator:
    def __init__(self, repo: Repo):
        self.repo = repo
        self._calls: Dict[int, CallRecord] = {}
        self.returns: List[object] = []
        self.return_envs: List[dict] = []
        self.func: Optional[Func] = None
        self._module_env_cache: Dict[str, dict] = {}

    @property
    def calls(self) -> List[CallRecord]:
        """one record per call expression (the last evaluation wins: in loops that is the joined env)"""
        return list(self._calls.values())

    # ------------------------------------------------------------------ module-level names
    def module_env(self, mod: Module) -> dict:
        if mod.name in self._module_env_cache:
            return self._module_env_cache[mod.name]
        env: dict = {}
        for st in mod.tree.body:
            if isinstance(st, ast.ImportFrom):
                target = self._resolve_import(mod, st)
                for a in st.names:
                    nm = a.asname or a.name
                    if target is not None:
                        tmod = self.repo.modules.get(target)
                        if tmod is not None and a.name in tmod.functions:
                            env[nm] = FuncRef((tmod.functions[a.name],))
                        elif tmod is not None and a.name in tmod.classes:
                            env[nm] = ClsRef(tmod.name, a.name)
                        else:
                            sub = f"{target}.{a.name}" if target else a.name
                            if sub in self.repo.modules:
                                env[nm] = ModRef(sub)
            elif isinstance(st, ast.Import):
                pass
            elif isinstance(st, (ast.FunctionDef, ast.AsyncFunctionDef)):
                env[st.name] = FuncRef((mod.functions[st.name],)) if st.name in mod.functions else TOP
            elif isinstance(st, ast.ClassDef):
                env[st.name] = ClsRef(mod.name, st.name)
            elif isinstance(st, ast.Assign) and len(st.targets) == 1 and isinstance(st.targets[0], ast.Name):
                if isinstance(st.value, ast.Constant):
                    env[st.targets[0].id] = cs(st.value.value)
        self._module_env_cache[mod.name] = env
        return env

    def _resolve_import(self, mod: Module, st: ast.ImportFrom) -> Optional[str]:
        """module name inside groupby_lib ('' for the package root) or None for third party"""
        if st.level == 0:
            if st.module and (st.module == "groupby_lib" or st.module.startswith("groupby_lib.")):
                return st.module[len("groupby_lib"):].lstrip(".")
            return None
        is_pkg = mod.relpath.endswith("__init__.py")
        parts = mod.name.split(".") if mod.name else []
        if not is_pkg:
            parts = parts[:-1]
        up = st.level - 1
        if up:
            parts = parts[:-up] if up <= len(parts) else []
        if st.module:
            parts = parts + st.module.split(".")
        return ".".join(parts)

    # ------------------------------------------------------------------ expressions
    def eval(self, e: Optional[ast.AST], env: dict):
        if e is None:
            return cs(None)
        m = getattr(self, "_e_" + type(e).__name__, None)
        if m is None:
            for c in ast.iter_child_nodes(e):
                if isinstance(c, ast.expr):
                    self.eval(c, env)
            return TOP
        return m(e, env)

    def _e_Constant(self, e, env):
        try:
            hash(e.value)
            return cs(e.value)
        except TypeError:
            return TOP

    def _e_Name(self, e, env):
        if e.id in env:
            return env[e.id]
        menv = self.module_env(self.func.module) if self.func else {}
        if e.id in menv:
            return menv[e.id]
        if e.id in ("True", "False", "None"):
            return cs({"True": True, "False": False, "None": None}[e.id])
        return TOP

    def _e_JoinedStr(self, e, env):
        parts: List[Set[str]] = []
        for v in e.values:
            if isinstance(v, ast.Constant):
                parts.append({str(v.value)})
            elif isinstance(v, ast.FormattedValue):
                x = self.eval(v.value, env)
                if isinstance(x, CS) and v.format_spec is None and v.conversion == -1:
                    parts.append({str(t) for t in x.vals})
                else:
                    return TOP
        outs = {""}
        for p in parts:
            outs = {a + b for a in outs for b in p}
            if len(outs) > 64:
                return TOP
        return CS(frozenset(outs))

    def _e_Tuple(self, e, env):
        vals = [self.eval(x, env) for x in e.elts]
        if all(isinstance(v, CS) and len(v.vals) == 1 for v in vals):
            return cs(tuple(v.single for v in vals))
        return TOP

    _e_List = _e_Tuple

    def _e_BinOp(self, e, env):
        l, r = self.eval(e.left, env), self.eval(e.right, env)
        if isinstance(e.op, ast.BitOr) and isinstance(l, DictVal) and isinstance(r, DictVal):
            out = l.copy()
            out.entries.update(r.entries)
            out.origin.update(r.origin)
            out.open = l.open or r.open
            return out
        if isinstance(e.op, ast.BitOr) and (isinstance(l, DictVal) or isinstance(r, DictVal)):
            d = (l if isinstance(l, DictVal) else r).copy()
            d.open = True
            return d
        if isinstance(l, CS) and isinstance(r, CS) and len(l.vals) * len(r.vals) <= 64:
            out = set()
            for a in l.vals:
                for b in r.vals:
                    try:
                        if isinstance(e.op, ast.Add):
                            out.add(a + b)
                        elif isinstance(e.op, ast.Sub):
                            out.add(a - b)
                        elif isinstance(e.op, ast.Mult):
                            out.add(a * b)
                        elif isinstance(e.op, ast.Mod) and not isinstance(a, str):
                            out.add(a % b)
                        else:
                            return TOP
                    except Exception:
                        return TOP
            return CS(frozenset(out))
        return TOP

    def _e_UnaryOp(self, e, env):
        v = self.eval(e.operand, env)
        if isinstance(e.op, ast.Not):
            t = truth(v)
            return cs(not t) if t is not None else TOP
        if isinstance(e.op, ast.USub) and isinstance(v, CS):
            try:
                return CS(frozenset(-x for x in v.vals))
            except Exception:
                return TOP
        return TOP

    def _e_BoolOp(self, e, env):
        vals = [self.eval(v, env) for v in e.values]
        ts = [truth(v) for v in vals]
        if isinstance(e.op, ast.And):
            if any(t is False for t in ts):
                return cs(False)
            if all(t is True for t in ts):
                return vals[-1] if isinstance(vals[-1], CS) else cs(True)
            return TOP
        else:
            if any(t is True for t in ts):
                return cs(True)
            if all(t is False for t in ts):
                return cs(False)
            return TOP

    def _e_Compare(self, e, env):
        if len(e.ops) != 1:
            for c in e.comparators:
                self.eval(c, env)
            return TOP
        l, r = self.eval(e.left, env), self.eval(e.comparators[0], env)
        op = e.ops[0]
        if isinstance(op, (ast.Is, ast.IsNot)):
            if isinstance(l, CS) and isinstance(r, CS) and len(l.vals) == 1 and len(r.vals) == 1 \
                    and (l.single is None or r.single is None):
                same = l.single is r.single
                return cs(same if isinstance(op, ast.Is) else not same)
            if isinstance(r, CS) and r.vals == frozenset([None]) and isinstance(l, (DictVal, FuncRef, ModRef, ClsRef)):
                return cs(isinstance(op, ast.IsNot))
            return TOP
        if isinstance(l, CS) and isinstance(r, CS) and len(l.vals) * len(r.vals) <= 256:
            out = set()
            for a in l.vals:
                for b in r.vals:
                    try:
                        if isinstance(op, ast.Eq):
                            out.add(a == b)
                        elif isinstance(op, ast.NotEq):
                            out.add(a != b)
                        elif isinstance(op, ast.In):
                            out.add(a in b)
                        elif isinstance(op, ast.NotIn):
                            out.add(a not in b)
                        elif isinstance(op, ast.Lt):
                            out.add(a < b)
                        elif isinstance(op, ast.LtE):
                            out.add(a <= b)
                        elif isinstance(op, ast.Gt):
                            out.add(a > b)
                        elif isinstance(op, ast.GtE):
                            out.add(a >= b)
                        else:
                            return TOP
                    except Exception:
                        return TOP
            return CS(frozenset(out))
        if isinstance(op, (ast.In, ast.NotIn)) and isinstance(l, CS) and isinstance(r, SigParams):
            names = set()
            for f in r.funcs:
                names |= set(f.named_params)
            res = {(a in names) for a in l.vals}
            if isinstance(op, ast.NotIn):
                res = {not x for x in res}
            return CS(frozenset(res))
        if isinstance(op, (ast.In, ast.NotIn)) and isinstance(l, CS) and isinstance(r, DictVal) and not r.open:
            res = {(a in r.entries) for a in l.vals}
            if isinstance(op, ast.NotIn):
                res = {not x for x in res}
            return CS(frozenset(res))
        return TOP

    def _e_IfExp(self, e, env):
        t = truth(self.eval(e.test, env))
        if t is True:
            return self.eval(e.body, env)
        if t is False:
            return self.eval(e.orelse, env)
        return join(self.eval(e.body, env), self.eval(e.orelse, env))

    def _e_Dict(self, e, env):
        d = DictVal()
        for k, v in zip(e.keys, e.values):
            if k is None:
                inner = self.eval(v, env)
                if isinstance(inner, DictVal):
                    d.entries.update(inner.entries)
                    d.origin.update(inner.origin)
                    d.open = d.open or inner.open
                else:
                    d.open = True
                continue
            kv = self.eval(k, env)
            vv = self.eval(v, env)
            if isinstance(kv, CS) and len(kv.vals) == 1 and isinstance(kv.single, str):
                d.entries[kv.single] = vv
                d.origin[kv.single] = v
            else:
                d.open = True
        return d

    def _e_DictComp(self, e, env):
        # I6: {k: kwargs[k] for k in signature(f).parameters}
        if len(e.generators) == 1 and isinstance(e.generators[0].target, ast.Name) and not e.generators[0].ifs:
            it = self.eval(e.generators[0].iter, env)
            k = e.generators[0].target.id
            if isinstance(it, SigParams) and isinstance(e.key, ast.Name) and e.key.id == k \
                    and isinstance(e.value, ast.Subscript) and isinstance(e.value.slice, ast.Name) \
                    and e.value.slice.id == k:
                src = self.eval(e.value.value, env)
                if isinstance(src, DictVal):
                    names: List[str] = []
                    for f in it.funcs:
                        for p in f.named_params:
                            if p not in names:
                                names.append(p)
                    out = DictVal()
                    for p in names:
                        if p in src.entries:
                            out.entries[p] = src.entries[p]
                            out.origin[p] = src.origin.get(p)
                        else:
                            out.entries[p] = TOP
                    out.restricted_to = tuple(it.funcs)  # type: ignore[attr-defined]
                    return out
        return TOP

    def _e_Subscript(self, e, env):
        base = self.eval(e.value, env)
        key = self.eval(e.slice, env)
        if isinstance(base, DictVal) and isinstance(key, CS):
            outs = None
            for k in key.vals:
                if k in base.entries:
                    outs = base.entries[k] if outs is None else join(outs, base.entries[k])
                else:
                    return TOP
            return outs if outs is not None else TOP
        if isinstance(base, CS) and isinstance(key, CS) and len(base.vals) == 1 and len(key.vals) == 1:
            try:
                return cs(base.single[key.single])
            except Exception:
                return TOP
        return TOP

    def _e_Attribute(self, e, env):
        base = self.eval(e.value, env)
        if isinstance(base, Record):
            return base.fields.get(e.attr, TOP)
        if isinstance(base, ModRef):
            mod = self.repo.modules.get(base.name)
            if mod is not None:
                if e.attr in mod.functions:
                    return FuncRef((mod.functions[e.attr],))
                if e.attr in mod.classes:
                    return ClsRef(mod.name, e.attr)
        if isinstance(base, ClsRef):
            mod = self.repo.modules[base.module]
            q = f"{base.name}.{e.attr}"
            if q in mod.functions:
                return FuncRef((mod.functions[q],))
        if isinstance(base, DictVal) and e.attr in ("copy",):
            return ("boundmethod", base, e.attr)
        if isinstance(base, FuncRef) and e.attr == "py_func":
            return base
        if isinstance(base, tuple) and base and base[0] == "signature" and e.attr == "parameters":
            return SigParams(base[1])
        if isinstance(base, tuple) and base and base[0] == "bound" and e.attr in ("args", "arguments", "kwargs"):
            return base
        if isinstance(base, tuple) and base and base[0] == "signature" and e.attr in ("bind", "bind_partial"):
            return ("bindmethod", base[1])
        if isinstance(base, ParamVal) and base.name == "self" and self.func is not None and self.func.cls:
            mod = self.func.module
            q = f"{self.func.cls}.{e.attr}"
            if q in mod.functions:
                return FuncRef((mod.functions[q],))
        return TOP

    def _e_Call(self, e, env):
        callee = self.eval(e.func, env)
        # evaluate arguments (records nested calls)
        argvals = [self.eval(a.value if isinstance(a, ast.Starred) else a, env) for a in e.args]
        kwvals = {k.arg: self.eval(k.value, env) for k in e.keywords}
        self._calls[id(e)] = CallRecord(e, dict(env), self.func, callee)
        fname = norm(e.func)
        # ---- builtins / idioms
        if fname == "locals" and not e.args:
            d = DictVal()
            for k, v in env.items():
                if k.startswith("$"):
                    continue
                d.entries[k] = v
                d.origin[k] = ast.Name(id=k, ctx=ast.Load())
            return d
        if isinstance(callee, tuple) and callee and callee[0] == "boundmethod" and callee[2] == "copy":
            return callee[1].copy()
        if fname == "dict":
            d = DictVal()
            if e.args:
                inner = argvals[0]
                if isinstance(inner, DictVal):
                    d = inner.copy()
                else:
                    d.open = True
            for k in e.keywords:
                if k.arg is None:
                    inner = kwvals[None]
                    if isinstance(inner, DictVal):
                        d.entries.update(inner.entries)
                        d.origin.update(inner.origin)
                        d.open = d.open or inner.open
                    else:
                        d.open = True
                else:
                    d.entries[k.arg] = kwvals[k.arg]
                    d.origin[k.arg] = k.value
            return d
        if fname in ("signature", "inspect.signature") and e.args:
            a = argvals[0]
            if isinstance(a, FuncRef):
                return ("signature", a.funcs)
            return TOP
        if isinstance(callee, tuple) and callee and callee[0] == "bindmethod":
            return ("bound", callee[1], e, dict(env))
        if fname == "getattr" and len(e.args) >= 2:
            obj, name = argvals[0], argvals[1]
            if isinstance(name, CS) and all(isinstance(n, str) for n in name.vals):
                found: List[Func] = []
                missing = []
                for n in sorted(name.vals):
                    f = self._member(obj, n)
                    if f is None:
                        missing.append(n)
                    else:
                        found.append(f)
                if found and not missing:
                    return FuncRef(tuple(found))
                if found or missing:
                    return ("getattr-partial", tuple(found), tuple(missing), obj)
            return TOP
        if fname == "hasattr" and len(e.args) == 2:
            obj, name = argvals
            if isinstance(name, CS) and isinstance(obj, (ModRef, ClsRef)):
                res = {self._member(obj, n) is not None for n in name.vals}
                return CS(frozenset(res))
            return TOP
        if fname == "isinstance":
            return TOP
        if fname == "len":
            return TOP
        # string methods on constants
        if isinstance(e.func, ast.Attribute):
            recv = self.eval(e.func.value, env)
            if isinstance(recv, CS) and all(isinstance(x, str) for x in recv.vals):
                meth = e.func.attr
                if all(isinstance(a, CS) and len(a.vals) == 1 for a in argvals):
                    args = [a.single for a in argvals]
                    try:
                        return CS(frozenset(getattr(x, meth)(*args) for x in recv.vals))
                    except Exception:
                        return TOP
        return TOP

    def _member(self, obj, name: str) -> Optional[Func]:
        if isinstance(obj, ModRef):
            mod = self.repo.modules.get(obj.name)
            if mod and name in mod.functions:
                return mod.functions[name]
        if isinstance(obj, ClsRef):
            mod = self.repo.modules[obj.module]
            return mod.functions.get(f"{obj.name}.{name}")
        if isinstance(obj, ParamVal) and obj.name == "self" and self.func is not None and self.func.cls:
            return self.func.module.functions.get(f"{self.func.cls}.{name}")
        return None

    # ------------------------------------------------------------------ statements
    def run(self, func: Func, env: Optional[dict] = None, params_as_paramval: bool = True) -> dict:
        """abstractly execute func with the given parameter bindings; returns the final env"""
        self.func = func
        e: dict = {}
        for p in func.named_params:
            e[p] = ParamVal(p) if params_as_paramval else TOP
        a = func.node.args
        if a.vararg:
            e[a.vararg.arg] = TOP
        if a.kwarg:
            e[a.kwarg.arg] = DictVal(open=True)
        # parameter defaults that are constants are NOT assumed (callers may override)
        if env:
            e.update(env)
        out = self.exec_block(func.node.body, e)
        final = out
        for renv in self.return_envs:
            final = join_env(final, renv)
        return final if final is not None else e

    def exec_block(self, stmts: List[ast.stmt], env: Optional[dict]) -> Optional[dict]:
        for st in stmts:
            if env is None:
                return None
            env = self.exec_stmt(st, env)
        return env

    def exec_stmt(self, st: ast.stmt, env: dict) -> Optional[dict]:
        if isinstance(st, ast.Assign):
            v = self.eval(st.value, env)
            env = dict(env)
            for t in st.targets:
                self._assign(t, v, st.value, env)
            return env
        if isinstance(st, ast.AnnAssign):
            env = dict(env)
            if st.value is not None:
                self._assign(st.target, self.eval(st.value, env), st.value, env)
            return env
        if isinstance(st, ast.AugAssign):
            self.eval(st.value, env)
            env = dict(env)
            if isinstance(st.target, ast.Name):
                cur = env.get(st.target.id, TOP)
                val = self.eval(st.value, env)
                if isinstance(st.op, ast.BitOr) and isinstance(cur, DictVal) and isinstance(val, DictVal):
                    d = cur.copy()
                    d.entries.update(val.entries)
                    env[st.target.id] = d
                else:
                    env[st.target.id] = TOP
            return env
        if isinstance(st, ast.Expr):
            self.eval(st.value, env)
            return env
        if isinstance(st, ast.Return):
            self.returns.append(self.eval(st.value, env) if st.value is not None else cs(None))
            self.return_envs.append(dict(env))
            return None
        if isinstance(st, ast.Raise):
            if st.exc is not None:
                self.eval(st.exc, env)
            return None
        if isinstance(st, ast.Delete):
            env = dict(env)
            for t in st.targets:
                if isinstance(t, ast.Subscript) and isinstance(t.value, ast.Name):
                    d = env.get(t.value.id)
                    k = self.eval(t.slice, env)
                    if isinstance(d, DictVal) and isinstance(k, CS) and len(k.vals) == 1:
                        d = d.copy()
                        d.entries.pop(k.single, None)
                        env[t.value.id] = d
                elif isinstance(t, ast.Name):
                    env.pop(t.id, None)
            return env
        if isinstance(st, ast.If):
            t = truth(self.eval(st.test, env))
            if t is True:
                return self.exec_block(st.body, env)
            if t is False:
                return self.exec_block(st.orelse, env)
            a = self.exec_block(st.body, dict(env))
            b = self.exec_block(st.orelse, dict(env))
            return join_env(a, b)
        if isinstance(st, (ast.For, ast.AsyncFor)):
            self.eval(st.iter, env)
            env = dict(env)
            for n in ast.walk(st.target):
                if isinstance(n, ast.Name):
                    env[n.id] = TOP
            once = self.exec_block(st.body, dict(env))
            merged = join_env(env, once)
            twice = self.exec_block(st.body, dict(merged)) if merged is not None else None
            merged = join_env(merged, twice)
            if st.orelse and merged is not None:
                merged = self.exec_block(st.orelse, merged)
            return merged
        if isinstance(st, ast.While):
            self.eval(st.test, env)
            once = self.exec_block(st.body, dict(env))
            merged = join_env(env, once)
            twice = self.exec_block(st.body, dict(merged)) if merged is not None else None
            return join_env(merged, twice)
        if isinstance(st, ast.Try):
            a = self.exec_block(st.body, dict(env))
            if a is not None and st.orelse:
                a = self.exec_block(st.orelse, a)
            outs = a
            for h in st.handlers:
                henv = join_env(dict(env), a) if a is not None else dict(env)
                if h.name:
                    henv[h.name] = TOP
                outs = join_env(outs, self.exec_block(h.body, henv))
            if st.finalbody and outs is not None:
                outs = self.exec_block(st.finalbody, outs)
            return outs
        if isinstance(st, (ast.With, ast.AsyncWith)):
            env = dict(env)
            for item in st.items:
                self.eval(item.context_expr, env)
                if item.optional_vars is not None:
                    for n in ast.walk(item.optional_vars):
                        if isinstance(n, ast.Name):
                            env[n.id] = TOP
            return self.exec_block(st.body, env)
        if isinstance(st, (ast.FunctionDef, ast.AsyncFunctionDef)):
            env = dict(env)
            q = (self.func.qualname + "." if self.func else "") + st.name
            mod = self.func.module if self.func else None
            if mod is not None and q in mod.functions:
                env[st.name] = FuncRef((mod.functions[q],))
            else:
                env[st.name] = TOP
            return env
        if isinstance(st, ast.Assert):
            self.eval(st.test, env)
            return env
        if isinstance(st, (ast.ImportFrom,)):
            env = dict(env)
            if self.func is not None:
                target = self._resolve_import(self.func.module, st)
                for a in st.names:
                    nm = a.asname or a.name
                    tmod = self.repo.modules.get(target) if target is not None else None
                    if tmod is not None and a.name in tmod.functions:
                        env[nm] = FuncRef((tmod.functions[a.name],))
                    else:
                        env[nm] = TOP
            return env
        if isinstance(st, (ast.Pass, ast.Import, ast.Global, ast.Nonlocal, ast.Continue, ast.Break)):
            return env
        if isinstance(st, ast.Match):
            outs = None
            for case in st.cases:
                outs = join_env(outs, self.exec_block(case.body, dict(env)))
            return outs
        return env

    def _assign(self, t: ast.AST, v, value_node, env: dict):
        if isinstance(t, ast.Name):
            env[t.id] = v
        elif isinstance(t, (ast.Tuple, ast.List)):
            for el in t.elts:
                for n in ast.walk(el):
                    if isinstance(n, ast.Name) and isinstance(n.ctx, ast.Store):
                        env[n.id] = Named(n.id, getattr(n, "lineno", 0))
        elif isinstance(t, ast.Subscript) and isinstance(t.value, ast.Name):
            d = env.get(t.value.id)
            k = self.eval(t.slice, env)
            if isinstance(d, DictVal):
                d = d.copy()
                if isinstance(k, CS) and len(k.vals) == 1 and isinstance(k.single, str):
                    d.entries[k.single] = v
                    d.origin[k.single] = value_node
                else:
                    d.open = True
                env[t.value.id] = d


# ---------------------------------------------------------------------- call binding (L1)

@dataclass
class Binding:
    """callee parameter -> (abstract value, actual expression or None)"""
    values: Dict[str, object]
    exprs: Dict[str, Optional[ast.AST]]
    unbound_extra: List[str] = field(default_factory=list)   # keywords that match no parameter
    via: Dict[str, str] = field(default_factory=dict)        # how each parameter was bound
    complete: bool = True                                    # False if an unknown *args/**kwargs was involved
    duplicates: List[tuple] = field(default_factory=list)    # (param, positional actual) also given by keyword


def bind_call(ev: Evaluator, rec: CallRecord, callee: Func, skip_self: Optional[bool] = None,
              call: Optional[ast.Call] = None, env: Optional[dict] = None) -> Binding:
    """Bind the actuals of a call expression to the parameters of ``callee`` through I1-I3."""
    call = call or rec.node
    env = env if env is not None else rec.env
    params = list(callee.named_params)
    b = Binding({}, {})
    saved_func = ev.func
    ev.func = rec.func
    saved_calls = dict(ev._calls)
    try:
        # method call through an instance: drop self
        if skip_self is None:
            skip_self = False
            if params and params[0] in ("self", "cls") and isinstance(call.func, ast.Attribute):
                base = call.func.value
                # Cls.m(...) keeps self explicit; obj.m(...) binds it implicitly
                basev = ev.eval(base, env)
                if not isinstance(basev, (ClsRef, ModRef)):
                    skip_self = True
        pos_params = params[1:] if skip_self else params
        if skip_self:
            b.values[params[0]] = TOP
            b.exprs[params[0]] = call.func.value if isinstance(call.func, ast.Attribute) else None
            b.via[params[0]] = "receiver"
        i = 0
        for a in call.args:
            if isinstance(a, ast.Starred):
                b.complete = False
                break
            if i < len(pos_params):
                p = pos_params[i]
                b.values[p] = ev.eval(a, env)
                b.exprs[p] = a
                b.via[p] = "positional"
            i += 1
        for k in call.keywords:
            if k.arg is not None:
                v = ev.eval(k.value, env)
                if k.arg in params:
                    if b.via.get(k.arg) == "positional":
                        # f(a, b, p=...) where b already landed on p: TypeError "multiple values" at run time
                        b.duplicates.append((k.arg, b.exprs.get(k.arg)))
                    b.values[k.arg] = v
                    b.exprs[k.arg] = k.value
                    b.via[k.arg] = "keyword"
                else:
                    b.unbound_extra.append(k.arg)
            else:
                d = ev.eval(k.value, env)
                if isinstance(d, DictVal):
                    for key, v in d.entries.items():
                        if key in params:
                            if key not in b.values or b.via.get(key) == "**":
                                b.values[key] = v
                                b.exprs[key] = d.origin.get(key)
                                b.via[key] = "**"
                        else:
                            b.unbound_extra.append(key)
                    if d.open:
                        b.complete = False
                else:
                    b.complete = False
    finally:
        ev.func = saved_func
        ev._calls = saved_calls
    return b
