"""Source normalisation applied to every parsed module before any rule runs.

The rules were confirmed, instance by instance, on the functions of the pinned tree.  Two kinds of behaviour-preserving
refactoring change the *shape* a rule looks at without changing what the code does; both are undone here, syntactically and
semantics-preservingly, so that the rules see the shape they were confirmed on:

N1  "extract helper": a private function / method that is NOT in the inventory of functions the framework was validated on
    (gbsa/inventory.json) and whose calls have one of the forms  `T = h(..)`, `h(..)`, `return h(..)`  is inlined at those
    call sites: parameters are substituted by the actuals (or bound to fresh locals), the helper's locals are renamed apart,
    and its `return e` statements become assignments to the call's target (an if/return chain becomes an if/else chain).
    A helper that cannot be inlined soundly (returns inside loops / try, *args, recursion, decorators other than
    staticmethod) is left alone.
N2  `x = a if c else b`  ->  `if c: x = a` / `else: x = b`   (conditional expression on the right-hand side of an assignment).

Nothing else is rewritten; line numbers of the surviving nodes are kept, inlined statements carry the line of the call.
"""
from __future__ import annotations

import ast
import copy
import json
import os
from typing import Dict, List, Optional, Set, Tuple

HERE = os.path.dirname(os.path.abspath(__file__))
_INV: Optional[Set[str]] = None


def inventory() -> Set[str]:
    global _INV
    if _INV is None:
        p = os.path.join(HERE, "inventory.json")
        try:
            with open(p) as fh:
                _INV = set(json.load(fh)["functions"])
        except OSError:
            _INV = set()
    return _INV


# --------------------------------------------------------------------------------------------- N2

class _IfExpAssign(ast.NodeTransformer):
    def visit_Assign(self, node: ast.Assign):
        self.generic_visit(node)
        if isinstance(node.value, ast.IfExp) and len(node.targets) == 1 and isinstance(node.targets[0], (ast.Name, ast.Attribute)):
            v = node.value
            a = ast.Assign(targets=[copy.deepcopy(node.targets[0])], value=v.body, lineno=node.lineno, col_offset=node.col_offset)
            b = ast.Assign(targets=[copy.deepcopy(node.targets[0])], value=v.orelse, lineno=node.lineno, col_offset=node.col_offset)
            new = ast.If(test=v.test, body=[a], orelse=[b], lineno=node.lineno, col_offset=node.col_offset)
            return ast.fix_missing_locations(new)
        return node


# --------------------------------------------------------------------------------------------- N1

def _qualnames(tree: ast.Module, modname: str) -> Dict[str, Tuple[ast.FunctionDef, Optional[str]]]:
    """module-level functions and methods one level deep: qualname -> (node, class name)"""
    out = {}
    for st in tree.body:
        if isinstance(st, ast.FunctionDef):
            out[st.name] = (st, None)
        elif isinstance(st, ast.ClassDef):
            for m in st.body:
                if isinstance(m, ast.FunctionDef):
                    out[f"{st.name}.{m.name}"] = (m, st.name)
    return out


def _simple(e: ast.AST) -> bool:
    return isinstance(e, (ast.Name, ast.Constant)) or (isinstance(e, ast.Attribute) and _simple(e.value))


def _has_bad_return(stmts: List[ast.stmt]) -> bool:
    """a return anywhere but at the tail positions this converter understands"""
    for st in stmts:
        if isinstance(st, (ast.For, ast.While, ast.Try, ast.AsyncFor)):
            if any(isinstance(x, (ast.Return, ast.Yield, ast.YieldFrom)) for x in ast.walk(st)):
                return True
        if isinstance(st, (ast.FunctionDef, ast.ClassDef, ast.AsyncFunctionDef)):
            return True
    return False


def _convert(stmts: List[ast.stmt], emit) -> Optional[List[ast.stmt]]:
    """turn a statement list that ends every path in `return e` into one that ends every path in emit(e);
    None if the shape is not understood"""
    out: List[ast.stmt] = []
    for i, st in enumerate(stmts):
        if isinstance(st, ast.Return):
            out.extend(emit(st.value, st))
            return out
        if isinstance(st, ast.If) and any(isinstance(x, ast.Return) for x in ast.walk(st)):
            rest = stmts[i + 1:]
            body_ends = _ends_in_return(st.body)
            else_ends = _ends_in_return(st.orelse) if st.orelse else False
            if body_ends and else_ends:
                b, o = _convert(st.body, emit), _convert(st.orelse, emit)
                if b is None or o is None:
                    return None
                out.append(ast.If(test=st.test, body=b, orelse=o, lineno=st.lineno, col_offset=0))
                return out              # anything after it is unreachable
            if body_ends and not st.orelse:
                b, o = _convert(st.body, emit), _convert(rest, emit)
                if b is None or o is None:
                    return None
                out.append(ast.If(test=st.test, body=b, orelse=o, lineno=st.lineno, col_offset=0))
                return out
            if body_ends and st.orelse and not else_ends:
                b, o = _convert(st.body, emit), _convert(list(st.orelse) + rest, emit)
                if b is None or o is None:
                    return None
                out.append(ast.If(test=st.test, body=b, orelse=o, lineno=st.lineno, col_offset=0))
                return out
            return None
        if isinstance(st, ast.With) and any(isinstance(x, ast.Return) for x in ast.walk(st)):
            if stmts[i + 1:]:
                return None
            b = _convert(st.body, emit)
            if b is None:
                return None
            out.append(ast.With(items=st.items, body=b, lineno=st.lineno, col_offset=0))
            return out
        out.append(st)
    # falls off the end: implicit `return None`
    out.extend(emit(None, stmts[-1] if stmts else None))
    return out


def _ends_in_return(stmts: List[ast.stmt]) -> bool:
    if not stmts:
        return False
    last = stmts[-1]
    if isinstance(last, (ast.Return, ast.Raise)):
        return True
    if isinstance(last, ast.If) and last.orelse:
        return _ends_in_return(last.body) and _ends_in_return(last.orelse)
    if isinstance(last, ast.With):
        return _ends_in_return(last.body)
    return False


class _Rename(ast.NodeTransformer):
    def __init__(self, names: Dict[str, ast.AST]):
        self.names = names

    def visit_Name(self, node: ast.Name):
        if node.id in self.names:
            rep = self.names[node.id]
            if isinstance(rep, str):
                return ast.copy_location(ast.Name(id=rep, ctx=node.ctx), node)
            if isinstance(node.ctx, ast.Load):
                return ast.copy_location(copy.deepcopy(rep), node)
        return node


def _inline_call(call: ast.Call, helper: ast.FunctionDef, is_method: bool, caller_names: Set[str], emit, tag: str) -> Optional[List[ast.stmt]]:
    a = helper.args
    if a.vararg or a.kwarg or a.posonlyargs or any(isinstance(x, ast.Starred) for x in call.args) \
            or any(k.arg is None for k in call.keywords):
        return None
    static = any(isinstance(d, ast.Name) and d.id == "staticmethod" for d in helper.decorator_list)
    params = [x.arg for x in a.args]
    actuals: Dict[str, ast.AST] = {}
    pos = list(call.args)
    if is_method and not static:
        # self.h(x): the receiver binds the first parameter
        recv = call.func.value if isinstance(call.func, ast.Attribute) else None
        if recv is None or not params:
            return None
        actuals[params[0]] = recv
        rest_params = params[1:]
    else:
        rest_params = params
    if len(pos) > len(rest_params):
        return None
    for p, v in zip(rest_params, pos):
        actuals[p] = v
    for k in call.keywords:
        if k.arg not in params + [x.arg for x in a.kwonlyargs] or k.arg in actuals:
            return None
        actuals[k.arg] = k.value
    defaults = dict(zip(params[len(params) - len(a.defaults):], a.defaults))
    for x, d in zip(a.kwonlyargs, a.kw_defaults):
        if d is not None:
            defaults[x.arg] = d
    for p in params + [x.arg for x in a.kwonlyargs]:
        if p not in actuals:
            if p not in defaults:
                return None
            actuals[p] = defaults[p]
    body = [copy.deepcopy(s) for s in helper.body]
    if body and isinstance(body[0], ast.Expr) and isinstance(body[0].value, ast.Constant) and isinstance(body[0].value.value, str):
        body = body[1:]
    if not body or _has_bad_return(body):
        return None
    stored = {n.id for s in body for n in ast.walk(s) if isinstance(n, ast.Name) and isinstance(n.ctx, ast.Store)}
    ren: Dict[str, object] = {}
    pre: List[ast.stmt] = []
    for p, v in actuals.items():
        if _simple(v) and p not in stored:
            ren[p] = v                      # substituted at every (load) use
        else:
            new = p if (p not in caller_names) else f"{p}__{tag}"
            ren[p] = new
            pre.append(ast.Assign(targets=[ast.Name(id=new, ctx=ast.Store())], value=copy.deepcopy(v),
                                  lineno=call.lineno, col_offset=0))
    for loc in stored:
        if loc not in actuals and loc in caller_names:
            ren[loc] = f"{loc}__{tag}"
    body = [_Rename(ren).visit(s) for s in body]
    conv = _convert(body, emit)
    if conv is None:
        return None
    out = pre + conv
    for s in out:
        for n in ast.walk(s):
            if hasattr(n, "lineno") or isinstance(n, (ast.stmt, ast.expr)):
                n.lineno = call.lineno
                n.end_lineno = getattr(call, "end_lineno", call.lineno)
                n.col_offset = 0
                n.end_col_offset = 0
        ast.fix_missing_locations(s)
    return out


def inline_new_helpers(tree: ast.Module, modname: str) -> List[str]:
    inv = inventory()
    if not inv:
        return []
    funcs = _qualnames(tree, modname)
    new = {}
    for q, (node, cls) in funcs.items():
        if f"{modname}:{q}" in inv or not node.name.startswith("_") or node.name.startswith("__"):
            continue
        decs = [d for d in node.decorator_list if not (isinstance(d, ast.Name) and d.id == "staticmethod")]
        if decs:
            continue
        if any(isinstance(x, ast.Call) and isinstance(x.func, (ast.Name, ast.Attribute))
               and (getattr(x.func, "id", None) == node.name or getattr(x.func, "attr", None) == node.name)
               for x in ast.walk(node)):
            continue                          # recursive
        new[q] = (node, cls)
    if not new:
        return []
    notes: List[str] = []

    def helper_for(call: ast.Call, in_cls: Optional[str]):
        f = call.func
        if isinstance(f, ast.Name) and f.id in new and new[f.id][1] is None:
            return new[f.id][0], False
        if isinstance(f, ast.Attribute) and isinstance(f.value, ast.Name):
            for q, (node, cls) in new.items():
                if cls is not None and node.name == f.attr and (
                        (f.value.id in ("self", "cls") and cls == in_cls) or f.value.id == cls):
                    return node, True
        return None, False

    def rewrite(stmts: List[ast.stmt], caller: ast.FunctionDef, in_cls: Optional[str], counter: List[int]) -> List[ast.stmt]:
        out: List[ast.stmt] = []
        for st in stmts:
            for fld in ("body", "orelse", "finalbody"):
                sub = getattr(st, fld, None)
                if isinstance(sub, list) and sub and isinstance(sub[0], ast.stmt) and not isinstance(st, (ast.FunctionDef, ast.ClassDef)):
                    setattr(st, fld, rewrite(sub, caller, in_cls, counter))
            for h in getattr(st, "handlers", []) or []:
                h.body = rewrite(h.body, caller, in_cls, counter)
            call = None
            if isinstance(st, (ast.Assign, ast.Expr, ast.Return)) and isinstance(st.value, ast.Call):
                call = st.value
            if call is not None:
                helper, is_method = helper_for(call, in_cls)
                if helper is not None and helper is not caller:
                    caller_names = {n.id for n in ast.walk(caller) if isinstance(n, ast.Name)} | {x.arg for x in ast.walk(caller) if isinstance(x, ast.arg)}
                    counter[0] += 1
                    tag = f"inl{counter[0]}"
                    if isinstance(st, ast.Assign):
                        def emit(e, at, _st=st):
                            v = e if e is not None else ast.Constant(value=None)
                            return [ast.Assign(targets=copy.deepcopy(_st.targets), value=v, lineno=_st.lineno, col_offset=0)]
                    elif isinstance(st, ast.Return):
                        def emit(e, at, _st=st):
                            return [ast.Return(value=e, lineno=_st.lineno, col_offset=0)]
                    else:
                        def emit(e, at, _st=st):
                            return [ast.Expr(value=e, lineno=_st.lineno, col_offset=0)] if e is not None and not isinstance(e, ast.Constant) else [ast.Pass(lineno=_st.lineno, col_offset=0)]
                    repl = _inline_call(call, helper, is_method, caller_names, emit, tag)
                    if repl is not None:
                        notes.append(f"{modname}: call of new helper {helper.name} inlined into {caller.name} (line {st.lineno})")
                        out.extend(repl)
                        continue
            out.append(st)
        return out

    counter = [0]
    for q, (node, cls) in funcs.items():
        if q in new:
            continue
        node.body = rewrite(node.body, node, cls, counter)
        # nested functions (closures) one level down
        for sub in ast.walk(node):
            if isinstance(sub, ast.FunctionDef) and sub is not node:
                sub.body = rewrite(sub.body, sub, cls, counter)
    return notes


def normalise(tree: ast.Module, modname: str) -> List[str]:
    if os.environ.get("GBSA_NO_NORMALIZE"):
        return []
    notes = inline_new_helpers(tree, modname)
    _IfExpAssign().visit(tree)
    ast.fix_missing_locations(tree)
    return notes
