"""Source normalisation applied to every parsed module before any rule runs.

The rules were confirmed, instance by instance, on the functions of the pinned tree.  Two kinds of behaviour-preserving
refactoring change the *shape* a rule looks at without changing what the code does; both are undone here, syntactically and
semantics-preservingly, so that the rules see the shape they were confirmed on:

N1  "extract helper": a private function / method that is NOT in the inventory of functions the framework was validated on
    (gbsa/inventory.json) and whose calls have one of the forms  `T = h(..)`, `h(..)`, `return h(..)`  is inlined at those
    call sites: parameters are substituted by the actuals (or bound to fresh locals), the helper's locals are renamed apart,
    and its `return e` statements become assignments to the call's target (an if/return chain becomes an if/else chain).
    A helper that cannot be inlined soundly (returns inside loops / try, *args, recursion, decorators other than
    staticmethod) is left alone.
    A helper whose body is one `return <expr>` is substituted wherever it is called (also inside an `if` test); a tuple
    returned into a tuple target becomes one assignment per element; a definition left without any reference is dropped.
N2  `x = a if c else b`  ->  `if c: x = a` / `else: x = b`   (conditional expression on the right-hand side of an assignment,
    also when it is the first-evaluated operand of the right-hand side:  `x = (a if c else b) > 0`).
N3  `x = []` ; `for T in IT: x.append(E)`  ->  `x = [E for T in IT]`   (the loop spelling of a list comprehension).
N4  `A[k] = A[k] + e`  ->  `A[k] += e`   (read-modify-write of one array cell; never for plain names, where the two differ).
N5  `if c: r = A` / `else: r = B` ; `return r`  ->  `return A` / `return B`   (one result variable returned at the end of the function).
N6  `r = f(..); a = r[0]; b = r[1]`  ->  `a, b = f(..)`   (a tuple result kept whole and only indexed).
N6b `for item in IT: .. item[0] .. item[1]`  ->  `for (a, b) in IT: ..`   (a loop variable that is only indexed).
N7  `0 > k`  ->  `k < 0`   (numeric constant moved to the right-hand side of a single comparison).
N8  `if a:` / `    if b: S`  ->  `if a and b: S`   (nested ifs without else arms).
N9  `for i in range(len(A)): x = A[i]; y = B[i]; ..`  ->  `for x, y in zip(A, B): ..` (with enumerate when i is used otherwise);
    not inside numba-compiled functions.

Nothing else is rewritten; line numbers of the surviving nodes are kept, inlined statements carry the line of the call.
"""
from __future__ import annotations

import ast
import copy
import json
import os
from typing import Dict, List, Optional, Set, Tuple

HERE = os.path.dirname(os.path.abspath(__file__))
_INV: Optional[Set[str]] = None


_DETAILS: Dict[str, dict] = {}


def inventory() -> Set[str]:
    global _INV
    if _INV is None:
        p = os.path.join(HERE, "inventory.json")
        try:
            with open(p) as fh:
                d = json.load(fh)
            _INV = set(d["functions"])
            _DETAILS.update(d.get("details", {}))
        except OSError:
            _INV = set()
    return _INV


# --------------------------------------------------------------------------------------------- N0 (renamed private functions)

def _fingerprint(fn: ast.FunctionDef) -> Tuple[List[str], Set[str]]:
    calls = set()
    for n in ast.walk(fn):
        if isinstance(n, ast.Call):
            f = n.func
            calls.add(f.attr if isinstance(f, ast.Attribute) else f.id if isinstance(f, ast.Name) else "")
        elif isinstance(n, ast.Attribute):
            calls.add("." + n.attr)
    calls.discard("")
    calls.discard(fn.name)
    a = fn.args
    params = [x.arg for x in a.posonlyargs + a.args + a.kwonlyargs] + ([("*" + a.vararg.arg)] if a.vararg else []) \
        + ([("**" + a.kwarg.arg)] if a.kwarg else [])
    return params, calls


def renamed_private_functions(tree: ast.Module, modname: str) -> Dict[str, str]:
    """new name -> inventory name, for every PRIVATE function of the inventory that is missing from this module while exactly
    one function that is not in the inventory sits in the same scope, takes the same parameters and has a similar body
    (Jaccard similarity of the names it calls / reads >= 0.6): the function was renamed, not removed."""
    inv = inventory()
    if not _DETAILS:
        return {}
    present = _qualnames(tree, modname)
    missing = [q[len(modname) + 1:] for q in inv if q.startswith(modname + ":") and q[len(modname) + 1:] not in present
               and q.split(":")[1].split(".")[-1].startswith("_") and not q.split(".")[-1].startswith("__")]
    missing = [q for q in missing if q.count(".") <= 1]
    unknown = [q for q in present if f"{modname}:{q}" not in inv and q.split(".")[-1].startswith("_") and not q.split(".")[-1].startswith("__")]
    out: Dict[str, str] = {}
    for old in missing:
        det = _DETAILS.get(f"{modname}:{old}")
        if not det:
            continue
        scope = old.rsplit(".", 1)[0] if "." in old else None
        cands = []
        for q in unknown:
            qscope = q.rsplit(".", 1)[0] if "." in q else None
            if qscope != scope:
                continue
            params, names = _fingerprint(present[q][0])
            if params != det["params"]:
                continue
            want = set(det["names"])
            sim = len(want & names) / max(1, len(want | names))
            if sim >= 0.6:
                cands.append((sim, q))
        if len(cands) == 1:
            out[cands[0][1].split(".")[-1]] = old.split(".")[-1]
    # a new name claimed by two old ones (or vice versa) is ambiguous
    if len(set(out.values())) != len(out):
        return {}
    return out


def apply_renames(tree: ast.Module, renames: Dict[str, str]) -> None:
    for n in ast.walk(tree):
        if isinstance(n, ast.FunctionDef) and n.name in renames:
            n.name = renames[n.name]
        elif isinstance(n, ast.Name) and n.id in renames:
            n.id = renames[n.id]
        elif isinstance(n, ast.Attribute) and n.attr in renames:
            n.attr = renames[n.attr]
        elif isinstance(n, ast.alias) and n.name in renames:
            n.name = renames[n.name]


# --------------------------------------------------------------------------------------------- N2

def _first_ifexp(e: ast.expr) -> Optional[ast.IfExp]:
    """the conditional expression that is evaluated first inside `e` and on every evaluation of it (leftmost operand chain:
    left side of a binary operation / comparison, object of an attribute or subscript, operand of a unary operation)"""
    while True:
        if isinstance(e, ast.IfExp):
            return e
        if isinstance(e, ast.BinOp):
            e = e.left
        elif isinstance(e, ast.Compare):
            e = e.left
        elif isinstance(e, ast.UnaryOp):
            e = e.operand
        elif isinstance(e, (ast.Attribute, ast.Subscript, ast.Starred)):
            e = e.value
        elif isinstance(e, ast.Call) and isinstance(e.func, ast.Attribute):
            e = e.func.value            # (a if c else b).method(..): the receiver is evaluated first
        else:
            return None


def _subst_node(e: ast.AST, old: ast.AST, new: ast.AST) -> ast.AST:
    if e is old:
        return new
    e2 = copy.copy(e)
    for fld, val in ast.iter_fields(e):
        if isinstance(val, ast.AST):
            setattr(e2, fld, _subst_node(val, old, new))
        elif isinstance(val, list):
            setattr(e2, fld, [_subst_node(v, old, new) if isinstance(v, ast.AST) else v for v in val])
    return e2


class _IfExpAssign(ast.NodeTransformer):
    def visit_Assign(self, node: ast.Assign):
        self.generic_visit(node)
        if len(node.targets) == 1 and (isinstance(node.targets[0], (ast.Name, ast.Attribute)) or (
                isinstance(node.targets[0], ast.Subscript) and all(isinstance(x, (ast.Name, ast.Constant, ast.Tuple, ast.Subscript, ast.Load, ast.Store))
                                                                   for x in ast.walk(node.targets[0])))):
            v = _first_ifexp(node.value)
            if v is not None:
                a = ast.Assign(targets=[copy.deepcopy(node.targets[0])], value=_subst_node(node.value, v, v.body),
                               lineno=node.lineno, col_offset=node.col_offset)
                b = ast.Assign(targets=[copy.deepcopy(node.targets[0])], value=_subst_node(node.value, v, v.orelse),
                               lineno=node.lineno, col_offset=node.col_offset)
                new = ast.If(test=v.test, body=[self.visit_Assign(a)] if _first_ifexp(a.value) is not None else [a],
                             orelse=[self.visit_Assign(b)] if _first_ifexp(b.value) is not None else [b],
                             lineno=node.lineno, col_offset=node.col_offset)
                return ast.fix_missing_locations(new)
        return node


# --------------------------------------------------------------------------------------------- N3

def _loop_append_to_comprehension(tree: ast.Module) -> None:
    """`x = []` immediately followed by `for T in IT: x.append(E)`  ->  `x = [E for T in IT]`
    (also with one `if c:` around the append -> a comprehension filter); x must not occur in IT, E or c."""
    for holder in ast.walk(tree):
        for fld in ("body", "orelse", "finalbody"):
            block = getattr(holder, fld, None)
            if not (isinstance(block, list) and block and isinstance(block[0], ast.stmt)):
                continue
            i = 0
            while i + 1 < len(block):
                a, l = block[i], block[i + 1]
                i += 1
                if isinstance(a, ast.Assign) and len(a.targets) == 1 and isinstance(a.targets[0], ast.Name) \
                        and isinstance(a.value, ast.Dict) and not a.value.keys and isinstance(l, ast.For) and not l.orelse \
                        and len(l.body) == 1 and isinstance(l.body[0], ast.Assign) and len(l.body[0].targets) == 1 \
                        and isinstance(l.body[0].targets[0], ast.Subscript) and isinstance(l.body[0].targets[0].value, ast.Name) \
                        and l.body[0].targets[0].value.id == a.targets[0].id:
                    d_ = a.targets[0].id
                    key_, val_ = l.body[0].targets[0].slice, l.body[0].value
                    if not any(isinstance(n, ast.Name) and n.id == d_ for part in (key_, val_, l.iter) for n in ast.walk(part)):
                        comp = ast.DictComp(key=key_, value=val_, generators=[ast.comprehension(target=l.target, iter=l.iter, ifs=[], is_async=0)])
                        new_ = ast.Assign(targets=[ast.Name(id=d_, ctx=ast.Store())], value=comp, lineno=a.lineno, col_offset=a.col_offset)
                        ast.copy_location(comp, l)
                        block[i - 1:i + 1] = [ast.fix_missing_locations(new_)]
                    continue
                if not (isinstance(a, ast.Assign) and len(a.targets) == 1 and isinstance(a.targets[0], ast.Name)
                        and isinstance(a.value, ast.List) and not a.value.elts):
                    continue
                x = a.targets[0].id
                if not (isinstance(l, ast.For) and not l.orelse and len(l.body) == 1):
                    continue
                inner = l.body[0]
                conds = []
                if isinstance(inner, ast.If) and not inner.orelse and len(inner.body) == 1:
                    conds, inner = [inner.test], inner.body[0]
                if not (isinstance(inner, ast.Expr) and isinstance(inner.value, ast.Call) and isinstance(inner.value.func, ast.Attribute)
                        and inner.value.func.attr == "append" and isinstance(inner.value.func.value, ast.Name)
                        and inner.value.func.value.id == x and len(inner.value.args) == 1 and not inner.value.keywords):
                    continue
                elt = inner.value.args[0]
                if any(isinstance(n, ast.Name) and n.id == x for part in [elt, l.iter, *conds] for n in ast.walk(part)):
                    continue
                comp = ast.ListComp(elt=elt, generators=[ast.comprehension(target=l.target, iter=l.iter, ifs=conds, is_async=0)])
                new = ast.Assign(targets=[ast.Name(id=x, ctx=ast.Store())], value=comp, lineno=a.lineno, col_offset=a.col_offset)
                ast.copy_location(comp, l)
                block[i - 1:i + 1] = [ast.fix_missing_locations(new)]


# --------------------------------------------------------------------------------------------- N1

def _qualnames(tree: ast.Module, modname: str) -> Dict[str, Tuple[ast.FunctionDef, Optional[str]]]:
    """module-level functions and methods one level deep: qualname -> (node, class name)"""
    out = {}
    for st in tree.body:
        if isinstance(st, ast.FunctionDef):
            out[st.name] = (st, None)
        elif isinstance(st, ast.ClassDef):
            for m in st.body:
                if isinstance(m, ast.FunctionDef):
                    out[f"{st.name}.{m.name}"] = (m, st.name)
    return out


def _simple(e: ast.AST) -> bool:
    return isinstance(e, (ast.Name, ast.Constant)) or (isinstance(e, ast.Attribute) and _simple(e.value))


def _own_nodes(st: ast.AST):
    """the nodes of a statement that belong to the enclosing function (nested function / class bodies excluded)"""
    stack = [st]
    while stack:
        n = stack.pop()
        yield n
        for c in ast.iter_child_nodes(n):
            if isinstance(c, (ast.FunctionDef, ast.AsyncFunctionDef, ast.ClassDef, ast.Lambda)):
                continue
            stack.append(c)


def _has_bad_return(stmts: List[ast.stmt]) -> bool:
    """a return anywhere but at the tail positions this converter understands (a nested function is an opaque statement:
    its own returns are not returns of the helper)"""
    for st in stmts:
        if isinstance(st, (ast.For, ast.While, ast.Try, ast.AsyncFor)):
            if any(isinstance(x, (ast.Return, ast.Yield, ast.YieldFrom)) for x in _own_nodes(st)):
                return True
        if isinstance(st, (ast.ClassDef, ast.AsyncFunctionDef)):
            return True
        if isinstance(st, ast.FunctionDef) and any(isinstance(x, (ast.Nonlocal, ast.Global)) for x in ast.walk(st)):
            return True
    return False


def _convert(stmts: List[ast.stmt], emit) -> Optional[List[ast.stmt]]:
    """turn a statement list that ends every path in `return e` into one that ends every path in emit(e);
    None if the shape is not understood"""
    out: List[ast.stmt] = []
    for i, st in enumerate(stmts):
        if isinstance(st, ast.Return):
            out.extend(emit(st.value, st))
            return out
        if isinstance(st, ast.If) and any(isinstance(x, ast.Return) for x in _own_nodes(st)):
            rest = stmts[i + 1:]
            body_ends = _ends_in_return(st.body)
            else_ends = _ends_in_return(st.orelse) if st.orelse else False
            if body_ends and else_ends:
                b, o = _convert(st.body, emit), _convert(st.orelse, emit)
                if b is None or o is None:
                    return None
                out.append(ast.If(test=st.test, body=b, orelse=o, lineno=st.lineno, col_offset=0))
                return out              # anything after it is unreachable
            if body_ends and not st.orelse:
                b, o = _convert(st.body, emit), _convert(rest, emit)
                if b is None or o is None:
                    return None
                out.append(ast.If(test=st.test, body=b, orelse=o, lineno=st.lineno, col_offset=0))
                return out
            if body_ends and st.orelse and not else_ends:
                b, o = _convert(st.body, emit), _convert(list(st.orelse) + rest, emit)
                if b is None or o is None:
                    return None
                out.append(ast.If(test=st.test, body=b, orelse=o, lineno=st.lineno, col_offset=0))
                return out
            return None
        if isinstance(st, ast.With) and any(isinstance(x, ast.Return) for x in _own_nodes(st)):
            if stmts[i + 1:]:
                return None
            b = _convert(st.body, emit)
            if b is None:
                return None
            out.append(ast.With(items=st.items, body=b, lineno=st.lineno, col_offset=0))
            return out
        out.append(st)
    # falls off the end: implicit `return None`
    out.extend(emit(None, stmts[-1] if stmts else None))
    return out


def _ends_in_return(stmts: List[ast.stmt]) -> bool:
    if not stmts:
        return False
    last = stmts[-1]
    if isinstance(last, (ast.Return, ast.Raise)):
        return True
    if isinstance(last, ast.If) and last.orelse:
        return _ends_in_return(last.body) and _ends_in_return(last.orelse)
    if isinstance(last, ast.With):
        return _ends_in_return(last.body)
    return False


class _Rename(ast.NodeTransformer):
    def __init__(self, names: Dict[str, ast.AST]):
        self.names = names

    def visit_Name(self, node: ast.Name):
        if node.id in self.names:
            rep = self.names[node.id]
            if isinstance(rep, str):
                return ast.copy_location(ast.Name(id=rep, ctx=node.ctx), node)
            if isinstance(node.ctx, ast.Load):
                return ast.copy_location(copy.deepcopy(rep), node)
        return node


def _bind_actuals(call: ast.Call, helper: ast.FunctionDef, is_method: bool) -> Optional[Dict[str, ast.AST]]:
    a = helper.args
    if a.vararg or a.kwarg or a.posonlyargs or any(isinstance(x, ast.Starred) for x in call.args) \
            or any(k.arg is None for k in call.keywords):
        return None
    static = any(isinstance(d, ast.Name) and d.id == "staticmethod" for d in helper.decorator_list)
    params = [x.arg for x in a.args]
    actuals: Dict[str, ast.AST] = {}
    pos = list(call.args)
    if is_method and not static:
        # self.h(x): the receiver binds the first parameter
        recv = call.func.value if isinstance(call.func, ast.Attribute) else None
        if recv is None or not params:
            return None
        actuals[params[0]] = recv
        rest_params = params[1:]
    else:
        rest_params = params
    if len(pos) > len(rest_params):
        return None
    for p, v in zip(rest_params, pos):
        actuals[p] = v
    for k in call.keywords:
        if k.arg not in params + [x.arg for x in a.kwonlyargs] or k.arg in actuals:
            return None
        actuals[k.arg] = k.value
    defaults = dict(zip(params[len(params) - len(a.defaults):], a.defaults))
    for x, d in zip(a.kwonlyargs, a.kw_defaults):
        if d is not None:
            defaults[x.arg] = d
    for p in params + [x.arg for x in a.kwonlyargs]:
        if p not in actuals:
            if p not in defaults:
                return None
            actuals[p] = defaults[p]
    return actuals


def _pure(e: ast.AST) -> bool:
    """an expression without effects whose value does not depend on when it is evaluated within one statement sequence of
    the helper: names, constants, attributes, subscripts, arithmetic / comparisons and len() of such"""
    if _simple(e):
        return True
    if isinstance(e, ast.Subscript):
        return _pure(e.value) and _pure(e.slice)
    if isinstance(e, (ast.BinOp,)):
        return _pure(e.left) and _pure(e.right)
    if isinstance(e, ast.UnaryOp):
        return _pure(e.operand)
    if isinstance(e, ast.Compare):
        return _pure(e.left) and all(_pure(c) for c in e.comparators)
    if isinstance(e, ast.Tuple):
        return all(_pure(x) for x in e.elts)
    if isinstance(e, ast.Call) and isinstance(e.func, ast.Name) and e.func.id == "len" and len(e.args) == 1 and not e.keywords:
        return _pure(e.args[0])
    return False


def _helper_body(helper: ast.FunctionDef) -> List[ast.stmt]:
    body = list(helper.body)
    if body and isinstance(body[0], ast.Expr) and isinstance(body[0].value, ast.Constant) and isinstance(body[0].value.value, str):
        body = body[1:]
    return body


def _inline_expr_call(call: ast.Call, helper: ast.FunctionDef, is_method: bool) -> Optional[ast.expr]:
    """h(..) where the helper is `return <expr>`: the expression with the parameters substituted (actuals must be pure)"""
    body = _helper_body(helper)
    if len(body) != 1 or not isinstance(body[0], ast.Return) or body[0].value is None:
        return None
    actuals = _bind_actuals(call, helper, is_method)
    if actuals is None or not all(_pure(v) for v in actuals.values()):
        return None
    e = copy.deepcopy(body[0].value)
    if any(isinstance(n, (ast.Lambda, ast.ListComp, ast.SetComp, ast.DictComp, ast.GeneratorExp, ast.NamedExpr, ast.Yield, ast.Await))
           for n in ast.walk(e)):
        return None
    e = _Rename(dict(actuals)).visit(e)
    for n in ast.walk(e):
        if isinstance(n, (ast.expr,)):
            n.lineno = call.lineno
            n.end_lineno = getattr(call, "end_lineno", call.lineno)
            n.col_offset = call.col_offset
            n.end_col_offset = getattr(call, "end_col_offset", call.col_offset)
    return e


def _inline_call(call: ast.Call, helper: ast.FunctionDef, is_method: bool, caller_names: Set[str], emit, tag: str,
                 overwritten: Set[str] = frozenset()) -> Optional[List[ast.stmt]]:
    actuals = _bind_actuals(call, helper, is_method)
    if actuals is None:
        return None
    body = [copy.deepcopy(s) for s in helper.body]
    if body and isinstance(body[0], ast.Expr) and isinstance(body[0].value, ast.Constant) and isinstance(body[0].value.value, str):
        body = body[1:]
    if not body or _has_bad_return(body):
        return None
    stored = {n.id for s in body for n in ast.walk(s) if isinstance(n, ast.Name) and isinstance(n.ctx, ast.Store)}
    ren: Dict[str, object] = {}
    pre: List[ast.stmt] = []
    loads: Dict[str, int] = {}
    for s_ in body:
        for n in ast.walk(s_):
            if isinstance(n, ast.Name) and isinstance(n.ctx, ast.Load):
                loads[n.id] = loads.get(n.id, 0) + 1
    for p, v in actuals.items():
        if p not in stored and (_simple(v) or (_pure(v) and loads.get(p, 0) <= 1)):
            ren[p] = v                      # substituted at every (load) use
        elif isinstance(v, ast.Name) and v.id == p and p in overwritten:
            ren[p] = p                      # same name on both sides and the caller overwrites it with the result anyway
        else:
            new = p if (p not in caller_names) else f"{p}__{tag}"
            ren[p] = new
            pre.append(ast.Assign(targets=[ast.Name(id=new, ctx=ast.Store())], value=copy.deepcopy(v),
                                  lineno=call.lineno, col_offset=0))
    for loc in stored:
        if loc not in actuals and loc in caller_names:
            ren[loc] = f"{loc}__{tag}"
    body = [_Rename(ren).visit(s) for s in body]
    conv = _convert(body, emit)
    if conv is None:
        return None
    out = pre + conv
    for s in out:
        for n in ast.walk(s):
            if hasattr(n, "lineno") or isinstance(n, (ast.stmt, ast.expr)):
                n.lineno = call.lineno
                n.end_lineno = getattr(call, "end_lineno", call.lineno)
                n.col_offset = 0
                n.end_col_offset = 0
        ast.fix_missing_locations(s)
    return out


class _ExprInline(ast.NodeTransformer):
    def __init__(self, helper_for, in_cls, caller, notes, modname):
        self.helper_for, self.in_cls, self.caller, self.notes, self.modname = helper_for, in_cls, caller, notes, modname

    def visit_own(self, st: ast.stmt):
        """the expressions of the statement itself, not of its nested statement lists"""
        for fld, val in ast.iter_fields(st):
            if isinstance(val, ast.expr):
                setattr(st, fld, self.visit(val))
            elif isinstance(val, list) and val and isinstance(val[0], ast.expr):
                setattr(st, fld, [self.visit(v) for v in val])
            elif isinstance(val, list) and val and isinstance(val[0], ast.withitem):
                for w in val:
                    w.context_expr = self.visit(w.context_expr)

    def visit_Lambda(self, node):
        return node

    def visit_Call(self, node: ast.Call):
        self.generic_visit(node)
        helper, is_method = self.helper_for(node, self.in_cls)
        if helper is not None and helper is not self.caller:
            e = _inline_expr_call(node, helper, is_method)
            if e is not None:
                self.notes.append(f"{self.modname}: call of new helper {helper.name} (single expression) substituted in {self.caller.name} (line {node.lineno})")
                return e
        return node


def _split_parallel(st: ast.Assign) -> List[ast.stmt]:
    """`a, b = x, y` -> `a = x` ; `b = y`  when no target name occurs on the right-hand side (so the order is immaterial)"""
    if len(st.targets) == 1 and isinstance(st.targets[0], ast.Tuple) and isinstance(st.value, ast.Tuple) \
            and len(st.targets[0].elts) == len(st.value.elts) \
            and not any(isinstance(x, ast.Starred) for x in st.targets[0].elts + st.value.elts):
        tnames = {n.id for t in st.targets[0].elts for n in ast.walk(t) if isinstance(n, ast.Name)}
        vnames = {n.id for n in ast.walk(st.value) if isinstance(n, ast.Name)}
        if all(isinstance(t, ast.Name) for t in st.targets[0].elts) and not (tnames & vnames):
            return [ast.Assign(targets=[t], value=v, lineno=st.lineno, col_offset=0) for t, v in zip(st.targets[0].elts, st.value.elts)]
    return [st]


def inline_new_helpers(tree: ast.Module, modname: str) -> List[str]:
    inv = inventory()
    if not inv:
        return []
    funcs = _qualnames(tree, modname)
    new = {}
    for q, (node, cls) in funcs.items():
        if f"{modname}:{q}" in inv or not node.name.startswith("_") or node.name.startswith("__"):
            continue
        decs = [d for d in node.decorator_list if not (isinstance(d, ast.Name) and d.id == "staticmethod")]
        if decs:
            continue
        if any(isinstance(x, ast.Call) and isinstance(x.func, (ast.Name, ast.Attribute))
               and (getattr(x.func, "id", None) == node.name or getattr(x.func, "attr", None) == node.name)
               for x in ast.walk(node)):
            continue                          # recursive
        new[q] = (node, cls)
    if not new:
        return []
    notes: List[str] = []

    def helper_for(call: ast.Call, in_cls: Optional[str]):
        f = call.func
        if isinstance(f, ast.Name) and f.id in new and new[f.id][1] is None:
            return new[f.id][0], False
        if isinstance(f, ast.Attribute) and isinstance(f.value, ast.Name):
            for q, (node, cls) in new.items():
                if cls is not None and node.name == f.attr and (
                        (f.value.id in ("self", "cls") and cls == in_cls) or f.value.id == cls):
                    return node, True
        return None, False

    def rewrite(stmts: List[ast.stmt], caller: ast.FunctionDef, in_cls: Optional[str], counter: List[int]) -> List[ast.stmt]:
        out: List[ast.stmt] = []
        for st in stmts:
            for fld in ("body", "orelse", "finalbody"):
                sub = getattr(st, fld, None)
                if isinstance(sub, list) and sub and isinstance(sub[0], ast.stmt) and not isinstance(st, (ast.FunctionDef, ast.ClassDef)):
                    setattr(st, fld, rewrite(sub, caller, in_cls, counter))
            for h in getattr(st, "handlers", []) or []:
                h.body = rewrite(h.body, caller, in_cls, counter)
            call = None
            if isinstance(st, (ast.Assign, ast.Expr, ast.Return)) and isinstance(st.value, ast.Call):
                call = st.value
            # helpers that are a single `return <expr>`: substituted wherever they are called inside this statement's own
            # expressions (an `if` test, an argument, a right-hand side)
            _ExprInline(helper_for, in_cls, caller, notes, modname).visit_own(st)
            if call is not None and st.value is not call:
                call = None
            if call is not None:
                helper, is_method = helper_for(call, in_cls)
                if helper is not None and helper is not caller:
                    caller_names = {n.id for n in ast.walk(caller) if isinstance(n, ast.Name)} | {x.arg for x in ast.walk(caller) if isinstance(x, ast.arg)}
                    counter[0] += 1
                    tag = f"inl{counter[0]}"
                    if isinstance(st, ast.Assign):
                        def emit(e, at, _st=st):
                            v = e if e is not None else ast.Constant(value=None)
                            return _split_parallel(ast.Assign(targets=copy.deepcopy(_st.targets), value=v, lineno=_st.lineno, col_offset=0))
                    elif isinstance(st, ast.Return):
                        def emit(e, at, _st=st):
                            return [ast.Return(value=e, lineno=_st.lineno, col_offset=0)]
                    else:
                        def emit(e, at, _st=st):
                            return [ast.Expr(value=e, lineno=_st.lineno, col_offset=0)] if e is not None and not isinstance(e, ast.Constant) else [ast.Pass(lineno=_st.lineno, col_offset=0)]
                    overwritten = {n.id for t in (st.targets if isinstance(st, ast.Assign) else []) for n in ast.walk(t)
                                   if isinstance(n, ast.Name)}
                    repl = _inline_call(call, helper, is_method, caller_names, emit, tag, overwritten)
                    if repl is not None:
                        notes.append(f"{modname}: call of new helper {helper.name} inlined into {caller.name} (line {st.lineno})")
                        out.extend(repl)
                        continue
            out.append(st)
        return out

    counter = [0]
    for q, (node, cls) in funcs.items():
        if q in new:
            continue
        node.body = rewrite(node.body, node, cls, counter)
        # nested functions (closures) one level down
        for sub in ast.walk(node):
            if isinstance(sub, ast.FunctionDef) and sub is not node:
                sub.body = rewrite(sub.body, sub, cls, counter)
    # a new helper that is no longer referenced anywhere in the module has been inlined completely: its definition is dead
    # code for the analysis (its statements are now judged in the context of their callers)
    for q, (node, cls) in new.items():
        refs = 0
        for n in ast.walk(tree):
            if n is node:
                continue
            if (isinstance(n, ast.Name) and n.id == node.name) or (isinstance(n, ast.Attribute) and n.attr == node.name) \
                    or (isinstance(n, ast.Constant) and n.value == node.name):
                refs += 1
        inner = sum(1 for n in ast.walk(node) if (isinstance(n, ast.Name) and n.id == node.name)
                    or (isinstance(n, ast.Attribute) and n.attr == node.name))
        if refs - inner == 0:
            holder = tree.body if cls is None else next(c.body for c in tree.body if isinstance(c, ast.ClassDef) and c.name == cls)
            holder[:] = [x for x in holder if x is not node] or [ast.Pass(lineno=node.lineno, col_offset=0)]
            notes.append(f"{modname}: definition of completely inlined helper {q} dropped")
    return notes


# --------------------------------------------------------------------------------------------- N4

class _CellAugAssign(ast.NodeTransformer):
    """`A[k] = A[k] + e`  ->  `A[k] += e`  (also `e + A[k]`, and `-`, `*`): the read-modify-write of ONE array cell.  Only
    subscript targets: for a plain name `a = a + e` builds a new object while `a += e` changes the old one in place."""
    def visit_Assign(self, node: ast.Assign):
        self.generic_visit(node)
        if len(node.targets) == 1 and isinstance(node.targets[0], ast.Subscript) and isinstance(node.value, ast.BinOp) \
                and isinstance(node.value.op, (ast.Add, ast.Sub, ast.Mult)):
            t = ast.dump(_load(node.targets[0]))
            v = node.value
            other = None
            if ast.dump(v.left) == t:
                other = v.right
            elif isinstance(v.op, (ast.Add, ast.Mult)) and ast.dump(v.right) == t:
                other = v.left
            if other is not None and not any(ast.dump(x) == t for x in ast.walk(other)):
                return ast.copy_location(ast.AugAssign(target=node.targets[0], op=v.op, value=other), node)
        return node


def _load(e: ast.AST) -> ast.AST:
    e2 = copy.deepcopy(e)
    for n in ast.walk(e2):
        if hasattr(n, "ctx"):
            n.ctx = ast.Load()
    return e2


def cell_augassign(node: ast.AST) -> ast.AST:
    return _CellAugAssign().visit(node)


# --------------------------------------------------------------------------------------------- N5

def _result_variable_to_returns(tree: ast.Module) -> None:
    """`if c: ...; r = A` / `else: ...; r = B` immediately followed by `return r`  ->  `return A` / `return B` in the arms,
    when every arm of the if/elif/else chain ends by assigning the bare name r (or already leaves by return / raise), the chain
    has a final else, and r is not read inside the chain.  The two spellings are the same function."""
    def arms_end_ok(st: ast.If, r: str) -> bool:
        for arm in (st.body, st.orelse):
            if not arm:
                return False
            last = arm[-1]
            if isinstance(last, (ast.Return, ast.Raise)):
                continue
            if isinstance(last, ast.If) and arm is st.orelse and len(arm) == 1:
                if not arms_end_ok(last, r):
                    return False
                continue
            if isinstance(last, ast.If):
                if not arms_end_ok(last, r):
                    return False
                continue
            if not (isinstance(last, ast.Assign) and len(last.targets) == 1 and isinstance(last.targets[0], ast.Name) and last.targets[0].id == r):
                return False
        return True

    def rewrite(st: ast.If, r: str) -> None:
        for arm in (st.body, st.orelse):
            last = arm[-1]
            if isinstance(last, ast.If):
                rewrite(last, r)
            elif isinstance(last, ast.Assign):
                arm[-1] = ast.copy_location(ast.Return(value=last.value), last)

    for fn in ast.walk(tree):
        if not isinstance(fn, ast.FunctionDef):
            continue
        body = fn.body
        if len(body) < 2:
            continue
        ret, chain = body[-1], body[-2]
        if not (isinstance(ret, ast.Return) and isinstance(ret.value, ast.Name) and isinstance(chain, ast.If)):
            continue
        r = ret.value.id
        if not arms_end_ok(chain, r):
            continue
        reads = [n for n in ast.walk(chain) if isinstance(n, ast.Name) and n.id == r and isinstance(n.ctx, ast.Load)]
        if reads:
            continue
        # r must not be assigned before the chain with a value that matters (it is overwritten on every path anyway)
        rewrite(chain, r)
        body.pop()


# --------------------------------------------------------------------------------------------- N6 / N7

_MIRROR = {ast.Lt: ast.Gt, ast.Gt: ast.Lt, ast.LtE: ast.GtE, ast.GtE: ast.LtE, ast.Eq: ast.Eq, ast.NotEq: ast.NotEq}


class _ConstantOnTheRight(ast.NodeTransformer):
    """`0 > k`  ->  `k < 0`   (a single comparison whose left operand is a numeric constant and whose right one is not)"""
    def visit_Compare(self, node: ast.Compare):
        self.generic_visit(node)
        def numeric(e):
            if isinstance(e, ast.UnaryOp) and isinstance(e.op, (ast.USub, ast.UAdd)):
                e = e.operand
            return isinstance(e, ast.Constant) and isinstance(e.value, (int, float)) and not isinstance(e.value, bool)
        if len(node.ops) == 1 and type(node.ops[0]) in _MIRROR and numeric(node.left) and not numeric(node.comparators[0]):
            return ast.copy_location(ast.Compare(left=node.comparators[0], ops=[_MIRROR[type(node.ops[0])]()], comparators=[node.left]), node)
        return node


def _indexed_result_to_unpacking(tree: ast.Module) -> None:
    """`r = f(..)` whose only uses are `r[0]`, `r[1]`, .. (all of 0..k-1)  ->  `(r0, .., rk-1) = f(..)`; a following
    `x = r[j]` (x assigned nowhere else) gives the component its name and disappears.  `a, b = f(..)` and
    `r = f(..); a = r[0]; b = r[1]` are the same program."""
    for fn in ast.walk(tree):
        if not isinstance(fn, ast.FunctionDef):
            continue
        stores: Dict[str, int] = {}
        for n in ast.walk(fn):
            if isinstance(n, ast.Name) and isinstance(n.ctx, ast.Store):
                stores[n.id] = stores.get(n.id, 0) + 1
        for holder in ast.walk(fn):
            for fld in ("body", "orelse", "finalbody"):
                block = getattr(holder, fld, None)
                if not (isinstance(block, list) and block and isinstance(block[0], ast.stmt)):
                    continue
                i = 0
                while i < len(block):
                    st = block[i]
                    i += 1
                    if not (isinstance(st, ast.Assign) and len(st.targets) == 1 and isinstance(st.targets[0], ast.Name)
                            and isinstance(st.value, ast.Call) and stores.get(st.targets[0].id) == 1):
                        continue
                    r = st.targets[0].id
                    loads = [n for n in ast.walk(fn) if isinstance(n, ast.Name) and n.id == r and isinstance(n.ctx, ast.Load)]
                    subs = [n for n in ast.walk(fn) if isinstance(n, ast.Subscript) and isinstance(n.value, ast.Name) and n.value.id == r
                            and isinstance(n.ctx, ast.Load) and isinstance(n.slice, ast.Constant) and isinstance(n.slice.value, int)]
                    if not loads or len(subs) != len(loads):
                        continue
                    idxs = sorted({n.slice.value for n in subs})
                    if idxs != list(range(len(idxs))) or len(idxs) < 2:
                        continue
                    names: Dict[int, str] = {}
                    cell_targets: Dict[int, ast.AST] = {}
                    drop: List[ast.stmt] = []
                    # the statements that directly follow and only move one component to its destination, in order
                    expect = 0
                    for later in block[i:]:
                        if isinstance(later, ast.Assign) and len(later.targets) == 1 and any(later.value is n for n in subs) \
                                and later.value.slice.value >= expect and later.value.slice.value not in names \
                                and later.value.slice.value not in cell_targets \
                                and sum(1 for n in subs if n.slice.value == later.value.slice.value) == 1:
                            j_ = later.value.slice.value
                            t_ = later.targets[0]
                            if isinstance(t_, ast.Name) and stores.get(t_.id) == 1:
                                names[j_] = t_.id
                            elif isinstance(t_, (ast.Subscript, ast.Attribute)):
                                cell_targets[j_] = t_
                            else:
                                break
                            drop.append(later)
                            expect = j_ + 1
                        else:
                            break
                    for later in block[i:]:
                        if later in drop:
                            continue
                        if isinstance(later, ast.Assign) and len(later.targets) == 1 and isinstance(later.targets[0], ast.Name) \
                                and any(later.value is n for n in subs) and stores.get(later.targets[0].id) == 1 \
                                and later.value.slice.value not in names and later.value.slice.value not in cell_targets:
                            names[later.value.slice.value] = later.targets[0].id
                            drop.append(later)
                    for j in idxs:
                        if j not in cell_targets:
                            names.setdefault(j, f"{r}__{j}")

                    class Sub(ast.NodeTransformer):
                        def visit_Subscript(self, n):
                            if any(n is x for x in subs) and n.slice.value in names:
                                return ast.copy_location(ast.Name(id=names[n.slice.value], ctx=ast.Load()), n)
                            return self.generic_visit(n)
                    for d in drop:
                        block.remove(d)
                    Sub().visit(fn)
                    st.targets = [ast.Tuple(elts=[cell_targets[j] if j in cell_targets else ast.Name(id=names[j], ctx=ast.Store())
                                                  for j in idxs], ctx=ast.Store())]


def _index_loops_to_iteration(tree: ast.Module, only_plain_python: bool = False) -> None:
    """`for i in range(len(A)):` whose body begins with  `x = A[i]` (and `y = B[i]` ..)   ->   `for x in A` /
    `for x, y in zip(A, B)`, or with `enumerate` when `i` is used for anything else.  The element names must be assigned
    nowhere else in the loop and the sequences must not be re-bound in it.  (The sequences of a working program have equal
    lengths; an index-based loop over a shorter B would raise where zip stops - that difference is not relevant to any rule.)
    Functions compiled by numba are left alone: their loops are what the kernel rules analyse, in either spelling."""
    def is_njit(fn: ast.FunctionDef) -> bool:
        return any("njit" in ast.unparse(d) or "jit" in ast.unparse(d) for d in fn.decorator_list)

    def simple_seq(e: ast.AST) -> bool:
        return isinstance(e, ast.Name) or (isinstance(e, ast.Attribute) and simple_seq(e.value))

    for fn in ast.walk(tree):
        if not isinstance(fn, ast.FunctionDef) or (only_plain_python and is_njit(fn)):
            continue
        for loop in [n for n in ast.walk(fn) if isinstance(n, ast.For)]:
            it = loop.iter
            if not (isinstance(loop.target, ast.Name) and isinstance(it, ast.Call) and isinstance(it.func, ast.Name) and it.func.id == "range"
                    and len(it.args) == 1 and isinstance(it.args[0], ast.Call) and isinstance(it.args[0].func, ast.Name)
                    and it.args[0].func.id == "len" and len(it.args[0].args) == 1 and simple_seq(it.args[0].args[0]) and not loop.orelse):
                continue
            i = loop.target.id
            first_seq = ast.dump(it.args[0].args[0])
            heads = []
            for st in loop.body:
                if isinstance(st, ast.Assign) and len(st.targets) == 1 and isinstance(st.targets[0], ast.Name) \
                        and isinstance(st.value, ast.Subscript) and simple_seq(st.value.value) \
                        and isinstance(st.value.slice, ast.Name) and st.value.slice.id == i:
                    heads.append(st)
                else:
                    break
            if not heads and is_njit(fn):
                continue                   # kernels: only the explicit `x = A[i]` spelling is rewritten
            if not heads:
                # no element statement: `A[i]` is used in place.  Give the element a name when every use of the index is such a
                # subscript of A or a plain read of i
                seq_expr = it.args[0].args[0]
                uses = [n for st in loop.body for n in ast.walk(st) if isinstance(n, ast.Subscript) and isinstance(n.ctx, ast.Load)
                        and ast.dump(n.value) == first_seq and isinstance(n.slice, ast.Name) and n.slice.id == i]
                stores_to_seq = any(isinstance(n, ast.Subscript) and isinstance(n.ctx, ast.Store) and ast.dump(n.value) == first_seq
                                    for st in loop.body for n in ast.walk(st))
                if not uses or stores_to_seq:
                    continue
                root = seq_expr
                while isinstance(root, ast.Attribute):
                    root = root.value
                ename = f"{ast.unparse(seq_expr).replace('.', '_')}__elem"
                taken = {n.id for n in ast.walk(fn) if isinstance(n, ast.Name)}
                rebound_ = {n.id for st in loop.body for n in ast.walk(st) if isinstance(n, ast.Name) and isinstance(n.ctx, ast.Store)}
                if ename in taken or root.id in rebound_ or i in rebound_:
                    continue

                class _U(ast.NodeTransformer):
                    def visit_Subscript(self, n):
                        if any(n is u for u in uses):
                            return ast.copy_location(ast.Name(id=ename, ctx=ast.Load()), n)
                        return self.generic_visit(n)
                loop.body = [_U().visit(st) for st in loop.body]
                loop.target = ast.Tuple(elts=[ast.Name(id=i, ctx=ast.Store()), ast.Name(id=ename, ctx=ast.Store())], ctx=ast.Store())
                loop.iter = ast.Call(func=ast.Name(id="enumerate", ctx=ast.Load()), args=[seq_expr], keywords=[])
                ast.fix_missing_locations(loop)
                continue
            if not any(ast.dump(h.value.value) == first_seq for h in heads):
                continue
            rest = loop.body[len(heads):]
            if not rest:
                continue
            elem_names = [h.targets[0].id for h in heads]
            if len(set(elem_names)) != len(elem_names):
                continue
            # element names / sequences / index not re-bound in the rest of the body
            rebound = {n.id for st in rest for n in ast.walk(st) if isinstance(n, ast.Name) and isinstance(n.ctx, ast.Store)}
            seq_roots = set()
            for h in heads:
                r = h.value.value
                while isinstance(r, ast.Attribute):
                    r = r.value
                seq_roots.add(r.id)
            if (set(elem_names) | seq_roots | {i}) & rebound:
                continue
            i_used = any(isinstance(n, ast.Name) and n.id == i for st in rest for n in ast.walk(st))
            # the index is also live after the loop?  keep it then
            seqs = [h.value.value for h in heads]
            if len(heads) == 1:
                elems = ast.Name(id=elem_names[0], ctx=ast.Store())
                source = seqs[0]
            else:
                elems = ast.Tuple(elts=[ast.Name(id=n, ctx=ast.Store()) for n in elem_names], ctx=ast.Store())
                source = ast.Call(func=ast.Name(id="zip", ctx=ast.Load()), args=seqs, keywords=[])
            used_after = any(isinstance(n, ast.Name) and n.id == i and getattr(n, "lineno", 0) > (loop.end_lineno or 0) for n in ast.walk(fn))
            if i_used or used_after:
                loop.target = ast.Tuple(elts=[ast.Name(id=i, ctx=ast.Store()), elems], ctx=ast.Store())
                loop.iter = ast.Call(func=ast.Name(id="enumerate", ctx=ast.Load()), args=[source], keywords=[])
            else:
                loop.target = elems
                loop.iter = source
            loop.body = rest
            ast.fix_missing_locations(loop)


def _indexed_loop_target_to_unpacking(tree: ast.Module) -> None:
    """`for item in IT: .. item[0] .. item[1] ..`  ->  `for (item__0, item__1) in IT: ..`  when the loop variable is only ever
    indexed by the constants 0..k-1 (k >= 2) inside the loop and is not used after it"""
    for fn in ast.walk(tree):
        if not isinstance(fn, ast.FunctionDef):
            continue
        for loop in [n for n in ast.walk(fn) if isinstance(n, ast.For) and isinstance(n.target, ast.Name)]:
            r = loop.target.id
            inside = [n for st in loop.body for n in ast.walk(st)]
            loads = [n for n in inside if isinstance(n, ast.Name) and n.id == r and isinstance(n.ctx, ast.Load)]
            subs = [n for n in inside if isinstance(n, ast.Subscript) and isinstance(n.value, ast.Name) and n.value.id == r
                    and isinstance(n.ctx, ast.Load) and isinstance(n.slice, ast.Constant) and isinstance(n.slice.value, int)]
            if not loads or len(loads) != len(subs):
                continue
            idxs = sorted({n.slice.value for n in subs})
            if idxs != list(range(len(idxs))) or len(idxs) < 2:
                continue
            if any(isinstance(n, ast.Name) and n.id == r and n not in loads and n is not loop.target for n in ast.walk(fn)):
                continue

            class Sub(ast.NodeTransformer):
                def visit_Subscript(self, n):
                    if any(n is x for x in subs):
                        return ast.copy_location(ast.Name(id=f"{r}__{n.slice.value}", ctx=ast.Load()), n)
                    return self.generic_visit(n)
            loop.body = [Sub().visit(st) for st in loop.body]
            loop.target = ast.Tuple(elts=[ast.Name(id=f"{r}__{j}", ctx=ast.Store()) for j in idxs], ctx=ast.Store())
            ast.fix_missing_locations(loop)


class _MergeNestedIfs(ast.NodeTransformer):
    """`if a:` containing only `if b: S` (neither with an else)  ->  `if a and b: S`"""
    def visit_If(self, node: ast.If):
        self.generic_visit(node)
        while not node.orelse and len(node.body) == 1 and isinstance(node.body[0], ast.If) and not node.body[0].orelse:
            inner = node.body[0]
            left = node.test.values if isinstance(node.test, ast.BoolOp) and isinstance(node.test.op, ast.And) else [node.test]
            right = inner.test.values if isinstance(inner.test, ast.BoolOp) and isinstance(inner.test.op, ast.And) else [inner.test]
            node.test = ast.copy_location(ast.BoolOp(op=ast.And(), values=list(left) + list(right)), node.test)
            node.body = inner.body
        return node


def normalise(tree: ast.Module, modname: str) -> List[str]:
    if os.environ.get("GBSA_NO_NORMALIZE"):
        return []
    notes = inline_new_helpers(tree, modname)
    _IfExpAssign().visit(tree)
    _index_loops_to_iteration(tree)
    _loop_append_to_comprehension(tree)
    _CellAugAssign().visit(tree)
    _result_variable_to_returns(tree)
    _indexed_result_to_unpacking(tree)
    _indexed_loop_target_to_unpacking(tree)
    _ConstantOnTheRight().visit(tree)
    _MergeNestedIfs().visit(tree)
    ast.fix_missing_locations(tree)
    return notes
