"""M rules: merging of partial results, parallel map order, splitters, pointer offsets."""
from __future__ import annotations

import ast
from typing import Dict, List, Optional, Set, Tuple

from .model import AnalysisError, Func, Repo, attr_chain, call_name, norm, walk_no_nested
from .report import RuleResult


# ------------------------------------------------------------------ name-based reachability

def reachable_functions(repo: Repo, roots: List[Func]) -> Set[Func]:
    """over-approximate call graph: a function is reachable if its simple name is mentioned
    (as a Name, an attribute or inside a getattr f-string prefix) in a reachable function."""
    by_name: Dict[str, List[Func]] = {}
    for f in repo.all_functions():
        by_name.setdefault(f.name, []).append(f)
    seen: Set[Func] = set()
    work = list(roots)
    while work:
        f = work.pop()
        if f in seen:
            continue
        seen.add(f)
        mentioned: Set[str] = set()
        for n in ast.walk(f.node):
            if isinstance(n, ast.Name):
                mentioned.add(n.id)
            elif isinstance(n, ast.Attribute):
                mentioned.add(n.attr)
            elif isinstance(n, ast.JoinedStr):
                pre = "".join(v.value for v in n.values if isinstance(v, ast.Constant) and isinstance(v.value, str))
                if pre:
                    for nm in by_name:
                        if nm.startswith(pre):
                            mentioned.add(nm)
            elif isinstance(n, ast.Constant) and isinstance(n.value, str) and n.value in by_name:
                mentioned.add(n.value)
        # decorators of nested classes etc. are ignored
        for nm in mentioned:
            for g in by_name.get(nm, []):
                if g not in seen:
                    work.append(g)
    return seen


def api_roots(repo: Repo) -> List[Func]:
    roots: List[Func] = []
    core = repo.mod("groupby.core")
    for name, f in core.methods("GroupBy").items():
        if not name.startswith("_") or name in ("__init__", "__len__"):
            roots.append(f)
    for q in ("crosstab", "value_counts"):
        if q in core.functions:
            roots.append(core.functions[q])
    nb = repo.mod("groupby.numba")
    # the array-level API the properties name: group_*, rolling_*, cum*, find_*_n
    for q, f in nb.functions.items():
        if "." not in q and q.startswith(("group_", "rolling_", "cum", "find_")):
            roots.append(f)
    for modname in ("emas", "nanops", "util", "groupby.api", "groupby.monkey_patch", "groupby.factorization"):
        m = repo.mod(modname)
        for q, f in m.functions.items():
            if not f.name.startswith("_"):
                roots.append(f)
    return roots


def _enclosing_loop(fnode, target) -> Optional[ast.AST]:
    best = None

    def rec(n, cur):
        nonlocal best
        if n is target:
            best = cur
            return True
        for c in ast.iter_child_nodes(n):
            if rec(c, c if isinstance(c, (ast.For, ast.While)) else cur):
                return True
        return False

    rec(fnode, None)
    return best


def _stmt_of(loop, target) -> Optional[ast.stmt]:
    for st in loop.body:
        for n in ast.walk(st):
            if n is target:
                return st
    return None


def _base_names(e: ast.AST) -> Set[str]:
    return {n.id for n in ast.walk(e) if isinstance(n, ast.Name)}


def _counts_arg(call: ast.Call) -> Optional[ast.AST]:
    for k in call.keywords:
        if k.arg == "counts":
            return k.value
    if len(call.args) >= 4:
        return call.args[3]
    return None


def rule_M1(repo: Repo) -> RuleResult:
    """every reachable merge of partials receives the accumulated count; M2: it is updated after the merge"""
    res = RuleResult("M1", "every merge of partial results receives the accumulated per-group count (and updates it afterwards)")
    nb = repo.mod("groupby.numba")
    nb.func("reduce_array_pair")
    reach = reachable_functions(repo, api_roots(repo))
    sites = 0
    unreachable = []
    for f in repo.all_functions():
        for n in walk_no_nested(f.node):
            if isinstance(n, ast.Call) and (call_name(n) or "").split(".")[-1] == "reduce_array_pair":
                if f not in reach:
                    unreachable.append(f.qualname)
                    continue
                sites += 1
                _m1_site(f, n, res)
    res.analysed = {"reachable_merge_sites": sites, "unreachable_merge_sites": sorted(set(unreachable))}
    if sites < 2:
        raise AnalysisError(f"M1: only {sites} reachable reduce_array_pair call sites found (confirmed floor 2)")
    _m1_kernel(nb.func("reduce_array_pair"), res)
    _m1_combiner_callsites(repo, res)
    return res


def _m1_kernel(f: Func, res: RuleResult):
    """reduce_array_pair(x, y, reducer, counts, y_counts): the reducer is given counts[i] as its count (a constant only where
    no counts were passed); the row is skipped where y_counts[i] == 0.  Parameters are taken by position, locals by dataflow."""
    ps = f.named_params
    if len(ps) < 5:
        raise AnalysisError("M1: reduce_array_pair no longer has the (x, y, reducer, counts, y_counts) signature")
    reducer_p, counts_p, ycounts_p = ps[2], ps[3], ps[4]
    loops = [n for n in walk_no_nested(f.node) if isinstance(n, ast.For)]
    if not loops or not isinstance(loops[0].target, ast.Name):
        raise AnalysisError("M1: row loop of reduce_array_pair not found")
    i = loops[0].target.id

    def is_cell(e, arr):
        return isinstance(e, ast.Subscript) and isinstance(e.value, ast.Name) and e.value.id == arr \
            and isinstance(e.slice, ast.Name) and e.slice.id == i

    # locals assigned counts[i]
    from_counts = {t.id for n in ast.walk(loops[0]) if isinstance(n, ast.Assign) and is_cell(n.value, counts_p)
                   for t in n.targets if isinstance(t, ast.Name)}
    calls = [c for c in ast.walk(loops[0]) if isinstance(c, ast.Call) and isinstance(c.func, ast.Name) and c.func.id == reducer_p]
    if not calls:
        raise AnalysisError("M1: reduce_array_pair no longer applies the reducer in its row loop")
    ok_count = True
    for c in calls:
        cnt = next((k.value for k in c.keywords if k.arg == "count"), c.args[2] if len(c.args) >= 3 else None)
        if not (cnt is not None and (is_cell(cnt, counts_p) or (isinstance(cnt, ast.Name) and cnt.id in from_counts))):
            ok_count = False
    skip = [n for n in ast.walk(loops[0]) if isinstance(n, ast.If) and any(isinstance(s_, ast.Continue) for s_ in n.body)
            and any(isinstance(t, ast.Compare) and len(t.ops) == 1 and isinstance(t.ops[0], ast.Eq) and is_cell(t.left, ycounts_p)
                    and isinstance(t.comparators[0], ast.Constant) and t.comparators[0].value == 0 for t in ast.walk(n.test))]
    if ok_count:
        res.ok(f, f.node, "reduce_array_pair: count = counts[i]", "the reducer sees the accumulated count of the left side")
    else:
        res.bad(f, f.node, "reduce_array_pair: count", "the reducer is no longer given counts[i]")
    if skip:
        res.ok(f, skip[0], "reduce_array_pair: y_counts[i] == 0 -> continue", "empty right partial leaves the accumulator untouched")
    else:
        res.bad(f, f.node, "reduce_array_pair: empty right partial",
                "the merge kernel no longer skips a right partial whose count is zero")


def _m1_combiner_callsites(repo: Repo, res: RuleResult):
    """every reachable call of the thread combiner passes the workers' counts unconditionally"""
    nb = repo.mod("groupby.numba")
    comb = "combine_chunk_results_for_factorized_key"
    n = 0
    for f in nb.functions.values():
        if f.name == comb:
            continue
        for c in walk_no_nested(f.node):
            if isinstance(c, ast.Call) and (call_name(c) or "").split(".")[-1] == comb:
                n += 1
                cnt = next((k.value for k in c.keywords if k.arg == "counts"), c.args[2] if len(c.args) >= 3 else None)
                construct = f"{f.qualname} -> {comb}(counts={norm(cnt) if cnt is not None else '<missing>'})"
                if isinstance(cnt, ast.Name):
                    res.ok(f, c, construct, "the workers' counts")
                else:
                    res.bad(f, c, construct,
                            "the combiner is not given the workers' counts unconditionally: without them it falls back to "
                            "count = 1 and the empty partial of a group absent from the first blocks is merged as a value")
    if n < 1:
        raise AnalysisError("M1: no call of the thread combiner found")


def _m1_site(f: Func, call: ast.Call, res: RuleResult):
    construct = norm(call)
    loop = _enclosing_loop(f.node, call)
    cnt = _counts_arg(call)
    if cnt is None or (isinstance(cnt, ast.Constant) and cnt.value is None):
        res.bad(f, call, construct,
                "merge of partial results without counts=: the count defaults to 1, so the empty (null) partial of a "
                "group that is absent from the blocks merged so far is treated as a value")
        return
    if loop is None:
        res.bad(f, call, construct, "merge call is not inside the loop that accumulates the partials")
        return
    cnt = _hoisted_ifexp(loop, cnt)
    expr = cnt
    note = ""
    if isinstance(cnt, ast.IfExp):
        # accepted idiom: `acc if tracked else None` with tracked := <param> is not None
        if isinstance(cnt.orelse, ast.Constant) and cnt.orelse.value is None and isinstance(cnt.test, ast.Name) \
                and _is_param_not_none_flag(f, cnt.test.id):
            expr = cnt.body
            note = f" (None only when the caller tracks no counts: {cnt.test.id})"
        else:
            res.bad(f, call, construct, f"counts= is conditional on {norm(cnt.test)}, which is not 'the caller passed counts'")
            return
    bases = _base_names(expr)
    st_call = _stmt_of(loop, call)
    # every merge inside the loop goes through the count-aware merge: the accumulator is assigned by nothing else there
    acc_names = {t.id for s_ in ast.walk(loop) if isinstance(s_, ast.Assign) and s_.value is call for t in s_.targets if isinstance(t, ast.Name)}
    for s_ in ast.walk(loop):
        if isinstance(s_, (ast.Assign, ast.AugAssign)) and not (isinstance(s_, ast.Assign) and isinstance(s_.value, ast.Call)
                                                                  and (call_name(s_.value) or "").split(".")[-1] == "reduce_array_pair"):
            tg = s_.targets if isinstance(s_, ast.Assign) else [s_.target]
            hit = [t.id for t in tg if isinstance(t, ast.Name) and t.id in acc_names]
            if hit:
                res.bad(f, s_, construct[:60] + " / " + norm(s_)[:70],
                        f"inside the merge loop the accumulator {hit[0]!r} is also assigned by `{norm(s_)[:60]}`, i.e. some partials are merged "
                        f"around the count-aware merge: the untouched initial value of a group that is empty so far (a sentinel for "
                        f"integers and timestamps) is then combined as if it were data")
                return
    # accumulation statements of a base variable inside the loop body
    acc_after = acc_before = None
    seen_call = False
    for st in loop.body:
        if st is st_call:
            seen_call = True
            continue
        upd = _accumulates(st, bases)
        if upd:
            if seen_call and acc_after is None:
                acc_after = (st, upd)
            if not seen_call and acc_before is None:
                acc_before = (st, upd)
    if acc_before is not None:
        res.bad(f, acc_before[0], construct + " / " + norm(acc_before[0]),
                f"M2: the accumulated count {acc_before[1]!r} is updated before the merge that reads it: the block "
                f"being merged would already be counted and its own partial never recognised as the first value")
        return
    if acc_after is None:
        res.bad(f, call, construct,
                f"counts= is bound to {norm(expr)}, which is not accumulated in the merge loop "
                f"(no '{'/'.join(sorted(bases))} += ...' after the merge): it does not mark which groups are still empty")
        return
    res.ok(f, call, construct, f"counts bound to {norm(expr)}{note}; updated afterwards by {norm(acc_after[0])}")
    # the partial being merged is recognised as empty by ITS count (null accumulators are only recognisable for
    # float / int64 data)
    yc = next((k.value for k in call.keywords if k.arg == "y_counts"), call.args[4] if len(call.args) >= 5 else None)
    construct2 = construct + " [y_counts]"
    if yc is None or (isinstance(yc, ast.Constant) and yc.value is None):
        res.bad(f, call, construct2,
                "the merge does not receive the counts of the partial being merged (y_counts): an empty partial is then only "
                "recognised by a null accumulator, which is_null detects for float and int64 data only - for int32/uint8/bool "
                "values the initial value of a block without the group is merged as a real value")
        return
    yc = _hoisted_ifexp(loop, yc)
    yexpr = yc.body if isinstance(yc, ast.IfExp) else yc
    upd = acc_after[0]
    added = upd.value if isinstance(upd, ast.AugAssign) else (upd.value.right if isinstance(upd.value, ast.BinOp) else upd.value)
    if norm(yexpr) == norm(added) or norm(yexpr) in norm(upd):
        res.ok(f, call, construct2, f"y_counts = {norm(yexpr)}, the same counts that are accumulated afterwards")
    else:
        res.bad(f, call, construct2,
                f"y_counts is bound to {norm(yexpr)} but the counts accumulated after the merge are {norm(added)}: the "
                f"emptiness test and the accumulated count refer to different partials")


def _hoisted_ifexp(loop: ast.AST, e: ast.AST) -> ast.AST:
    """`if t: x = A` / `else: x = B` ... `f(counts=x)`  is  `f(counts=A if t else B)`: a temporary that is assigned in both arms
    of one if/else of the loop body (and nowhere else in it) stands for the conditional expression"""
    if not isinstance(e, ast.Name):
        return e
    defs = [s_ for s_ in ast.walk(loop) if isinstance(s_, ast.Assign) and any(isinstance(t, ast.Name) and t.id == e.id for t in s_.targets)]
    for i in ast.walk(loop):
        if isinstance(i, ast.If) and i.orelse:
            a = [s_ for s_ in i.body if s_ in defs]
            b = [s_ for s_ in i.orelse if s_ in defs]
            if len(a) == 1 and len(b) == 1 and len(defs) == 2:
                return ast.copy_location(ast.IfExp(test=i.test, body=a[0].value, orelse=b[0].value), e)
    return e


def _is_param_not_none_flag(f: Func, name: str) -> bool:
    defs = [n for n in walk_no_nested(f.node) if isinstance(n, ast.Assign)
            and any(isinstance(t, ast.Name) and t.id == name for t in n.targets)]
    if len(defs) != 1:
        return False
    v = defs[0].value
    return isinstance(v, ast.Compare) and len(v.ops) == 1 and isinstance(v.ops[0], ast.IsNot) \
        and isinstance(v.left, ast.Name) and v.left.id in f.named_params \
        and isinstance(v.comparators[0], ast.Constant) and v.comparators[0].value is None


def _accumulates(st: ast.stmt, bases: Set[str]) -> Optional[str]:
    if isinstance(st, ast.AugAssign) and isinstance(st.op, ast.Add):
        t = st.target
        while isinstance(t, ast.Subscript):
            t = t.value
        if isinstance(t, ast.Name) and t.id in bases:
            return t.id
    if isinstance(st, ast.Assign) and len(st.targets) == 1 and isinstance(st.targets[0], ast.Name) \
            and st.targets[0].id in bases and isinstance(st.value, ast.BinOp) and isinstance(st.value.op, ast.Add) \
            and st.targets[0].id in _base_names(st.value):
        return st.targets[0].id
    return None


def rule_M2(repo: Repo) -> RuleResult:
    """M2 is decided together with M1 (same walk); this entry re-reports the M2 part for the properties that list it"""
    r1 = rule_M1(repo)
    res = RuleResult("M2", "the accumulated count is updated after the merge call that reads it, in the same loop body")
    for i in r1.instances:
        if i.verdict == "ok":
            res.instances.append(type(i)("M2", i.file, i.line, i.function, i.construct, "ok", i.reason, True))
    for v in r1.violations:
        if v.message.startswith("M2:") or "is not accumulated in the merge loop" in v.message:
            res.bad_at(v.file, v.line, v.function, v.construct, v.message)
    return res


# ------------------------------------------------------------------------------- M3

def rule_M3(repo: Repo) -> RuleResult:
    res = RuleResult("M3", "parallel_map places results by submission index, not completion order")
    f = repo.func("util", "parallel_map")
    _m3_function(f, res)
    # positive fixture: must be reported on every run (zero-expected rule)
    return res


def _m3_function(f: Func, res: RuleResult):
    rets = [n for n in walk_no_nested(f.node) if isinstance(n, ast.Return) and n.value is not None]
    ret_names = {n.value.id for n in rets if isinstance(n.value, ast.Name)}
    loops = [n for n in walk_no_nested(f.node) if isinstance(n, ast.For)]
    # map future -> index built from enumerate
    index_maps: Set[str] = set()
    for n in walk_no_nested(f.node):
        if isinstance(n, ast.Assign) and len(n.targets) == 1 and isinstance(n.targets[0], ast.Name) \
                and isinstance(n.value, ast.DictComp):
            dc = n.value
            g = dc.generators[0]
            if isinstance(g.iter, ast.Call) and norm(g.iter.func) == "enumerate" and isinstance(g.target, ast.Tuple) \
                    and isinstance(g.target.elts[0], ast.Name) and isinstance(dc.value, ast.Name) \
                    and dc.value.id == g.target.elts[0].id and isinstance(dc.key, ast.Call) \
                    and norm(dc.key.func).endswith(".submit"):
                index_maps.add(n.targets[0].id)
    completion_loops = [l for l in loops if isinstance(l.iter, ast.Call) and norm(l.iter.func).endswith("as_completed")]
    decided = False
    for loop in completion_loops:
        decided = True
        fut = loop.target.id if isinstance(loop.target, ast.Name) else None
        idx_vars: Set[str] = set()
        for st in ast.walk(loop):
            if isinstance(st, ast.Assign) and len(st.targets) == 1 and isinstance(st.targets[0], ast.Name) \
                    and isinstance(st.value, ast.Subscript) and isinstance(st.value.value, ast.Name) \
                    and st.value.value.id in index_maps and isinstance(st.value.slice, ast.Name) \
                    and st.value.slice.id == fut:
                idx_vars.add(st.targets[0].id)
        for n in ast.walk(loop):
            if isinstance(n, ast.Call) and isinstance(n.func, ast.Attribute) and n.func.attr in ("append", "extend", "insert") \
                    and isinstance(n.func.value, ast.Name) and n.func.value.id in ret_names:
                res.bad(f, n, norm(n),
                        "results are appended in completion order under as_completed: the i-th result no longer "
                        "belongs to the i-th argument tuple")
            if isinstance(n, ast.Assign):
                for t in n.targets:
                    if isinstance(t, ast.Subscript) and isinstance(t.value, ast.Name) and t.value.id in ret_names:
                        ok = isinstance(t.slice, ast.Name) and t.slice.id in idx_vars
                        if ok:
                            res.ok(f, n, norm(n), f"index {t.slice.id} = {sorted(index_maps)[0]}[{fut}] captured from enumerate at submit")
                        else:
                            res.bad(f, n, norm(n),
                                    f"result stored at {norm(t.slice)}, which is not the submission index of the future")
    if not decided:
        # accepted alternatives: executor.map, or futures consumed in submission order
        txt = " ".join(norm(n) for n in walk_no_nested(f.node) if isinstance(n, ast.Call))
        if ".map(" in txt and "as_completed" not in txt:
            res.ok(f, f.node, "Executor.map", "map preserves submission order")
        elif "as_completed" not in txt and _m3_submission_order(f):
            res.ok(f, f.node, "futures consumed in submission order", "the futures list is built by submit() in argument "
                   "order and .result() is taken in a loop/comprehension over that same list")
        else:
            raise AnalysisError("M3: parallel_map's gathering idiom is not recognised")
    if not res.instances:
        raise AnalysisError("M3: no result store found in parallel_map's completion loop")


def _m3_submission_order(f: Func) -> bool:
    """futures = [ex.submit(...) for ... in args] (or appended in a for loop over the arguments) and the results are
    gathered by iterating that same list in order"""
    fut_lists: Set[str] = set()
    for n in walk_no_nested(f.node):
        if isinstance(n, ast.Assign) and len(n.targets) == 1 and isinstance(n.targets[0], ast.Name) \
                and isinstance(n.value, ast.ListComp) and isinstance(n.value.elt, ast.Call) \
                and norm(n.value.elt.func).endswith(".submit"):
            fut_lists.add(n.targets[0].id)
        if isinstance(n, ast.Call) and isinstance(n.func, ast.Attribute) and n.func.attr == "append" \
                and isinstance(n.func.value, ast.Name) and n.args and isinstance(n.args[0], ast.Call) \
                and norm(n.args[0].func).endswith(".submit"):
            fut_lists.add(n.func.value.id)
    if not fut_lists:
        return False
    for n in walk_no_nested(f.node):
        gens = []
        if isinstance(n, (ast.ListComp, ast.GeneratorExp)):
            gens = [(g.target, g.iter, n.elt) for g in n.generators]
        elif isinstance(n, ast.For):
            gens = [(n.target, n.iter, n)]
        for tgt, it, body in gens:
            if isinstance(it, ast.Name) and it.id in fut_lists and isinstance(tgt, ast.Name):
                if any(isinstance(c, ast.Call) and isinstance(c.func, ast.Attribute) and c.func.attr == "result"
                       and isinstance(c.func.value, ast.Name) and c.func.value.id == tgt.id for c in ast.walk(body)):
                    return True
    return False


# ------------------------------------------------------------------------------- M4

SPLITTERS = {"np.array_split", "array_split_with_chunk_handling", "numpy.array_split"}


def rule_M4(repo: Repo) -> RuleResult:
    res = RuleResult("M4", "row-aligned arrays are split by one splitter within a function")
    multi = 0
    for f in repo.all_functions():
        calls = [n for n in walk_no_nested(f.node) if isinstance(n, ast.Call) and (call_name(n) or "") in SPLITTERS]
        # include nested helper functions' calls under the enclosing function (closure over the same splits)
        if not calls:
            continue
        args = []
        for c in calls:
            a = None
            if len(c.args) >= 2:
                a = c.args[1]
            for k in c.keywords:
                if k.arg in ("chunk_lengths", "indices_or_sections"):
                    a = k.value
            args.append((c, norm(a) if a is not None else "<missing>"))
        texts = {t for _, t in args}
        if len(calls) >= 2:
            multi += 1
            if len(texts) == 1:
                res.ok(f, calls[0], f"{len(calls)} splits by {texts.pop()}", "keys, values and masks are cut at the same row boundaries")
            else:
                c = args[1][0]
                res.bad(f, c, f"{f.qualname}: splits by " + " vs ".join(sorted(texts)),
                        "row-aligned arrays are split at different boundaries: blocks of keys and values/masks would "
                        "no longer cover the same rows")
        else:
            res.ok(f, calls[0], f"1 split by {args[0][1]}", "", nontrivial=False)
    # nested helper in GroupBy.apply: split_one_array uses the same `splits`
    core = repo.mod("groupby.core")
    ap = core.func("GroupBy.apply")
    inner = core.functions.get("GroupBy.apply.split_one_array")
    if inner is not None:
        outer_calls = [n for n in walk_no_nested(ap.node) if isinstance(n, ast.Call) and (call_name(n) or "") in SPLITTERS]
        inner_calls = [n for n in walk_no_nested(inner.node) if isinstance(n, ast.Call) and (call_name(n) or "") in SPLITTERS]
        texts = {norm(c.args[1]) for c in outer_calls + inner_calls if len(c.args) >= 2}
        if outer_calls and inner_calls:
            multi += 1
            if len(texts) == 1:
                res.ok(ap, outer_calls[0], f"apply: mask and values split by {next(iter(texts))}", "")
            else:
                res.bad(ap, outer_calls[0], "apply: splits by " + " vs ".join(sorted(texts)),
                        "mask and values are split at different group boundaries")
    res.analysed = {"functions_with_several_splits": multi}
    if multi < 3:
        raise AnalysisError(f"M4: only {multi} functions with several splits found (floor 3)")
    return res


# ------------------------------------------------------------------------------- M5

def rule_M5(repo: Repo) -> RuleResult:
    res = RuleResult("M5", "pointer-table lookups by chunk index are offset by the first chunk inside the mask")
    core = repo.mod("groupby.core")
    core.func("GroupBy._resolve_mask_argument_into_chunks")
    n_sites = 0
    for f in core.methods("GroupBy").values():
        gets_offset = None
        for n in walk_no_nested(f.node):
            if isinstance(n, ast.Assign) and isinstance(n.value, ast.Call) \
                    and norm(n.value.func).endswith("_resolve_mask_argument_into_chunks"):
                t = n.targets[0]
                if isinstance(t, ast.Tuple) and len(t.elts) == 3 and isinstance(t.elts[1], ast.Name):
                    gets_offset = t.elts[1].id
                else:
                    raise AnalysisError(f"M5: {f.qualname} no longer unpacks (keys, first_chunk_in, mask_chunks)")
        if gets_offset is None:
            continue
        parent: Dict[int, ast.AST] = {}
        for a in ast.walk(f.node):
            for c in ast.iter_child_nodes(a):
                parent[id(c)] = a
        for n in walk_no_nested(f.node):
            # the pointer list used as a whole sequence (iterated, zipped, aliased): it must start at the first chunk inside the mask
            if isinstance(n, ast.Attribute) and attr_chain(n) == ("self", "_group_key_pointers") and isinstance(n.ctx, ast.Load):
                par = parent.get(id(n))
                if isinstance(par, ast.Subscript) and par.value is n:
                    if isinstance(par.slice, ast.Slice):
                        n_sites += 1
                        if par.slice.lower is not None and norm(par.slice.lower) == gets_offset and par.slice.upper is None:
                            res.ok(f, par, norm(par), f"the pointer list from chunk {gets_offset} on")
                        else:
                            res.bad(f, par, norm(par), f"the pointer list is sliced by {norm(par.slice)} instead of [{gets_offset}:]: chunk i of the "
                                                       f"masked keys is chunk {gets_offset}+i of the grouping")
                    continue                     # indexed lookups: below
                if isinstance(par, ast.Compare) or (isinstance(par, ast.Call) and norm(par.func) == "len"):
                    continue                     # `is None` tests, len()
                if isinstance(par, ast.Assign) and par.value is n and all(isinstance(t, ast.Attribute) for t in par.targets):
                    continue
                n_sites += 1
                res.bad(f, n, f"{f.qualname}: {norm(par)[:80] if par is not None else norm(n)}",
                        f"the pointer tables are walked from chunk 0 (iterated / zipped / aliased as a whole) in a function whose key "
                        f"chunks start at chunk {gets_offset} of the grouping: with a slice mask that skips leading chunks every partial "
                        f"result is scattered onto the labels of an earlier chunk")
        for n in walk_no_nested(f.node):
            if isinstance(n, ast.Subscript) and attr_chain(n.value) == ("self", "_group_key_pointers") and not isinstance(n.slice, ast.Slice):
                n_sites += 1
                sl = n.slice
                names = {x.id for x in ast.walk(sl) if isinstance(x, ast.Name)}
                ok = isinstance(sl, ast.BinOp) and isinstance(sl.op, ast.Add) and gets_offset in names and len(names) >= 2
                if ok:
                    res.ok(f, n, norm(n), f"offset by {gets_offset}")
                else:
                    res.bad(f, n, norm(n),
                            f"pointer table selected by {norm(sl)} without the offset {gets_offset}: with a slice mask that "
                            f"skips leading chunks, chunk i of the masked keys is chunk {gets_offset}+i of the grouping")
    res.analysed = {"pointer_lookups": n_sites}
    if n_sites < 3:
        raise AnalysisError(f"M5: only {n_sites} pointer-table lookups found in mask-aware functions (floor 3)")
    return res
