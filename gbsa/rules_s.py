"""S rules: grouping-state rules on class GroupBy (typestate, definite initialisation, containment)."""
from __future__ import annotations

import ast
from dataclasses import dataclass
from typing import Dict, FrozenSet, List, Optional, Set, Tuple

from .model import AnalysisError, Func, Repo, attr_chain, norm, walk_no_nested
from .paths import SymPath, enumerate_paths
from .report import RuleResult

CORE = "groupby.core"

# (layout, codes, pointers)
CONTIG = ("contig", "global", "none")
CHUNK_LOCAL = ("chunked", "local", "present")
CHUNK_GLOBAL = ("chunked", "global", "none")
VALID = (CONTIG, CHUNK_LOCAL, CHUNK_GLOBAL)
NAMES = {CONTIG: "CONTIG", CHUNK_LOCAL: "CHUNK_LOCAL", CHUNK_GLOBAL: "CHUNK_GLOBAL"}


def sname(s) -> str:
    return NAMES.get(s, f"CORRUPT{s}")


IKEY_ATTRS = {"_group_ikey", "group_ikey"}


# ------------------------------------------------------------------------------- S1

def _eval_test(t: ast.AST, state, flags: Dict[str, bool]) -> Optional[bool]:
    if isinstance(t, ast.UnaryOp) and isinstance(t.op, ast.Not):
        v = _eval_test(t.operand, state, flags)
        return None if v is None else (not v)
    if isinstance(t, ast.BoolOp):
        vals = [_eval_test(v, state, flags) for v in t.values]
        if isinstance(t.op, ast.And):
            if any(v is False for v in vals):
                return False
            if all(v is True for v in vals):
                return True
            return None
        if any(v is True for v in vals):
            return True
        if all(v is False for v in vals):
            return False
        return None
    c = attr_chain(t)
    if c == ("self", "key_is_chunked"):
        return state[0] == "chunked"
    if isinstance(t, ast.Name) and t.id in flags:
        return flags[t.id]
    if isinstance(t, ast.Compare) and len(t.ops) == 1 and attr_chain(t.left) == ("self", "_group_key_pointers") \
            and isinstance(t.comparators[0], ast.Constant) and t.comparators[0].value is None:
        present = state[2] == "present"
        if isinstance(t.ops[0], ast.IsNot):
            return present
        if isinstance(t.ops[0], ast.Is):
            return not present
    if isinstance(t, ast.Call) and norm(t.func) == "isinstance" and len(t.args) == 2 \
            and attr_chain(t.args[0]) in (("self", "_group_ikey"), ("self", "group_ikey")) and "ChunkedArray" in norm(t.args[1]):
        return state[0] == "chunked"
    return None


def _chunks_kind(value: ast.AST, state, local_kinds=None) -> Optional[str]:
    """locality of the codes held by an expression assigned to a local 'chunks' variable"""
    c = attr_chain(value)
    # a list re-packing of the grouping's own chunks ([k.to_numpy() for k in self._group_ikey.chunks]) holds the same codes
    if isinstance(value, ast.ListComp) and len(value.generators) == 1 and isinstance(value.generators[0].target, ast.Name):
        g = value.generators[0]
        if attr_chain(g.iter) in (("self", "_group_ikey", "chunks"), ("self", "group_ikey", "chunks")):
            e = value.elt
            tn = g.target.id
            if (isinstance(e, ast.Name) and e.id == tn) or (
                    isinstance(e, ast.Call) and isinstance(e.func, ast.Attribute) and isinstance(e.func.value, ast.Name)
                    and e.func.value.id == tn and e.func.attr in ("to_numpy", "copy", "__array__") and not e.args) or (
                    isinstance(e, ast.Call) and norm(e.func) in ("np.asarray", "np.array") and e.args
                    and isinstance(e.args[0], ast.Name) and e.args[0].id == tn):
                return "local-chunks" if state[1] == "local" else state[1]
    if c in (("self", "_group_ikey", "chunks"), ("self", "group_ikey", "chunks")):
        return state[1]
    if isinstance(value, ast.ListComp) and len(value.generators) == 1:
        g = value.generators[0]
        it = g.iter
        if isinstance(it, ast.Call) and norm(it.func) == "zip" and len(it.args) == 2 \
                and attr_chain(it.args[0]) == ("self", "_group_key_pointers") \
                and (attr_chain(it.args[1]) in (("self", "_group_ikey", "chunks"), ("self", "group_ikey", "chunks"))
                     or (isinstance(it.args[1], ast.Name) and local_kinds is not None
                         and local_kinds.get(it.args[1].id) == "local-chunks")) \
                and isinstance(g.target, ast.Tuple) and len(g.target.elts) == 2:
            p, k = (e.id for e in g.target.elts)
            elt = value.elt
            # X[k] with X derived from p
            if isinstance(elt, ast.Subscript) and isinstance(elt.slice, ast.Name) and elt.slice.id == k \
                    and p in {n.id for n in ast.walk(elt.value) if isinstance(n, ast.Name)}:
                return "global"
            # X.take(k) / np.take(X, k) with X derived from p: the same re-mapping (null preservation is K2's job)
            if isinstance(elt, ast.Call) and isinstance(elt.func, ast.Attribute) and elt.func.attr == "take" and elt.args:
                if norm(elt.func.value) in ("np", "numpy") and len(elt.args) >= 2:
                    tbl, idx = elt.args[0], elt.args[1]
                else:
                    tbl, idx = elt.func.value, elt.args[0]
                if isinstance(idx, ast.Name) and idx.id == k and p in {n.id for n in ast.walk(tbl) if isinstance(n, ast.Name)}:
                    return "global"
    return None


@dataclass
class Outcome:
    state: tuple
    flag: bool
    post: Optional[tuple]
    problems: List[str]
    path: str


def interpret_unify(f: Func) -> List[Outcome]:
    flag_name = None
    for p in f.named_params:
        if p != "self":
            flag_name = p
    if flag_name is None:
        raise AnalysisError("S1: _unify_group_key_chunks no longer takes the keep_chunked flag")
    paths = enumerate_paths(f.node.body)
    outs: List[Outcome] = []
    for st0 in VALID:
        for flag in (True, False):
            feasible = []
            for p in paths:
                res = _run_path(f, p, st0, {flag_name: flag})
                if res is not None:
                    feasible.append(res)
            if not feasible:
                outs.append(Outcome(st0, flag, None, ["no feasible path (interpreter cannot follow the tests)"], ""))
                continue
            if len(feasible) > 1:
                # several feasible paths: tests the interpreter cannot decide -> keep all
                pass
            for post, problems, desc in feasible:
                outs.append(Outcome(st0, flag, post, problems, desc))
    return outs


def _run_path(f: Func, p: SymPath, st0, flags) -> Optional[Tuple[tuple, List[str], str]]:
    """execute one syntactic path from an abstract state; None if a decided test contradicts it.
    Tests are evaluated in program order against the state in force at that point."""
    # we need interleaving of conds and stmts in program order: reconstruct by line numbers
    events: List[Tuple[int, int, str, object]] = []
    for t, pol in p.conds:
        if isinstance(t, ast.AST):
            events.append((t.lineno, t.col_offset, "cond", (t, pol)))
    for s in p.stmts:
        events.append((s.lineno, s.col_offset, "stmt", s))
    events.sort(key=lambda e: (e[0], e[1], 0 if e[2] == "cond" else 1))
    state = st0
    locals_def: Dict[str, Optional[str]] = {}
    problems: List[str] = []
    params = set(f.named_params)
    for _, _, kind, payload in events:
        if kind == "cond":
            t, pol = payload
            v = _eval_test(t, state, flags)
            if v is not None and v != pol:
                return None
            _check_loads(t, locals_def, params, problems)
            continue
        s = payload
        if isinstance(s, (ast.Return, ast.Raise)):
            if isinstance(s, ast.Raise):
                problems.append(f"raises at line {s.lineno}")
            continue
        if isinstance(s, ast.Assign):
            _check_loads(s.value, locals_def, params, problems)
            _check_pointer_reads(s.value, state, problems)
            for t in s.targets:
                c = attr_chain(t)
                if isinstance(t, ast.Name):
                    locals_def[t.id] = _chunks_kind(s.value, state, locals_def)
                elif c == ("self", "_group_key_pointers"):
                    if isinstance(s.value, ast.Constant) and s.value.value is None:
                        state = (state[0], state[1], "none")
                    else:
                        raise AnalysisError(f"S1: unrecognised assignment {norm(s)} in {f.qualname}")
                elif c == ("self", "_group_ikey"):
                    v = s.value
                    if isinstance(v, ast.Call) and len(v.args) == 1 and isinstance(v.args[0], ast.Name):
                        src = v.args[0].id
                        if src not in locals_def:
                            # already reported as unassigned local by _check_loads
                            kind_ = None
                        else:
                            kind_ = locals_def[src]
                        fn = norm(v.func)
                        layout = "chunked" if fn.endswith("chunked_array") else (
                            "contig" if fn.endswith("concatenate") else None)
                        if layout is None:
                            raise AnalysisError(f"S1: unrecognised re-layout {norm(s)} in {f.qualname}")
                        state = (layout, kind_ or "unknown", state[2])
                    else:
                        raise AnalysisError(f"S1: unrecognised assignment {norm(s)} in {f.qualname}")
                elif c is not None and c[0] == "self":
                    raise AnalysisError(f"S1: {f.qualname} assigns {'.'.join(c)}; cannot classify")
            continue
        if isinstance(s, ast.Expr):
            _check_loads(s.value, locals_def, params, problems)
            continue
        if isinstance(s, ast.Pass):
            continue
        if isinstance(s, (ast.For, ast.While, ast.AugAssign, ast.With, ast.Assert, ast.Delete)):
            # a compound / other statement that touches locals only is opaque: its loads are checked, the names it
            # binds become defined (of unknown code locality); a store to the grouping's state inside it is not interpreted
            for n in ast.walk(s):
                if isinstance(n, ast.Attribute) and isinstance(n.ctx, ast.Store) and attr_chain(n) and attr_chain(n)[0] == "self":
                    raise AnalysisError(f"S1: {f.qualname} assigns {'.'.join(attr_chain(n))} inside {type(s).__name__}; cannot classify")
            bound = {n.id for n in ast.walk(s) if isinstance(n, ast.Name) and isinstance(n.ctx, ast.Store)}
            probe = ast.Module(body=[s], type_ignores=[])
            inner_defs = dict(locals_def)
            for b in bound:
                inner_defs.setdefault(b, None)
            _check_loads(probe, inner_defs, params, problems)
            _check_pointer_reads(probe, state, problems)
            for b in bound:
                locals_def.setdefault(b, None)
            continue
        raise AnalysisError(f"S1: statement {norm(s)[:50]} of {f.qualname} outside the interpreted subset")
    return state, problems, p.describe()


def _check_pointer_reads(e: ast.AST, state, problems: List[str]):
    """a use of the pointer tables' *value* (anything but an `is [not] None` test) while the abstract state says
    they are None fails at run time (zip(None) / None[i])"""
    if state[2] != "none":
        return
    tested = set()
    for n in ast.walk(e):
        if isinstance(n, ast.Compare) and len(n.ops) == 1 and isinstance(n.ops[0], (ast.Is, ast.IsNot)) \
                and attr_chain(n.left) == ("self", "_group_key_pointers"):
            tested.add(id(n.left))
    for n in ast.walk(e):
        if isinstance(n, ast.Attribute) and isinstance(n.ctx, ast.Load) and id(n) not in tested \
                and attr_chain(n) == ("self", "_group_key_pointers"):
            msg = "uses the pointer tables after they were reset to None on this path (TypeError)"
            if msg not in problems:
                problems.append(msg)


def _check_loads(e: ast.AST, locals_def, params, problems: List[str]):
    bound_inner: Set[str] = set()
    for n in ast.walk(e):
        if isinstance(n, ast.comprehension):
            for x in ast.walk(n.target):
                if isinstance(x, ast.Name):
                    bound_inner.add(x.id)
    for n in ast.walk(e):
        if isinstance(n, ast.Name) and isinstance(n.ctx, ast.Load):
            if n.id in params or n.id in locals_def or n.id in bound_inner:
                continue
            if n.id in ("np", "pa", "pd", "zip", "len", "isinstance", "list", "print", "range", "True", "False", "None"):
                continue
            msg = f"reads local {n.id!r} which is unassigned on this path (UnboundLocalError)"
            if msg not in problems:
                problems.append(msg)


def unify_relation(repo: Repo) -> Dict[Tuple[tuple, bool], Set[tuple]]:
    f = repo.func(CORE, "GroupBy._unify_group_key_chunks")
    rel: Dict[Tuple[tuple, bool], Set[tuple]] = {}
    for o in interpret_unify(f):
        if o.post is not None and not any("unassigned" in p or "raises" in p or "TypeError" in p for p in o.problems):
            rel.setdefault((o.state, o.flag), set()).add(o.post)
    return rel


def rule_S1(repo: Repo) -> RuleResult:
    res = RuleResult("S1", "typestate of the key representation: the unifying mutator is correct from every state")
    f = repo.func(CORE, "GroupBy._unify_group_key_chunks")
    outs = interpret_unify(f)
    runs = set()
    for o in outs:
        runs.add((o.state, o.flag))
        construct = f"unify from {sname(o.state)} with keep_chunked={o.flag}"
        problems = list(o.problems)
        if o.post is not None:
            post = o.post
            if post[2] != "none":
                problems.append(f"pointer tables still present afterwards (post-state {sname(post)})")
            if post[1] != "global":
                problems.append(f"codes are {post[1]} afterwards although the pointer tables are "
                                f"{'gone' if post[2] == 'none' else 'present'} (post-state {sname(post)})")
            if not o.flag and post[0] != "contig":
                problems.append("keep_chunked=False but the codes are still chunked afterwards")
            if o.flag and o.state[0] == "chunked" and post[0] != "chunked":
                problems.append("keep_chunked=True but the codes were concatenated")
        if problems:
            res.bad(f, f.node, construct, "; ".join(problems), path=o.path)
        else:
            res.ok(f, f.node, construct, f"-> {sname(o.post)}")
    if len(runs) != 6:
        raise AnalysisError(f"S1: {len(runs)} of 6 (state x flag) runs were interpreted")
    # de-duplicate violations (several paths)
    seen, uniq = set(), []
    for v in res.violations:
        if v.key() not in seen:
            seen.add(v.key())
            uniq.append(v)
    res.violations = uniq
    return res


# ------------------------------------------------------------------------------- S2

S2_EXEMPT = {
    # one named exemption with reason (DESIGN.md S2)
    "GroupBy.cumcount": "passes the codes only as a never-null length carrier to a COUNT reducer (T1: that reducer reads "
                        "its value argument only through is_null; codes are >= -1, never the int64 sentinel)",
}


class _S2:
    def __init__(self, repo: Repo, res: RuleResult):
        self.repo = repo
        self.res = res
        self.core = repo.mod(CORE)
        self.methods = self.core.methods("GroupBy")
        self.rel = unify_relation(repo)
        self.exit_cache: Dict[str, Optional[FrozenSet]] = {}
        self.requires: Dict[str, List[Tuple[ast.AST, str]]] = {}
        self.in_progress: Set[str] = set()
        self.chunk_aware = {name for name, f in self.methods.items()
                            if any(attr_chain(n) == ("self", "_group_key_pointers") for n in ast.walk(f.node)
                                   if isinstance(n, ast.Attribute))}
        self.uses: List[Tuple[Func, ast.AST, FrozenSet, str]] = []

    def unify(self, S: FrozenSet, flag: Optional[bool]) -> FrozenSet:
        out = set()
        for s in S:
            for fl in ([flag] if flag is not None else [True, False]):
                posts = self.rel.get((s, fl))
                if not posts:
                    out.add(("corrupt", "unknown", "unknown"))
                else:
                    out |= posts
        return frozenset(out)

    def exit_states(self, name: str) -> FrozenSet:
        """exit state set of a method entered with all three states (its summary)"""
        if name in self.exit_cache:
            return self.exit_cache[name] or frozenset(VALID)
        if name in self.in_progress:
            return frozenset(VALID)
        self.in_progress.add(name)
        f = self.methods[name]
        out = self.run(f, frozenset(VALID), record=False)
        self.in_progress.discard(name)
        self.exit_cache[name] = out
        return out if out is not None else frozenset(VALID)

    # ---- interpreter
    def run(self, f: Func, S: FrozenSet, record: bool) -> Optional[FrozenSet]:
        self._exits: List[FrozenSet] = []
        exits: List[FrozenSet] = []
        out = self.block(f, f.node.body, S, record, exits)
        if out is not None:
            exits.append(out)
        if not exits:
            return None
        return frozenset(set().union(*exits))

    def block(self, f, stmts, S, record, exits) -> Optional[FrozenSet]:
        for st in stmts:
            if S is None:
                return None
            S = self.stmt(f, st, S, record, exits)
        return S

    def refine(self, test: ast.AST, S: FrozenSet) -> Tuple[FrozenSet, FrozenSet]:
        t_set, f_set = set(), set()
        for s in S:
            v = _eval_test(test, s, {}) if s in VALID else None
            if v is None or v is True:
                t_set.add(s)
            if v is None or v is False:
                f_set.add(s)
        return frozenset(t_set), frozenset(f_set)

    def stmt(self, f, st, S, record, exits) -> Optional[FrozenSet]:
        if isinstance(st, ast.If):
            S = self.expr(f, st.test, S, record)
            St, Sf = self.refine(st.test, S)
            a = self.block(f, st.body, St, record, exits) if St else None
            b = self.block(f, st.orelse, Sf, record, exits) if Sf else None
            if a is None and b is None:
                return None
            return frozenset((a or frozenset()) | (b or frozenset()))
        if isinstance(st, (ast.For, ast.While)):
            if isinstance(st, ast.For):
                S = self.expr(f, st.iter, S, record)
            else:
                S = self.expr(f, st.test, S, record)
            once = self.block(f, st.body, S, record, exits)
            S2 = frozenset(S | (once or frozenset()))
            twice = self.block(f, st.body, S2, False, exits)
            return frozenset(S2 | (twice or frozenset()))
        if isinstance(st, ast.Try):
            a = self.block(f, st.body + st.orelse, S, record, exits)
            outs = [a] if a is not None else []
            for h in st.handlers:
                o = self.block(f, h.body, S, record, exits)
                if o is not None:
                    outs.append(o)
            if not outs:
                return None
            S = frozenset(set().union(*outs))
            if st.finalbody:
                S = self.block(f, st.finalbody, S, record, exits)
            return S
        if isinstance(st, (ast.With,)):
            for item in st.items:
                S = self.expr(f, item.context_expr, S, record)
            return self.block(f, st.body, S, record, exits)
        if isinstance(st, ast.Return):
            if st.value is not None:
                S = self.expr(f, st.value, S, record)
            exits.append(S)
            return None
        if isinstance(st, ast.Raise):
            return None
        if isinstance(st, (ast.FunctionDef, ast.ClassDef)):
            return S
        if isinstance(st, ast.Assign) and self.is_codes(st.value) and all(isinstance(t, ast.Name) for t in st.targets):
            # the codes object is captured in a local: whatever uses it later sees the codes as they are now
            self.note_use(f, st.value, S, f"codes captured in local {st.targets[0].id}", record)
            return S
        for child in ast.iter_child_nodes(st):
            if isinstance(child, ast.expr):
                S = self.expr(f, child, S, record)
        return S

    def expr(self, f: Func, e: ast.AST, S: FrozenSet, record: bool) -> FrozenSet:
        """post-order traversal: transitions and uses in (approximate) evaluation order"""
        if isinstance(e, (ast.Lambda,)):
            return S
        if isinstance(e, ast.IfExp):
            S = self.expr(f, e.test, S, record)
            St, Sf = self.refine(e.test, S)
            a = self.expr(f, e.body, St, record) if St else frozenset()
            b = self.expr(f, e.orelse, Sf, record) if Sf else frozenset()
            return frozenset(a | b)
        # classify this node before descending when it is a use of the codes' values
        if isinstance(e, ast.Call):
            c = attr_chain(e.func)
            # receiver/args first
            for a in e.args:
                S = self.expr(f, a.value if isinstance(a, ast.Starred) else a, S, record)
            for k in e.keywords:
                S = self.expr(f, k.value, S, record)
            if c and c[0] == "self" and len(c) == 2:
                m = c[1]
                if m == "_unify_group_key_chunks":
                    flag: Optional[bool] = False
                    args = list(e.args) + [k.value for k in e.keywords if k.arg == "keep_chunked"]
                    if args:
                        a0 = args[0]
                        flag = a0.value if isinstance(a0, ast.Constant) and isinstance(a0.value, bool) else None
                    return self.unify(S, flag)
                if m in self.methods:
                    callee = self.methods[m]
                    # precondition of the callee
                    if m in self.requires_unified_methods():
                        self.note_use(f, e, S, f"call of {m}, which consumes the codes without unifying", record)
                    post = self.exit_states(m)
                    # the callee's effect: states it can leave, restricted to those reachable from S
                    if post and not (CHUNK_LOCAL in post):
                        return frozenset(s for s in post)
                    return S
            else:
                S = self.expr(f, e.func, S, record)
            # arguments that are the codes themselves
            fn = norm(e.func)
            for a in list(e.args) + [k.value for k in e.keywords]:
                if self.is_codes(a) and fn not in ("len", "isinstance", "type"):
                    self.note_use(f, a, S, f"codes passed to {fn}", record)
            return S
        if isinstance(e, ast.Attribute):
            c = attr_chain(e)
            if c and c[0] == "self" and len(c) >= 2:
                a = c[1]
                if a in self.methods and ("cached_property" in self.methods[a].decorators
                                          or "property" in self.methods[a].decorators):
                    if a in self.requires_unified_methods():
                        self.note_use(f, e, S, f"read of property {a}, which consumes the codes without unifying", record)
                    post = self.exit_states(a)
                    if post and CHUNK_LOCAL not in post and a not in ("key_is_chunked", "group_ikey", "result_index", "ngroups"):
                        S = frozenset(post)
                if len(c) >= 3 and c[1] in IKEY_ATTRS and c[2] not in ("chunks", "null_count", "dtype", "type", "num_chunks"):
                    self.note_use(f, e, S, f"codes' values read through .{c[2]}", record)
            else:
                S = self.expr(f, e.value, S, record)
            return S
        if isinstance(e, ast.Subscript):
            S = self.expr(f, e.value, S, record)
            S = self.expr(f, e.slice, S, record)
            if self.is_codes(e.slice):
                self.note_use(f, e, S, "fancy indexing by the codes", record)
            if self.is_codes(e.value):
                self.note_use(f, e, S, "codes subscripted", record)
            return S
        if isinstance(e, (ast.ListComp, ast.SetComp, ast.GeneratorExp, ast.DictComp)):
            for g in e.generators:
                S = self.expr(f, g.iter, S, record)
                for c in g.ifs:
                    S = self.expr(f, c, S, record)
            if isinstance(e, ast.DictComp):
                S = self.expr(f, e.key, S, record)
                S = self.expr(f, e.value, S, record)
            else:
                S = self.expr(f, e.elt, S, record)
            return S
        for child in ast.iter_child_nodes(e):
            if isinstance(child, ast.expr):
                S = self.expr(f, child, S, record)
        return S

    def is_codes(self, e: ast.AST) -> bool:
        c = attr_chain(e)
        return c is not None and len(c) == 2 and c[0] == "self" and c[1] in IKEY_ATTRS

    def note_use(self, f: Func, node: ast.AST, S: FrozenSet, what: str, record: bool):
        if not record:
            return
        self.uses.append((f, node, S, what))

    _req: Optional[Set[str]] = None

    def requires_unified_methods(self) -> Set[str]:
        return self._req or set()


def rule_S2(repo: Repo) -> RuleResult:
    res = RuleResult("S2", "every consumer of the codes' values sees global codes (never chunk-local ones)")
    a = _S2(repo, res)
    methods = a.methods
    # pass 1: find private methods that consume codes from entry TOP without being chunk-aware -> precondition
    req: Set[str] = set()
    for _ in range(4):
        a._req = set(req)
        a.uses = []
        new_req = set(req)
        for name, f in methods.items():
            a.run(f, frozenset(VALID), record=True)
        for f, node, S, what in a.uses:
            name = f.qualname.split(".", 1)[1]
            if CHUNK_LOCAL in S and name not in a.chunk_aware and _is_private_helper(name, methods[name]) \
                    and name not in S2_EXEMPT_NAMES():
                new_req.add(name)
        if new_req == req:
            break
        req = new_req
    a._req = set(req)
    a.uses = []
    for name, f in methods.items():
        a.run(f, frozenset(VALID), record=True)
    n_uses = 0
    for f, node, S, what in a.uses:
        name = f.qualname.split(".", 1)[1]
        construct = f"{norm(node)[:90]} [{what}]"
        n_uses += 1
        if CHUNK_LOCAL not in S:
            res.ok(f, node, construct, "states here: " + ", ".join(sorted(sname(s) for s in S)))
        elif name in a.chunk_aware:
            res.ok(f, node, construct, "chunk-aware function: consults the pointer tables")
        elif name in req:
            res.ok(f, node, construct, "private helper: global codes are a precondition checked at every call site",
                   nontrivial=False)
        elif f.qualname in S2_EXEMPT:
            res.exempt(f, node, construct, S2_EXEMPT[f.qualname])
        elif _only_callers_chunk_aware(repo, name, a.chunk_aware):
            res.ok(f, node, construct, "only called from chunk-aware functions, which map the result through the pointer tables")
        else:
            res.bad(f, node, construct,
                    "the codes may still be per-chunk local codes here (state CHUNK_LOCAL reachable: no unification on "
                    "this path), but they are used as global group codes")
    # copy constructor: codes and pointer tables are copied from the same source
    init = methods["__init__"]
    _s2_copy_path(init, res)
    res.analysed = {"consumer_sites": n_uses, "chunk_aware": sorted(a.chunk_aware), "requires_unified": sorted(req),
                    "unify_relation": {f"{sname(k[0])},keep={k[1]}": sorted(sname(s) for s in v) for k, v in a.rel.items()}}
    if n_uses < 10:
        raise AnalysisError(f"S2: only {n_uses} uses of the codes' values found (floor 10)")
    return res


def S2_EXEMPT_NAMES() -> Set[str]:
    return {q.split(".", 1)[1] for q in S2_EXEMPT}


def _is_private_helper(name: str, f: Func) -> bool:
    return name.startswith("_") and not name.startswith("__") and "cached_property" not in f.decorators \
        and "property" not in f.decorators


def _only_callers_chunk_aware(repo: Repo, name: str, chunk_aware: Set[str]) -> bool:
    core = repo.mod(CORE)
    callers = set()
    for q, f in core.methods("GroupBy").items():
        for n in ast.walk(f.node):
            if isinstance(n, ast.Attribute) and n.attr == name and attr_chain(n) == ("self", name) and q != name:
                callers.add(q)
    return bool(callers) and callers <= chunk_aware


def _s2_copy_path(init: Func, res: RuleResult):
    for n in walk_no_nested(init.node):
        if isinstance(n, ast.If) and "isinstance(group_keys, GroupBy)" in norm(n.test):
            srcs: Dict[str, str] = {}
            for st in n.body:
                if isinstance(st, ast.Assign):
                    tg = st.targets[0]
                    if isinstance(tg, ast.Tuple) and isinstance(st.value, ast.Tuple):
                        pairs = zip(tg.elts, st.value.elts)
                    else:
                        pairs = [(tg, st.value)]
                    for t, v in pairs:
                        c = attr_chain(t)
                        if c and c[0] == "self":
                            if isinstance(v, ast.Name):       # a local of the arm stands for its single definition
                                ds_ = [s_.value for s_ in n.body if isinstance(s_, ast.Assign) and len(s_.targets) == 1
                                       and isinstance(s_.targets[0], ast.Name) and s_.targets[0].id == v.id]
                                if len(ds_) == 1:
                                    v = ds_[0]
                            srcs[c[1]] = norm(v)
            ik = srcs.get("_group_ikey")
            pt = srcs.get("_group_key_pointers")
            construct = f"copy path: _group_ikey <- {ik}, _group_key_pointers <- {pt}"
            if ik is None:
                raise AnalysisError("S2: copy path of GroupBy.__init__ no longer assigns _group_ikey")
            src_obj = ik.split(".")[0]
            if pt is not None and pt.split(".")[0] == src_obj and pt.endswith("_group_key_pointers"):
                res.ok(init, n, construct, "codes travel with their pointer tables")
            else:
                res.bad(init, n, construct,
                        "the codes of the source grouping are copied without its pointer tables: chunk-local codes "
                        "would be read as global codes")
            return
    raise AnalysisError("S2: copy path of GroupBy.__init__ not found")


# ------------------------------------------------------------------------------- S3

def _self_attr_stores(stmts: List[ast.stmt]) -> Set[str]:
    out: Set[str] = set()
    for st in stmts:
        if isinstance(st, (ast.Assign, ast.AnnAssign, ast.AugAssign)):
            targets = st.targets if isinstance(st, ast.Assign) else [st.target]
            if isinstance(st, ast.AnnAssign) and st.value is None:
                continue
            for t in targets:
                for n in ast.walk(t):
                    c = attr_chain(n) if isinstance(n, ast.Attribute) else None
                    if c and len(c) == 2 and c[0] == "self" and isinstance(n.ctx, ast.Store):
                        out.add(c[1])
    return out


def must_assign(repo: Repo, f: Func, depth: int = 0) -> Set[str]:
    """attributes assigned on every normally terminating path of f (callee assignments included)"""
    core = repo.mod(CORE)
    methods = core.methods("GroupBy")
    paths = [p for p in enumerate_paths(f.node.body) if p.exit in ("fall", "return")]
    if not paths:
        return set()
    result: Optional[Set[str]] = None
    for p in paths:
        got = _self_attr_stores(p.stmts)
        if depth < 3:
            for st in p.stmts:
                for n in ast.walk(st):
                    if isinstance(n, ast.Call):
                        c = attr_chain(n.func)
                        if c and len(c) == 2 and c[0] == "self" and c[1] in methods and c[1] != f.name:
                            got |= must_assign(repo, methods[c[1]], depth + 1)
        result = got if result is None else (result & got)
    return result or set()


def rule_S3(repo: Repo) -> RuleResult:
    res = RuleResult("S3", "every instance attribute read by a method is assigned on every constructor path")
    core = repo.mod(CORE)
    methods = core.methods("GroupBy")
    init = methods["__init__"]
    member_names = set(methods)
    cls = core.cls("GroupBy")
    class_level = set()
    for st in cls.body:
        if isinstance(st, ast.Assign):
            for t in st.targets:
                if isinstance(t, ast.Name):
                    class_level.add(t.id)
    # attributes read anywhere
    read: Dict[str, Tuple[Func, ast.AST]] = {}
    written_anywhere: Set[str] = set()
    for name, f in methods.items():
        for n in ast.walk(f.node):
            if isinstance(n, ast.Attribute):
                c = attr_chain(n)
                if c and len(c) >= 2 and c[0] == "self":
                    a = c[1]
                    if a in member_names or a in class_level or a.startswith("__"):
                        continue
                    if isinstance(n.ctx, ast.Store) and len(c) == 2:
                        written_anywhere.add(a)
                    elif isinstance(n.ctx, ast.Load):
                        read.setdefault(a, (f, n))
    needed = {a for a in read if a in written_anywhere}
    if len(needed) < 6:
        raise AnalysisError(f"S3: only {len(needed)} instance attributes found (floor 6): {sorted(needed)}")
    paths = [p for p in enumerate_paths(init.node.body) if p.exit in ("fall", "return")]
    for p in paths:
        got = _self_attr_stores(p.stmts)
        for st in p.stmts:
            for n in ast.walk(st):
                if isinstance(n, ast.Call):
                    c = attr_chain(n.func)
                    if c and len(c) == 2 and c[0] == "self" and c[1] in methods and c[1] != "__init__":
                        got |= must_assign(repo, methods[c[1]], 1)
        missing = sorted(needed - got)
        construct = f"__init__ path {p.describe()}"
        if missing:
            f0, n0 = read[missing[0]]
            res.bad(init, p.exit_node or init.node, construct,
                    f"attributes {missing} are never assigned on this constructor path but are read by methods "
                    f"(e.g. self.{missing[0]} in {f0.qualname}): AttributeError on first use")
        else:
            res.ok(init, p.exit_node or init.node, construct, f"assigns all of {sorted(needed)}")
    res.analysed = {"attributes": sorted(needed), "constructor_paths": len(paths)}
    return res


# ------------------------------------------------------------------------------- S4

LOGICAL = {"_result_index", "_sort", "_key_index", "_index_is_sorted"}
REPRESENTATION = {"_group_ikey", "_group_key_pointers"}
MUTATORS = {"sort", "fill", "put", "resize", "partition", "append", "extend", "insert", "remove", "pop", "clear",
            "update", "setflags", "itemset", "byteswap", "rename", "set_names"}


def rule_S4(repo: Repo) -> RuleResult:
    res = RuleResult("S4", "logical attributes are assigned only during construction; representation only there or in the unifier")
    core = repo.mod(CORE)
    methods = core.methods("GroupBy")
    # functions reachable only from __init__
    construction = {"__init__"}
    changed = True
    while changed:
        changed = False
        for name, f in methods.items():
            if name in construction:
                continue
            callers = set()
            for q, g in methods.items():
                if q == name:
                    continue
                for n in ast.walk(g.node):
                    if isinstance(n, ast.Attribute) and attr_chain(n) == ("self", name):
                        callers.add(q)
            if callers and callers <= construction:
                construction.add(name)
                changed = True
    n = 0
    for name, f in methods.items():
        for node in ast.walk(f.node):
            if isinstance(node, ast.Attribute) and isinstance(node.ctx, ast.Store):
                c = attr_chain(node)
                if not c or c[0] != "self":
                    continue
                a = c[1]
                construct = f"{'.'.join(c)} = ... in {name}"
                if len(c) == 2:
                    n += 1
                    if a in LOGICAL:
                        if name in construction:
                            res.ok(f, node, construct, "assigned during construction")
                        else:
                            res.bad(f, node, construct,
                                    f"logical attribute {a} is re-assigned outside construction: later calls would see a "
                                    f"different grouping than a freshly built object")
                    elif a in REPRESENTATION:
                        if name in construction or name == "_unify_group_key_chunks":
                            res.ok(f, node, construct, "construction or the unifier (checked by S1)")
                        else:
                            res.bad(f, node, construct,
                                    f"representation attribute {a} is re-assigned outside construction and the unifier")
                    else:
                        readers = [q for q, g in methods.items() if any(
                            (isinstance(x, ast.Attribute) and attr_chain(x) == ("self", a) and isinstance(x.ctx, ast.Load))
                            or (isinstance(x, ast.Call) and norm(x.func) in ("getattr", "hasattr") and len(x.args) >= 2
                                and norm(x.args[0]) == "self" and isinstance(x.args[1], ast.Constant) and x.args[1].value == a)
                            for x in ast.walk(g.node))]
                        if readers and name not in construction:
                            res.bad(f, node, construct,
                                    f"{name} stores per-call state on the grouping object (self.{a}) that {readers[0]} reads back "
                                    f"later: outside construction, the unifier and cached properties no method may write "
                                    f"instance state, otherwise a call's result can depend on the calls made before it "
                                    f"(e.g. a memo keyed on the identity of a mask that is refilled in place)")
                        else:
                            res.ok(f, node, construct, "not read back by any method", nontrivial=False)
                else:
                    # store through an attribute: self.<attr>.<x> = ...
                    if a in LOGICAL | REPRESENTATION | {"result_index", "group_ikey"}:
                        n += 1
                        if name in construction:
                            res.ok(f, node, construct, "during construction (ownership of the written object is O1's job)",
                                   nontrivial=False)
                        else:
                            res.bad(f, node, construct, "stores through a grouping attribute outside construction")
            if isinstance(node, ast.Subscript) and isinstance(node.ctx, ast.Store):
                c = attr_chain(node.value)
                if c and c[0] == "self" and len(c) >= 2 and c[1] in LOGICAL | REPRESENTATION | {"result_index", "group_ikey"}:
                    n += 1
                    res.bad(f, node, f"{norm(node)} = ... in {name}", "element store into grouping state")
            if isinstance(node, ast.Call) and isinstance(node.func, ast.Attribute) and node.func.attr in MUTATORS:
                c = attr_chain(node.func.value)
                if c and c[0] == "self" and len(c) == 2 and c[1] in LOGICAL | REPRESENTATION | {"result_index", "group_ikey"}:
                    if node.func.attr in ("set_names", "rename") and not any(
                            k.arg == "inplace" and isinstance(k.value, ast.Constant) and k.value.value for k in node.keywords):
                        continue
                    n += 1
                    res.bad(f, node, f"{norm(node)[:80]} in {name}", "in-place mutator called on grouping state")
    for name, f in methods.items():
        for node in ast.walk(f.node):
            if isinstance(node, ast.Call) and norm(node.func) in ("setattr", "object.__setattr__") and node.args \
                    and norm(node.args[0]) == "self" and name not in construction:
                res.bad(f, node, f"{norm(node)[:70]} in {name}", "instance state written through setattr outside construction")
            if isinstance(node, ast.Attribute) and attr_chain(node) == ("self", "__dict__") and name not in construction:
                res.bad(f, node, f"self.__dict__ in {name}", "instance dictionary accessed outside construction (hidden state)")
    res.analysed = {"construction_functions": sorted(construction), "stores_examined": n}
    if n < 8:
        raise AnalysisError(f"S4: only {n} attribute stores examined (floor 8)")
    return res
