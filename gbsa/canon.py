"""Canonical local names.

Several path rules reason about one long function in terms of the roles its locals play ("the result frame", "the count
frame", "the sort key", "the observed-label filter").  The roles are inferred here from how each local is *defined*
(dataflow patterns on the right-hand sides), never from its spelling, and the function is handed to the rule with its locals
renamed to the canonical role names.  A role that cannot be identified is an ANALYSIS-ERROR (the rule cannot speak), and a
plain rename of a local in the repository changes nothing.
"""
from __future__ import annotations

import ast
import copy
from typing import Callable, Dict, List, Optional, Set, Tuple

from .model import AnalysisError, Func, Repo, attr_chain, call_name, norm, walk_no_nested



def _names(e: ast.AST) -> Set[str]:
    return {n.id for n in ast.walk(e) if isinstance(n, ast.Name)}


def _targets(st: ast.Assign) -> List[ast.AST]:
    out: List[ast.AST] = []
    for t in st.targets:
        out.extend(t.elts if isinstance(t, (ast.Tuple, ast.List)) else [t])
    return out


def _call_ends(e: ast.AST, suffix: str) -> bool:
    return isinstance(e, ast.Call) and (call_name(e) or norm(e.func)).split(".")[-1] == suffix


def _contains_call(e: ast.AST, suffix: str) -> bool:
    return any(_call_ends(c, suffix) for c in ast.walk(e))


def rename_locals(f: Func, mapping: Dict[str, str]) -> Func:
    mapping = {a: c for a, c in mapping.items() if a != c}
    if not mapping:
        return f
    # a canonical name already used by another local would collide: move that local out of the way first
    used = {n.id for n in ast.walk(f.node) if isinstance(n, ast.Name)} | set(f.named_params)
    full = dict(mapping)
    for a, c in mapping.items():
        if c in used and c not in mapping:
            full[c] = c + "_0"
    node = copy.deepcopy(f.node)
    for n in ast.walk(node):
        if isinstance(n, ast.Name) and n.id in full:
            n.id = full[n.id]
    return Func(module=f.module, qualname=f.qualname, node=node, cls=f.cls, parent=f.parent, decorators=list(f.decorators))


# ---------------------------------------------------------------------------------- GroupBy._apply_gb_reduction

def _roles_apply_gb_reduction(f: Func) -> Dict[str, str]:
    roles: Dict[str, str] = {}       # canonical -> actual
    assigns = [s for s in walk_no_nested(f.node) if isinstance(s, ast.Assign)]
    params = f.named_params
    func_name_p = params[1] if len(params) > 1 else "func_name"

    def need(canon: str, pred: Callable[[ast.Assign], Optional[str]]):
        for s in assigns:
            got = pred(s)
            if got:
                roles[canon] = got
                return
        raise AnalysisError(f"canon: role {canon!r} of {f.qualname} not identified")

    def single_name_target(s: ast.Assign) -> Optional[str]:
        return s.targets[0].id if len(s.targets) == 1 and isinstance(s.targets[0], ast.Name) else None

    # (value_names, value_list, type_list, common_index) = self._preprocess_arguments(values, mask)
    for s in assigns:
        if _call_ends(s.value, "_preprocess_arguments") and isinstance(s.targets[0], ast.Tuple) and len(s.targets[0].elts) == 4 \
                and all(isinstance(e, ast.Name) for e in s.targets[0].elts):
            for canon, e in zip(("value_names", "value_list", "type_list", "common_index"), s.targets[0].elts):
                roles[canon] = e.id
    if "common_index" not in roles:
        raise AnalysisError(f"canon: the call of _preprocess_arguments in {f.qualname} is not recognised")
    need("func_is_mean", lambda s: single_name_target(s) if isinstance(s.value, ast.Compare) and len(s.value.ops) == 1
         and isinstance(s.value.ops[0], ast.Eq) and isinstance(s.value.left, ast.Name) and s.value.left.id == func_name_p
         and isinstance(s.value.comparators[0], ast.Constant) and s.value.comparators[0].value == "mean" else None)
    need("effective_func_name", lambda s: single_name_target(s) if isinstance(s.value, ast.Name) and s.value.id == func_name_p else None)
    need("return_polars", lambda s: single_name_target(s) if _contains_call(s.value, "_values_is_polars") else None)
    need("results", lambda s: single_name_target(s) if _call_ends(s.value, "_apply_gb_func_across_chunked_group_keys") else None)
    for s in assigns:
        if isinstance(s.targets[0], ast.Tuple) and len(s.targets[0].elts) == 2 and roles["results"] in _names(s.value) \
                and all(isinstance(e, ast.Name) for e in s.targets[0].elts):
            roles["result_columns"], roles["counts"] = (e.id for e in s.targets[0].elts)
            break
    else:
        raise AnalysisError(f"canon: unpacking of the kernel results in {f.qualname} is not recognised")
    need("result_len", lambda s: single_name_target(s) if norm(s.value) in ("len(self.result_index)", "len(self._result_index)") else None)
    need("result_col_names", lambda s: single_name_target(s) if _call_ends(s.value, "_col_names_from_value_names") else None)
    need("sortkey", lambda s: single_name_target(s) if attr_chain(s.value) == ("self", "_labels_argsort") else None)

    def frame_from(src_role: str):
        def pred(s: ast.Assign) -> Optional[str]:
            t = single_name_target(s)
            if t and isinstance(s.value, ast.Call) and norm(s.value.func) in ("pd.DataFrame", "pl.DataFrame") \
                    and roles[src_role] in _names(s.value):
                return t
            return None
        return pred

    need("count_df", frame_from("counts"))
    need("result_df", frame_from("result_columns"))
    # result_index: the name passed as index= of the count frame
    for s in assigns:
        if single_name_target(s) == roles["count_df"] and isinstance(s.value, ast.Call):
            ix = next((k.value for k in s.value.keywords if k.arg == "index"), None)
            if isinstance(ix, ast.Name):
                roles["result_index"] = ix.id
    if "result_index" not in roles:
        raise AnalysisError(f"canon: the index of the count frame in {f.qualname} is not recognised")
    # observed: a comparison `> 0` whose left side derives from the count frame
    need("observed", lambda s: single_name_target(s) if isinstance(s.value, ast.Compare) and len(s.value.ops) == 1
         and isinstance(s.value.ops[0], ast.Gt) and roles["count_df"] in _names(s.value.left) else None)
    # result: the squeezed frame returned on the transform path
    need("result", lambda s: single_name_target(s) if _call_ends(s.value, "_maybe_squeeze_to_1d") else None)
    return {actual: canon for canon, actual in roles.items()}


# ---------------------------------------------------------------------------------- registry of role inferences

ROLE_INFERENCE: Dict[Tuple[str, str], Callable[[Func], Dict[str, str]]] = {
    ("groupby.core", "GroupBy._apply_gb_reduction"): _roles_apply_gb_reduction,
}


def canon_func(repo: Repo, modname: str, qualname: str) -> Func:
    cache = repo.__dict__.setdefault("_canon_cache", {})
    key = (modname, qualname)
    if key not in cache:
        f = repo.func(modname, qualname)
        infer = ROLE_INFERENCE.get(key)
        if infer is None:
            cache[key] = f
        else:
            import inspect
            roles = infer(f, repo) if len(inspect.signature(infer).parameters) == 2 else infer(f)
            cache[key] = rename_locals(f, roles)
    return cache[key]


# ---------------------------------------------------------------------------------- numba._apply_group_method_single_chunk

def _roles_single_chunk(f: Func, repo: Repo) -> Dict[str, str]:
    """indexer / check_in_bounds / target: the locals handed to _group_by_reduce for those parameters, by keyword or by position
    (the names are the callee's parameter names, i.e. interface, not spelling of locals)"""
    out: Dict[str, str] = {}
    callee_params = list(repo.func(f.module.name, "_group_by_reduce").named_params)
    for c in walk_no_nested(f.node):
        if _call_ends(c, "_group_by_reduce"):
            bound = [(p, a) for p, a in zip(callee_params, c.args) if not isinstance(a, ast.Starred)]
            bound += [(k.arg, k.value) for k in c.keywords]
            for p, a in bound:
                if p in ("indexer", "check_in_bounds", "target") and isinstance(a, ast.Name):
                    out[a.id] = p
    if len(out) < 2:
        raise AnalysisError(f"canon: the call of _group_by_reduce in {f.qualname} is not recognised")
    return out


# ---------------------------------------------------------------------------------- numba._group_func_wrap

def _roles_group_func_wrap(f: Func) -> Dict[str, str]:
    roles: Dict[str, str] = {}
    name_p = f.named_params[0]
    # names that hold the list of (result, count) pairs returned by the workers
    pm_results = {s.targets[0].id for s in walk_no_nested(f.node) if isinstance(s, ast.Assign) and len(s.targets) == 1
                  and isinstance(s.targets[0], ast.Name) and _call_ends(s.value, "parallel_map")}
    for s in walk_no_nested(f.node):
        if not isinstance(s, ast.Assign):
            continue
        v = s.value
        t0 = s.targets[0]
        if isinstance(t0, ast.Name) and name_p in _names(v) and not isinstance(v, ast.Call) and any(
                isinstance(c, ast.Constant) and isinstance(c.value, str) and "count" in c.value for c in ast.walk(v)) \
                and any(isinstance(c, (ast.Compare, ast.BoolOp)) for c in ast.walk(v)):
            roles.setdefault("counting", t0.id)       # the flag computed from the reducer name and the word 'count'
        elif isinstance(t0, ast.Name) and isinstance(v, ast.Call) and isinstance(v.func, ast.Attribute) \
                and isinstance(v.func.value, ast.Name) and v.func.value.id == name_p and v.args \
                and isinstance(v.args[0], ast.Constant) and "count" in str(v.args[0].value):
            roles.setdefault("counting", t0.id)       # reduce_func_name.endswith('count') and the like
        if isinstance(t0, ast.Tuple) and len(t0.elts) == 2 and all(isinstance(e, ast.Name) for e in t0.elts):
            if _call_ends(v, "_apply_group_method_single_chunk"):
                roles.setdefault("result", t0.elts[0].id)
                roles.setdefault("count", t0.elts[1].id)
                for k in v.keywords:
                    if k.arg is None and isinstance(k.value, ast.Name):
                        roles.setdefault("kwargs", k.value.id)
            elif isinstance(v, ast.Call) and norm(v.func) == "zip" and v.args and isinstance(v.args[0], ast.Starred) \
                    and isinstance(v.args[0].value, ast.Name) and v.args[0].value.id in pm_results:
                roles.setdefault("chunks", t0.elts[0].id)
                roles.setdefault("counts", t0.elts[1].id)
        if isinstance(t0, ast.Name) and _call_ends(v, "_chunk_groupby_args"):
            roles.setdefault("chunked_args", t0.id)
    missing = {"counting", "result", "count", "kwargs", "chunks", "counts"} - set(roles)
    if missing:
        raise AnalysisError(f"canon: roles {sorted(missing)} of {f.qualname} not identified")
    return {actual: canon for canon, actual in roles.items()}


ROLE_INFERENCE[("groupby.numba", "_apply_group_method_single_chunk")] = _roles_single_chunk
ROLE_INFERENCE[("groupby.numba", "_group_func_wrap")] = _roles_group_func_wrap


# ---------------------------------------------------------------------------------- locals that name one array cell

def inline_cell_reads(f: Func, skip: Set[str] = frozenset()) -> Func:
    """`t = A[i]` ... use of `t`  ->  use of `A[i]`, for a local with ONE definition whose right-hand side reads one cell of an
    array through names only, when no store to `A` and no re-binding of the index names lies (textually) between the definition
    and the use inside the same loop body.  Rules that recognise an expression by the cells it reads (`times[i] - clock[k]`)
    then see the same expression whether or not the cells were first given a name."""
    node = copy.deepcopy(f.node)
    stores: Dict[str, int] = {}
    for n in ast.walk(node):
        if isinstance(n, ast.Name) and isinstance(n.ctx, ast.Store):
            stores[n.id] = stores.get(n.id, 0) + 1
    loop_targets = {n.id for l in ast.walk(node) if isinstance(l, (ast.For, ast.comprehension)) for n in ast.walk(l.target)
                    if isinstance(n, ast.Name)}
    array_stores: Dict[str, List[int]] = {}
    for s in ast.walk(node):
        tgts = s.targets if isinstance(s, ast.Assign) else [s.target] if isinstance(s, (ast.AugAssign, ast.AnnAssign)) else []
        for t in tgts:
            for e in (t.elts if isinstance(t, (ast.Tuple, ast.List)) else [t]):
                b = e
                while isinstance(b, ast.Subscript):
                    b = b.value
                if isinstance(e, ast.Subscript) and isinstance(b, ast.Name):
                    array_stores.setdefault(b.id, []).append(s.lineno)
    name_stores: Dict[str, List[int]] = {}
    for n in ast.walk(node):
        if isinstance(n, ast.Name) and isinstance(n.ctx, ast.Store):
            name_stores.setdefault(n.id, []).append(n.lineno)
    cand: Dict[str, Tuple[ast.Assign, ast.For]] = {}
    for loop in ast.walk(node):
        if not isinstance(loop, ast.For):
            continue
        for s in walk_stmts(loop.body):
            if isinstance(s, ast.Assign) and len(s.targets) == 1 and isinstance(s.targets[0], ast.Name) \
                    and stores.get(s.targets[0].id) == 1 and s.targets[0].id not in loop_targets and s.targets[0].id not in skip \
                    and isinstance(s.value, ast.Subscript) and isinstance(s.value.value, ast.Name) \
                    and all(isinstance(x, (ast.Name, ast.Constant, ast.Tuple, ast.Load)) for x in ast.walk(s.value.slice)):
                cand[s.targets[0].id] = (s, loop)
    if not cand:
        return f

    class Sub(ast.NodeTransformer):
        def visit_Name(self, n: ast.Name):
            if isinstance(n.ctx, ast.Load) and n.id in cand:
                d, loop = cand[n.id]
                arr = d.value.value.id
                idx_names = {x.id for x in ast.walk(d.value.slice) if isinstance(x, ast.Name)}
                lo, hi = d.lineno, n.lineno
                inside = loop.lineno <= n.lineno <= (loop.end_lineno or n.lineno)
                clobber = any(lo < l < hi for l in array_stores.get(arr, [])) \
                    or any(lo < l <= hi for nm in idx_names for l in name_stores.get(nm, []))
                if inside and hi >= lo and not clobber:
                    return ast.copy_location(copy.deepcopy(d.value), n)
            return n

    node = Sub().visit(node)
    from .normalize import cell_augassign
    node = ast.fix_missing_locations(cell_augassign(node))      # `A[k] = t + 1` with t = A[k]  is  `A[k] += 1`
    return Func(module=f.module, qualname=f.qualname, node=node, cls=f.cls, parent=f.parent, decorators=list(f.decorators))


def walk_stmts(block):
    for st in block:
        yield st
        for fld in ("body", "orelse", "finalbody"):
            sub = getattr(st, fld, None)
            if isinstance(sub, list) and sub and isinstance(sub[0], ast.stmt) and not isinstance(st, (ast.FunctionDef, ast.ClassDef)):
                yield from walk_stmts(sub)


def subst_single_defs(f: Func, e: ast.AST, depth: int = 4, keep: Set[str] = frozenset()) -> ast.AST:
    """`e` with every local that has exactly one definition (a plain assignment to the bare name) replaced by the defining
    expression, repeatedly: `v = g(..); return v ** 0.5` is read as `return g(..) ** 0.5`."""
    defs: Dict[str, List[ast.AST]] = {}
    for s in walk_no_nested(f.node):
        if isinstance(s, ast.Assign):
            for t in s.targets:
                for n in ast.walk(t):
                    if isinstance(n, ast.Name):
                        defs.setdefault(n.id, []).append(s.value if (len(s.targets) == 1 and t is n) else None)
        elif isinstance(s, (ast.AugAssign, ast.AnnAssign)) and isinstance(s.target, ast.Name):
            defs.setdefault(s.target.id, []).append(None)
        elif isinstance(s, (ast.For, ast.comprehension)):
            for n in ast.walk(s.target):
                if isinstance(n, ast.Name):
                    defs.setdefault(n.id, []).append(None)
    single = {k: v[0] for k, v in defs.items() if len(v) == 1 and v[0] is not None and k not in f.named_params and k not in keep}

    class S(ast.NodeTransformer):
        def visit_Name(self, n):
            if isinstance(n.ctx, ast.Load) and n.id in single:
                return ast.copy_location(copy.deepcopy(single[n.id]), n)
            return n
    out = copy.deepcopy(e)
    for _ in range(depth):
        before = ast.dump(out)
        out = S().visit(out)
        if ast.dump(out) == before:
            break
    return out
