"""P rules: path / flow rules on the pandas layer."""
from __future__ import annotations

import ast
from typing import Dict, List, Optional, Set, Tuple

from .model import AnalysisError, Func, Repo, attr_chain, call_name, norm, walk_no_nested
from .paths import SymPath, enumerate_paths
from .report import RuleResult

CORE = "groupby.core"
NB = "groupby.numba"


# ------------------------------------------------------------------ flag evaluation on paths

def eval_flags(t: ast.AST, flags: Dict[str, bool], temporal_tests: Set[str]) -> Optional[bool]:
    if isinstance(t, ast.UnaryOp) and isinstance(t.op, ast.Not):
        v = eval_flags(t.operand, flags, temporal_tests)
        return None if v is None else not v
    if isinstance(t, ast.BoolOp):
        vals = [eval_flags(v, flags, temporal_tests) for v in t.values]
        if isinstance(t.op, ast.And):
            if any(v is False for v in vals):
                return False
            return True if all(v is True for v in vals) else None
        if any(v is True for v in vals):
            return True
        return False if all(v is False for v in vals) else None
    if isinstance(t, ast.Name) and t.id in flags:
        return flags[t.id]
    if norm(t) in temporal_tests:
        return True
    return None


def consistent(p: SymPath, flags: Dict[str, bool], temporal_tests: Set[str]) -> bool:
    for t, pol in p.conds:
        if not isinstance(t, ast.AST) or pol is None:
            continue
        v = eval_flags(t, flags, temporal_tests)
        if v is not None and v != pol:
            return False
    return True


def _is_kind_mM(e: ast.AST) -> Optional[str]:
    """X.kind in "mM"  -> name of X's root variable"""
    if isinstance(e, ast.Compare) and len(e.ops) == 1 and isinstance(e.ops[0], ast.In) \
            and isinstance(e.left, ast.Attribute) and e.left.attr == "kind" \
            and isinstance(e.comparators[0], ast.Constant) and isinstance(e.comparators[0].value, str) \
            and set(e.comparators[0].value) == set("mM"):
        r = e.left.value
        while isinstance(r, ast.Attribute):
            r = r.value
        if isinstance(r, ast.Name):
            return r.id
    return None


# ------------------------------------------------------------------------------- P1 / P10

FIXED_UNIT_LITERALS = ("m8[", "M8[", "timedelta64[", "datetime64[", "<m8[", "<M8[")


def _p1_function(f: Func, res: RuleResult, orig_vars: Set[str], extra_flags: List[Dict[str, bool]],
                 converter_ok: Set[str] = frozenset()):
    # temporal tests and their aliases
    temporal_tests: Set[str] = set()
    alias: Dict[str, bool] = {}
    for n in walk_no_nested(f.node):
        v = _is_kind_mM(n) if isinstance(n, ast.Compare) else None
        if v in orig_vars:
            temporal_tests.add(norm(n))
    for n in walk_no_nested(f.node):
        if isinstance(n, ast.Assign) and len(n.targets) == 1 and isinstance(n.targets[0], ast.Name) \
                and norm(n.value) in temporal_tests:
            alias[n.targets[0].id] = True
    # flags that say "the result is a count" (counting = 'count' in reduce_func_name): a count of temporal values is an integer
    # and must NOT be given the temporal dtype, so paths on which such a flag holds carry no restore obligation
    count_flags = {n.targets[0].id for n in walk_no_nested(f.node) if isinstance(n, ast.Assign) and len(n.targets) == 1
                   and isinstance(n.targets[0], ast.Name) and isinstance(n.value, ast.Compare) and len(n.value.ops) == 1
                   and isinstance(n.value.ops[0], (ast.In, ast.Eq)) and isinstance(n.value.left, ast.Constant)
                   and isinstance(n.value.left.value, str) and "count" in n.value.left.value}
    count_flags |= {n.targets[0].id for n in walk_no_nested(f.node) if isinstance(n, ast.Assign) and len(n.targets) == 1
                    and isinstance(n.targets[0], ast.Name) and isinstance(n.value, ast.Compare) and len(n.value.ops) == 1
                    and isinstance(n.value.ops[0], ast.Eq) and isinstance(n.value.comparators[0], ast.Constant)
                    and n.value.comparators[0].value == "count"}
    # no recognised temporal test: every returning path is examined (a function that never restores is a violation)
    paths = enumerate_paths(f.node.body, split_bool=bool(count_flags))
    n_paths = 0
    for flags0 in (extra_flags or [{}]):
        flags = dict(alias)
        flags.update(flags0)
        for p in paths:
            if p.exit != "return" or p.exit_node is None or p.exit_node.value is None:
                continue
            if not consistent(p, flags, temporal_tests):
                continue
            if count_flags:
                from .paths import infeasible as _infeasible
                if _infeasible(p):
                    continue            # the counting flag decided both ways
            count_path = bool(count_flags) and any(isinstance(t, ast.Name) and t.id in count_flags and pol is True for t, pol in p.conds)
            if orig_vars and not any(isinstance(n, ast.Name) and isinstance(n.ctx, ast.Store) and n.id in orig_vars
                                     for st in p.stmts for n in ast.walk(st)):
                continue            # nothing was cast on this path (it leaves before the cast)
            n_paths += 1
            restored = None
            conv_bound: Dict[str, str] = {}
            for st in p.stmts:
                if isinstance(st, ast.Assign) and len(st.targets) == 1 and isinstance(st.targets[0], ast.Name) \
                        and norm(st.value) in converter_ok:
                    conv_bound[st.targets[0].id] = norm(st.value)
                for n in ast.walk(st):
                    if isinstance(n, ast.Call) and isinstance(n.func, ast.Attribute) and n.func.attr in ("astype", "view") \
                            and n.args:
                        names = {x.id for x in ast.walk(n.args[0]) if isinstance(x, ast.Name)}
                        if names & orig_vars:
                            restored = st
                    if isinstance(n, ast.Call) and isinstance(n.func, ast.Name) and n.func.id in conv_bound:
                        restored = st
            construct = f"{f.qualname}: temporal path {p.describe()[:110]}"
            if count_path:
                # the result on this path is a count: it must NOT be given the temporal dtype of the values.  Armed for the
                # reduction wrapper only: the cumulative wrapper's counting operation (cumcount) is fed the integer codes, never
                # temporal values, so its unconditional restore is unreachable on a counting path whichever way it is spelt.
                if restored is not None and f.name == "_group_func_wrap":
                    res.bad(f, restored, f"{f.qualname}: {norm(restored)[:60]} on a counting path",
                            "the result of a counting operation is cast to the temporal dtype of the values: count(<datetime values>) comes "
                            "back as timestamps a few units after the epoch instead of integers", path=p.describe())
                continue
            if restored is not None:
                res.ok(f, p.exit_node, construct, f"restored by {norm(restored)[:60]}")
            else:
                res.bad(f, p.exit_node, construct,
                        "a datetime/timedelta input is viewed as int64 but on this path the result is returned without "
                        "being restored to the original dtype", path=p.describe())
    return n_paths


def _orig_dtype_vars(f: Func) -> Set[str]:
    """names bound to the original-dtype component returned by _cast_timestamps_to_ints:
    `x, orig = _cast_timestamps_to_ints(a)`; `vals, origs = zip(*list(map(_cast_timestamps_to_ints, vals)))`;
    `orig = origs[0]` (closed under subscripting / plain copies)."""
    out: Set[str] = set()

    def mentions_cast(e) -> bool:
        return any((isinstance(n, ast.Name) and n.id == "_cast_timestamps_to_ints")
                   or (isinstance(n, ast.Attribute) and n.attr == "_cast_timestamps_to_ints") for n in ast.walk(e))

    for n in walk_no_nested(f.node):
        if isinstance(n, ast.Assign) and len(n.targets) == 1 and isinstance(n.targets[0], ast.Tuple) \
                and len(n.targets[0].elts) == 2 and isinstance(n.targets[0].elts[1], ast.Name) and mentions_cast(n.value):
            out.add(n.targets[0].elts[1].id)
    changed = True
    while changed:
        changed = False
        for n in walk_no_nested(f.node):
            if isinstance(n, ast.Assign) and len(n.targets) == 1 and isinstance(n.targets[0], ast.Name):
                v = n.value
                while isinstance(v, ast.Subscript):
                    v = v.value
                if isinstance(v, ast.Name) and v.id in out and n.targets[0].id not in out:
                    out.add(n.targets[0].id)
                    changed = True
    return out


def rule_P1(repo: Repo) -> RuleResult:
    res = RuleResult("P1", "temporal values cast to int64 are restored to their dtype on every returning path")
    nb = repo.mod(NB)
    total = 0
    casting = []
    for f in repo.all_functions():
        if f.name == "_cast_timestamps_to_ints":
            continue
        ov = _orig_dtype_vars(f)
        if ov:
            casting.append(f.qualname)
            total += _p1_function(f, res, ov, [])
    res.analysed = {"functions_casting_timestamps": casting}
    if len(casting) < 4:
        raise AnalysisError(f"P1: only {len(casting)} functions obtain (ints, original dtype) from _cast_timestamps_to_ints "
                            f"(confirmed floor 4): {casting}")
    r1 = repo.func("nanops", "reduce_1d")
    # flags by what they test: issubdtype(.., datetime64) / issubdtype(.., timedelta64) / name == 'count'
    fl = {}
    for n in walk_no_nested(r1.node):
        if isinstance(n, ast.Assign) and len(n.targets) == 1 and isinstance(n.targets[0], ast.Name):
            t = norm(n.value)
            if "issubdtype" in t and "datetime64" in t:
                fl["dt"] = n.targets[0].id
            elif "issubdtype" in t and "timedelta64" in t:
                fl["td"] = n.targets[0].id
            elif isinstance(n.value, ast.Compare) and len(n.value.ops) == 1 and isinstance(n.value.ops[0], ast.Eq) \
                    and isinstance(n.value.comparators[0], ast.Constant) and n.value.comparators[0].value == "count":
                fl["cnt"] = n.targets[0].id
    if set(fl) != {"dt", "td", "cnt"}:
        raise AnalysisError(f"P1: temporal / count flags of reduce_1d not identified ({sorted(fl)})")
    total += _p1_function(r1, res, set(), [
        {fl["dt"]: True, fl["td"]: False, fl["cnt"]: False},
        {fl["dt"]: False, fl["td"]: True, fl["cnt"]: False}],
        converter_ok={"pd.to_datetime", "pd.to_timedelta"})
    # de-duplicate violations with the same key
    seen, uniq = set(), []
    for v in res.violations:
        if v.key() not in seen:
            seen.add(v.key()); uniq.append(v)
    res.violations = uniq
    res.analysed["temporal_return_paths"] = total
    if total < 10:
        raise AnalysisError(f"P1: only {total} temporal return paths enumerated (floor 10)")
    return res


def rule_P10(repo: Repo) -> RuleResult:
    res = RuleResult("P10", "restoration of temporal values never hard-codes a time unit")
    n = 0
    for modname, fname in [(NB, "_group_func_wrap"), (NB, "group_mean"), (NB, "_apply_rolling"), (NB, "_apply_cumulative"),
                           ("util", "mean_from_sum_count"), ("nanops", "reduce_1d")]:
        f = repo.func(modname, fname)
        for c in walk_no_nested(f.node):
            if isinstance(c, ast.Call) and isinstance(c.func, ast.Attribute) and c.func.attr in ("astype", "view") and c.args:
                a = c.args[0]
                n += 1
                if isinstance(a, ast.Constant) and isinstance(a.value, str) and a.value.startswith(FIXED_UNIT_LITERALS):
                    res.bad(f, c, norm(c),
                            f"result is re-typed with the fixed-unit literal {a.value!r}: inputs in another time unit "
                            f"(e.g. datetime64[s]) come back scaled wrongly")
                else:
                    res.ok(f, c, norm(c), "dtype derived from the input" if not isinstance(a, ast.Constant) else f"non-temporal literal {a.value!r}",
                           nontrivial=not isinstance(a, ast.Constant))
    if n < 6:
        raise AnalysisError(f"P10: only {n} astype/view calls found (floor 6)")
    return res


# ------------------------------------------------------------------------------- P2, P3, P4 on _apply_gb_reduction

def _red_paths(repo: Repo) -> Tuple[Func, List[SymPath]]:
    from .canon import canon_func
    f = canon_func(repo, CORE, "GroupBy._apply_gb_reduction")      # locals renamed to their inferred roles
    return f, enumerate_paths(f.node.body, limit=60000)


def _calls_in_stmt(st: ast.stmt) -> List[ast.Call]:
    return [n for n in ast.walk(st) if isinstance(n, ast.Call)]


def rule_P2(repo: Repo) -> RuleResult:
    res = RuleResult("P2", "mean margins: sums and counts both pass _add_margins before the single division")
    f, paths = _red_paths(repo)
    flags = {"margins": True, "func_is_mean": True, "transform": False}
    n = 0
    seen_keys = set()
    for p in paths:
        if p.exit != "return" or not consistent(p, flags, set()):
            continue
        # drop paths that took `if transform:` (name test) - handled by consistent()
        n += 1
        order: List[str] = []
        for st in p.stmts:
            for c in _calls_in_stmt(st):
                cn = norm(c.func)
                if cn.endswith("_add_margins") and isinstance(st, ast.Assign):
                    tgt = norm(st.targets[0])
                    arg0 = norm(c.args[0]) if c.args else "?"
                    fn_kw = next((norm(k.value) for k in c.keywords if k.arg == "func_name"), "?")
                    order.append(f"margins({arg0}->{tgt},{fn_kw})")
                if cn.endswith("mean_from_sum_count"):
                    order.append("mean")
        key = " ; ".join(order)
        if key in seen_keys:
            continue
        seen_keys.add(key)
        mean_pos = [i for i, o in enumerate(order) if o == "mean"]
        res_m = [i for i, o in enumerate(order) if o.startswith("margins(result_df->result_df")]
        cnt_m = [i for i, o in enumerate(order) if o.startswith("margins(count_df->count_df") and o.endswith("'sum')")]
        construct = "mean with margins: " + key
        if len(mean_pos) == 1 and res_m and cnt_m and max(res_m + cnt_m) < mean_pos[0]:
            res.ok(f, f.node, construct, "total mean = total sum / total count (not a mean of means)")
        else:
            res.bad(f, f.node, construct,
                    "with margins the mean must be computed once, after the margin rows were added to BOTH the sums and the "
                    "counts (counts aggregated with 'sum'); otherwise 'All' rows are means of means or divide by unmargined counts")
    if n < 1:
        raise AnalysisError("P2: no path with margins and mean found in _apply_gb_reduction")
    # mean = sum / count on EVERY returning path of a mean (transform included), exactly once
    m = 0
    seen2 = set()
    for p in paths:
        if p.exit != "return":
            continue
        is_transform = None
        for tv in (True, False):
            if consistent(p, {"func_is_mean": True, "transform": tv}, set()):
                is_transform = tv
        if is_transform is None:
            continue
        m += 1
        k = sum(1 for st in p.stmts for c in _calls_in_stmt(st) if norm(c.func).endswith("mean_from_sum_count"))
        key = (k, is_transform)
        if key in seen2:
            continue
        seen2.add(key)
        construct = f"mean, {'transform' if is_transform else 'per-group'} return: {k} division(s) by the count"
        if k == 1:
            res.ok(f, p.exit_node, construct, "mean is sum divided by count")
        else:
            res.bad(f, p.exit_node, construct,
                    "a mean is returned on this path without (or with more than one) division of the sums by the counts: "
                    "the result is the group sum", path=p.describe()[:160])
    res.analysed = {"paths_with_margins": n, "mean_paths": m}
    return res


def _container_kind(repo: Repo, e: ast.AST) -> str:
    """'ndarray' | 'series' | 'unknown' for the expressions that may define `observed`"""
    if isinstance(e, ast.Compare):
        return _container_kind(repo, e.left)
    if isinstance(e, ast.Attribute) and e.attr in ("values",):
        return "ndarray"
    if isinstance(e, ast.Call) and isinstance(e.func, ast.Attribute) and e.func.attr in ("to_numpy",):
        return "ndarray"
    c = attr_chain(e.func if isinstance(e, ast.Call) else e)
    if c and c[0] == "self" and len(c) == 2:
        core = repo.mod(CORE)
        m = core.methods("GroupBy").get(c[1])
        if m is not None:
            ann = norm(m.node.returns) if m.node.returns is not None else ""
            if "ndarray" in ann:
                return "ndarray"
            for n in walk_no_nested(m.node):
                if isinstance(n, ast.Return) and isinstance(n.value, ast.Call) and norm(n.value.func) in ("pd.Series", "pd.DataFrame"):
                    return "series"
            for n in walk_no_nested(m.node):
                if isinstance(n, ast.Return) and n.value is not None:
                    return _container_kind(repo, n.value)
    if isinstance(e, ast.Subscript):
        return _container_kind(repo, e.value)
    return "unknown"


def rule_P3(repo: Repo) -> RuleResult:
    res = RuleResult("P3", "observed-label filter: recount comes from the key-count API under the method's mask, one container kind")
    f, _ = _red_paths(repo)
    defs = [n for n in walk_no_nested(f.node) if isinstance(n, ast.Assign)
            and any(isinstance(t, ast.Name) and t.id == "observed" for t in n.targets)]
    if len(defs) < 1:
        raise AnalysisError("P3: the observed-label filter of _apply_gb_reduction is no longer recognised "
                            "(no assignment to 'observed')")
    kinds = {}
    for d in defs:
        v = d.value
        if isinstance(v, ast.Subscript) and "observed" in norm(v):
            continue    # composition with the sort key, keeps the kind of its base
        k = _container_kind(repo, v)
        kinds[norm(d)] = (k, d)
    bad_kind = [(t, k, d) for t, (k, d) in kinds.items() if k != "ndarray"]
    for t, (k, d) in kinds.items():
        if k == "ndarray":
            res.ok(f, d, t, "positional boolean array")
    for t, k, d in bad_kind:
        res.bad(f, d, t,
                f"this definition of 'observed' is a {k} (label-indexed) while the others are positional arrays and it is "
                f"used positionally (sortkey[observed[sortkey]], .iloc): an all-null group with unsorted first appearance "
                f"raises or selects the wrong labels")
    # the recount branch: sources are the key-count API, mask forwarded
    recount = None
    for n in walk_no_nested(f.node):
        if isinstance(n, ast.If) and "observed.all()" in norm(n.test):
            recount = n
    if recount is None:
        res.bad(f, defs[0], "observed filter without recount: " + norm(defs[0]),
                "the observed labels are derived from the value counts only: there is no branch that recounts the keys when some "
                "value count is zero, so a group whose values are all null disappears from the result instead of "
                "reporting the neutral value")
        return res
    t = norm(recount.test)
    if "!= 'size'" not in t and '!= "size"' not in t:
        res.bad(f, recount, "recount guard: " + t, "the recount must be skipped exactly for size (whose counts are key counts)")
    inner_defs = [n for n in ast.walk(recount) if isinstance(n, ast.Assign)
                  and any(isinstance(x, ast.Name) and x.id == "observed" for x in n.targets)]
    if not inner_defs:
        res.bad(f, recount, "recount branch: " + t,
                "the branch taken when some value count is zero no longer recomputes the observed labels from the key "
                "counts: a group whose values are all null disappears from the result")
    for d in inner_defs:
        src = norm(d.value)
        under_mask = None
        for n in ast.walk(recount):
            if isinstance(n, ast.If) and norm(n.test) == "mask is not None":
                under_mask = d in list(ast.walk(n))and any(d is x for b in n.body for x in ast.walk(b))
        ok_src = ("self.count_ikey(" in src) or ("self.ikey_count" in src) or ("self.key_count" in src)
        if not ok_src:
            res.bad(f, d, norm(d), "observed labels are recomputed from something other than the key counts")
            continue
        if under_mask:
            if "count_ikey(mask=mask)" in src or "count_ikey(mask)" in src:
                res.ok(f, d, norm(d) + " [mask given]", "key counts under the method's own mask")
            else:
                res.bad(f, d, norm(d) + " [mask given]",
                        "with a mask the observed labels must be recounted under that mask; unmasked key counts keep "
                        "labels whose rows are all filtered out")
        else:
            res.ok(f, d, norm(d) + " [no mask]", "key counts")
    return res


def rule_P4(repo: Repo) -> RuleResult:
    res = RuleResult("P4", "the label sort permutation reaches the result and count frames on every non-transform path")
    f, paths = _red_paths(repo)
    n = 0
    seen = set()
    for p in paths:
        if p.exit != "return":
            continue
        if not consistent(p, {"transform": False}, set()):
            continue
        n += 1
        tainted = {"sortkey"}
        perm_applied = {"result_df": False, "count_df": False}
        identity_arm = any(pol is False and isinstance(t, ast.AST) and norm(t) == "isinstance(sortkey, np.ndarray)"
                           for t, pol in p.conds)
        for st in p.stmts:
            if isinstance(st, ast.Assign) and len(st.targets) == 1 and isinstance(st.targets[0], ast.Name):
                tgt = st.targets[0].id
                names = {x.id for x in ast.walk(st.value) if isinstance(x, ast.Name)}
                if "_labels_argsort" in norm(st.value):
                    tainted.add(tgt)
                elif tgt not in ("result_df", "count_df") and names & tainted and isinstance(st.value, ast.Subscript) \
                        and base_of(st.value) in tainted:
                    tainted.add(tgt)
                if tgt in perm_applied:
                    v = st.value
                    if isinstance(v, ast.Subscript) and isinstance(v.value, ast.Attribute) and v.value.attr == "iloc" \
                            and isinstance(v.slice, ast.Name) and v.slice.id in tainted:
                        perm_applied[tgt] = True
                    if isinstance(v, ast.Call) and norm(v.func).endswith(".sort_index"):
                        perm_applied[tgt] = True
        key = (identity_arm, tuple(sorted(perm_applied.items())))
        if key in seen:
            continue
        seen.add(key)
        construct = f"non-transform return: permuted={perm_applied}, identity-arm={identity_arm}"
        if identity_arm or all(perm_applied.values()):
            res.ok(f, p.exit_node, construct, "labels sorted (or the permutation is the identity slice)")
        else:
            res.bad(f, p.exit_node, construct,
                    "a non-transform result is returned without the label sort permutation applied to both the result and "
                    "the count frame: labels come in first-appearance order although sorting was requested",
                    path=p.describe()[:200])
    if n < 4:
        raise AnalysisError(f"P4: only {n} non-transform return paths (floor 4)")
    res.analysed = {"paths": n}
    return res


def base_of(e: ast.AST) -> Optional[str]:
    while isinstance(e, (ast.Subscript, ast.Attribute)):
        e = e.value
    return e.id if isinstance(e, ast.Name) else None


# ------------------------------------------------------------------------------- P5, P6

def _is_group_ikey(e: ast.AST) -> bool:
    c = attr_chain(e)
    return c in (("self", "group_ikey"), ("self", "_group_ikey"))


SORT_SOURCES = ("_labels_argsort", "_group_sort_indexer")


def _sort_taint(f: Func, repo: Repo) -> Set[str]:
    tainted: Set[str] = set()
    mod = f.module
    nested = {q[len(f.qualname) + 1:]: g for q, g in mod.functions.items() if q.startswith(f.qualname + ".")}
    changed = True

    def expr_tainted(e: ast.AST, shadow: frozenset = frozenset()) -> bool:
        if isinstance(e, (ast.ListComp, ast.GeneratorExp, ast.SetComp, ast.DictComp)):
            sh = set(shadow)
            for g in e.generators:
                if expr_tainted(g.iter, frozenset(sh)):
                    return True
                sh |= {x.id for x in ast.walk(g.target) if isinstance(x, ast.Name)}
                if any(expr_tainted(c, frozenset(sh)) for c in g.ifs):
                    return True
            parts = [e.key, e.value] if isinstance(e, ast.DictComp) else [e.elt]
            return any(expr_tainted(x, frozenset(sh)) for x in parts)
        if isinstance(e, ast.Attribute) and e.attr in SORT_SOURCES:
            return True
        if isinstance(e, ast.Name):
            return e.id in tainted and e.id not in shadow
        return any(expr_tainted(c, shadow) for c in ast.iter_child_nodes(e))

    while changed:
        changed = False
        for name, g in nested.items():
            if name not in tainted and any(expr_tainted(st) for st in g.node.body):
                tainted.add(name); changed = True
        for n in walk_no_nested(f.node):
            if isinstance(n, ast.Assign):
                if expr_tainted(n.value):
                    for t in n.targets:
                        for x in ast.walk(t):
                            if isinstance(x, ast.Name) and isinstance(x.ctx, ast.Store) and x.id not in tainted:
                                tainted.add(x.id); changed = True
            elif isinstance(n, (ast.For,)):
                if expr_tainted(n.iter):
                    for x in ast.walk(n.target):
                        if isinstance(x, ast.Name) and x.id not in tainted:
                            tainted.add(x.id); changed = True
    return tainted


def p5_sites(repo: Repo) -> List[Tuple[Func, ast.Subscript]]:
    core = repo.mod(CORE)
    out = []
    for f in core.methods("GroupBy").values():
        # locals that are plain aliases of the row codes:  row_codes = self.group_ikey  (single definition)
        defs: Dict[str, List[ast.AST]] = {}
        for n in walk_no_nested(f.node):
            if isinstance(n, ast.Assign) and len(n.targets) == 1 and isinstance(n.targets[0], ast.Name):
                defs.setdefault(n.targets[0].id, []).append(n.value)
        code_alias = {k for k, v in defs.items() if len(v) == 1 and _is_group_ikey(v[0])}
        for n in ast.walk(f.node):
            if isinstance(n, ast.Subscript) and isinstance(n.ctx, ast.Load) and (
                    _is_group_ikey(n.slice) or (isinstance(n.slice, ast.Name) and n.slice.id in code_alias)):
                if isinstance(n.slice, ast.Name):
                    # present the site in its canonical form: the alias is replaced (in the in-memory tree of this run) by
                    # the expression it stands for - a semantics-preserving copy propagation
                    import copy as _copy
                    n.slice = ast.copy_location(_copy.deepcopy(defs[n.slice.id][0]), n.slice)
                out.append((f, n))
    return out


def rule_P5(repo: Repo) -> RuleResult:
    res = RuleResult("P5", "arrays indexed by the row codes are code-ordered (no label-sort / group-sort taint)")
    sites = p5_sites(repo)
    for f, n in sites:
        tainted = _sort_taint(f, repo)
        b = base_of(n.value) if not isinstance(n.value, ast.Name) else n.value.id
        # flow-sensitive refinement: only definitions of the base that reach this site count; the base in both
        # known sites is a comprehension variable over a list -> look at the iterable
        src_names = {b}
        comp = _enclosing_comp(f, n)
        if comp is not None:
            for g in comp.generators:
                if b in {x.id for x in ast.walk(g.target) if isinstance(x, ast.Name)}:
                    # the base is the comprehension variable: what matters is the iterable
                    src_names = {x.id for x in ast.walk(g.iter) if isinstance(x, ast.Name)}
        bad = sorted(s for s in src_names if s in tainted and _reaches_tainted_def(f, s, n, tainted))
        construct = f"<per-group results>[{norm(n.slice)}] in {f.qualname}"      # independent of the spelling of the indexed local
        # a per-code table filled by a scatter  T[I] = A  with A in label-sorted order: I must be the codes in label order,
        # i.e. derive from a subscript by self._labels_argsort
        if isinstance(n.value, ast.Name) and tainted:
            scat = [a for a in ast.walk(f.node) if isinstance(a, ast.Assign) and isinstance(a.targets[0], ast.Subscript)
                    and isinstance(a.targets[0].value, ast.Name) and a.targets[0].value.id == n.value.id
                    and not isinstance(a.value, ast.Constant)]
            alldefs: Dict[str, List[ast.AST]] = {}
            for a in ast.walk(f.node):
                if isinstance(a, ast.Assign) and len(a.targets) == 1 and isinstance(a.targets[0], ast.Name):
                    alldefs.setdefault(a.targets[0].id, []).append(a.value)

            def label_permuted(e: ast.AST, depth: int = 0) -> bool:
                # follow the array that is being indexed / filtered (never the selector): X[sel1][sel2], locals through their definitions
                while isinstance(e, ast.Subscript):
                    if attr_chain(e.slice) == ("self", "_labels_argsort"):
                        return True
                    e = e.value
                if attr_chain(e) == ("self", "_labels_argsort"):
                    return True                     # the permutation itself (an array of codes in label order)
                if isinstance(e, ast.Name) and depth < 4:
                    ds = alldefs.get(e.id, [])
                    return bool(ds) and all(label_permuted(d, depth + 1) for d in ds)
                return False
            unperm = [a for a in scat if not label_permuted(a.targets[0].slice)]
            if unperm:
                res.bad(f, unperm[0], f"{norm(unperm[0])[:70]} in {f.qualname}",
                        "per-group results in label-sorted order are scattered into the per-code table at positions that do not derive from "
                        "self._labels_argsort: group i of the sorted order is stored as the result of code i (wrong whenever first appearance "
                        "is not ascending)")
                continue
        if bad:
            res.bad(f, n, construct,
                    f"the array indexed by the row codes derives from {bad} which carries the label-sorted / group-sorted "
                    f"order (self._labels_argsort / self._group_sort_indexer): position i of it is not the result of code i")
        else:
            res.ok(f, n, construct, "base is in code order")
    res.analysed = {"sites": len(sites)}
    if len(sites) < 2:
        raise AnalysisError(f"P5: only {len(sites)} subscripts by the row codes found (floor 2)")
    return res


def _enclosing_comp(f: Func, node: ast.AST):
    for n in walk_no_nested(f.node):
        if isinstance(n, (ast.ListComp, ast.GeneratorExp)):
            if any(x is node for x in ast.walk(n.elt)):
                return n
    return None


def _reaches_tainted_def(f: Func, name: str, site: ast.AST, tainted: Set[str]) -> bool:
    """is there a definition of `name` before the site (by line) whose right-hand side is tainted?"""
    for n in walk_no_nested(f.node):
        if isinstance(n, ast.Assign) and n.lineno <= site.lineno:
            for t in n.targets:
                if any(isinstance(x, ast.Name) and x.id == name and isinstance(x.ctx, ast.Store) for x in ast.walk(t)):
                    for x in ast.walk(n.value):
                        if (isinstance(x, ast.Attribute) and x.attr in SORT_SOURCES) or (
                                isinstance(x, ast.Name) and x.id in tainted and x.id != name):
                            return True
    return False


def _plus_one(e: ast.AST) -> bool:
    return isinstance(e, ast.BinOp) and isinstance(e.op, ast.Add) and (
        (isinstance(e.right, ast.Constant) and e.right.value == 1) or (isinstance(e.left, ast.Constant) and e.left.value == 1))


def rule_P6(repo: Repo) -> RuleResult:
    res = RuleResult("P6", "per-group result arrays that are indexed by row codes have a trailing null slot")
    core = repo.mod(CORE)
    f = core.func("GroupBy._apply_gb_func_across_chunked_group_keys")
    found = 0
    for n in walk_no_nested(f.node):
        if isinstance(n, ast.Call) and norm(n.func).endswith(".bind"):
            for k in n.keywords:
                if k.arg == "ngroups":
                    found += 1
                    arms = [k.value.body, k.value.orelse] if isinstance(k.value, ast.IfExp) else [k.value]
                    if all(_plus_one(a) for a in arms):
                        res.ok(f, k.value, "ngroups=" + norm(k.value), "every arm allocates one extra slot that absorbs code -1")
                    else:
                        res.bad(f, k.value, "ngroups=" + norm(k.value),
                                "a kernel result array is allocated without the extra slot: with transform=True code -1 "
                                "indexes the last real group, so null-key rows receive that group's value")
        if isinstance(n, ast.Assign) and len(n.targets) == 1 and isinstance(n.targets[0], ast.Name) \
                and isinstance(n.value, ast.Call) and norm(n.value.func).endswith("_build_target_for_groupby"):
            found += 1
            shape = n.value.args[2] if len(n.value.args) >= 3 else None
            if shape is not None and _plus_one(shape):
                res.ok(f, n, norm(n)[:90], "combined array has the null slot")
            else:
                res.bad(f, n, norm(n)[:90], "the combined array of the chunked path has no null slot")
    if found == 1:
        res.bad(f, f.node, "chunked merge target: not built by _build_target_for_groupby(.., n + 1)",
                "the merge target of the chunked path is not allocated by _build_target_for_groupby with the extra slot and the "
                "reduction's null / initial value: the null-key slot and never-written groups keep an arbitrary fill (0 from np.zeros)")
    elif found < 2:
        raise AnalysisError(f"P6: allocation sites not found in _apply_gb_func_across_chunked_group_keys ({found})")
    b = core.func("GroupBy._build_arg_dict_for_function")
    for n in walk_no_nested(b.node):
        if isinstance(n, ast.Call) and norm(n.func) == "dict":
            for k in n.keywords:
                if k.arg == "ngroups":
                    if _plus_one(k.value):
                        res.ok(b, k.value, "ngroups=" + norm(k.value), "", nontrivial=False)
                    else:
                        res.bad(b, k.value, "ngroups=" + norm(k.value), "row-aligned kernels are sized without the null slot")
    # every P5 site: the indexed array comes from a slot-carrying allocation
    for g, n in p5_sites(repo):
        construct = f"<per-group results>[{norm(n.slice)}] in {g.qualname}"
        comp = _enclosing_comp(g, n)
        srcs = set()
        if comp is not None:
            for gen in comp.generators:
                srcs |= {x.id for x in ast.walk(gen.iter) if isinstance(x, ast.Name)}
        feeds = _feeding_calls(g, srcs)
        trimmed = _slot_trimmed_before(g, srcs, n)
        # the indexed array is itself a fresh per-code table with one extra slot:  t = np.full(self.ngroups + 1, null); t[codes] = ..
        own_alloc = None
        if isinstance(n.value, ast.Name):
            for a in ast.walk(g.node):
                if isinstance(a, ast.Assign) and len(a.targets) == 1 and isinstance(a.targets[0], ast.Name) and a.targets[0].id == n.value.id \
                        and isinstance(a.value, ast.Call) and norm(a.value.func) in ("np.full", "np.zeros", "np.empty", "np.ones") and a.value.args:
                    own_alloc = a
        if own_alloc is not None and trimmed is None:
            if _plus_one(own_alloc.value.args[0]) and norm(own_alloc.value.func) == "np.full":
                res.ok(g, n, construct, f"{norm(own_alloc)[:70]}: a per-code table with a trailing null slot")
            else:
                res.bad(g, n, construct,
                        f"the per-code table {norm(own_alloc)[:70]} indexed by the row codes has no trailing slot filled with the null value: "
                        f"code -1 selects the last group's value for null-key rows")
            continue
        if trimmed is not None:
            res.bad(g, trimmed, f"{norm(trimmed)[:80]} before {norm(n)}",
                    "the per-group arrays are cut to the number of labels before they are indexed by the row codes: the "
                    "trailing null slot is gone, so code -1 selects the last real group for null-key rows")
        elif any(c.endswith("_apply_gb_func_across_chunked_group_keys") for c in feeds):
            res.ok(g, n, construct, "indexed arrays come from the kernel path, allocated with the null slot")
        else:
            res.bad(g, n, construct,
                    f"the array indexed by the row codes ({sorted(srcs)}) is not produced by the kernel path that allocates a "
                    f"trailing null slot: code -1 selects the last group's value for null-key rows")
    return res


def _slot_trimmed_before(f: Func, names: Set[str], site: ast.AST) -> Optional[ast.AST]:
    """a definition (before the site) of one of the names, or of what feeds them, that slices with an upper bound"""
    work = set(names)
    seen: Set[str] = set()
    while work:
        nm = work.pop()
        if nm in seen:
            continue
        seen.add(nm)
        for n in walk_no_nested(f.node):
            if isinstance(n, ast.Assign) and n.lineno < site.lineno:
                tnames = {x.id for t in n.targets for x in ast.walk(t) if isinstance(x, ast.Name)}
                if nm not in tnames:
                    continue
                for x in ast.walk(n.value):
                    if isinstance(x, ast.Subscript) and isinstance(x.slice, ast.Slice) and x.slice.upper is not None \
                            and x.slice.lower is None:
                        return n
                    if isinstance(x, ast.Name) and x.id not in seen and x.id not in ("self",):
                        work.add(x.id)
    return None


def _feeding_calls(f: Func, names: Set[str]) -> Set[str]:
    """names of calls that (transitively, flow-insensitively) feed the given local names"""
    feeds: Set[str] = set()
    work = set(names)
    seen: Set[str] = set()
    while work:
        nm = work.pop()
        if nm in seen:
            continue
        seen.add(nm)
        for n in walk_no_nested(f.node):
            if isinstance(n, ast.Assign):
                tnames = {x.id for t in n.targets for x in ast.walk(t) if isinstance(x, ast.Name)}
                if nm in tnames:
                    for c in ast.walk(n.value):
                        if isinstance(c, ast.Call):
                            feeds.add(norm(c.func))
                        if isinstance(c, ast.Name) and c.id not in seen:
                            work.add(c.id)
    return feeds


# ------------------------------------------------------------------------------- P7

def rule_P7(repo: Repo) -> RuleResult:
    res = RuleResult("P7", "chunk-wise factorization: pointer tables against the final label index; prefix prepended consistently")
    f = repo.func(CORE, "GroupBy._factorize_group_key_in_chunks")
    stmts = [n for n in walk_no_nested(f.node) if isinstance(n, ast.stmt)]

    def assigns_to(name: str) -> List[ast.Assign]:
        return [s_ for s_ in stmts if isinstance(s_, ast.Assign) and any(isinstance(t, ast.Name) and t.id == name for t in s_.targets)]

    # roles by dataflow (no local name is assumed):
    #   codes_list, unique_list = zip(*<chunk results>)
    unz = [s_ for s_ in stmts if isinstance(s_, ast.Assign) and isinstance(s_.targets[0], ast.Tuple) and len(s_.targets[0].elts) == 2
           and isinstance(s_.value, ast.Call) and norm(s_.value.func) == "zip" and s_.value.args
           and isinstance(s_.value.args[0], ast.Starred)]
    ri_assign = [s_ for s_ in stmts if isinstance(s_, ast.Assign) and any(attr_chain(t) == ("self", "_result_index") for t in s_.targets)]
    ptr = [s_ for s_ in stmts if isinstance(s_, ast.Assign) and any(attr_chain(t) == ("self", "_group_key_pointers") for t in s_.targets)]
    if not ptr or not ri_assign or not unz or not all(isinstance(e, ast.Name) for e in unz[0].targets[0].elts):
        raise AnalysisError("P7: anchors (zip(*chunk results) / result index / pointer assignment) not found")
    codes_list, unique_list = (e.id for e in unz[0].targets[0].elts)
    # the argument list of the pointer lookups: second argument of parallel_map in the pointer assignment (through one local)
    pv = ptr[-1].value
    argl_expr = pv.args[1] if isinstance(pv, ast.Call) and norm(pv.func).endswith("parallel_map") and len(pv.args) >= 2 else pv
    argl_stmt = ptr[-1]
    if isinstance(argl_expr, ast.Name) and len(assigns_to(argl_expr.id)) == 1:
        argl_stmt = assigns_to(argl_expr.id)[0]
        argl_expr = argl_stmt.value
    # 1. pointer tables built from self.result_index after its last assignment
    late_ri = [s_ for s_ in ri_assign if s_.lineno > argl_stmt.lineno]
    uses_ri = "self.result_index" in norm(argl_expr) or "self._result_index" in norm(argl_expr)
    if uses_ri and not late_ri:
        res.ok(f, argl_stmt, norm(argl_stmt)[:90], "pointer tables computed against the label index after its last assignment")
    else:
        res.bad(f, argl_stmt, norm(argl_stmt)[:90],
                "the per-chunk pointer tables are not computed against the final label index (it is re-assigned "
                "afterwards or not used): local codes would point at the wrong labels")
    uniq_src = {x.id for x in ast.walk(argl_expr) if isinstance(x, ast.Name)}
    first_ri = [s_ for s_ in ri_assign if unique_list in {x.id for x in ast.walk(s_.value) if isinstance(x, ast.Name)}]
    if first_ri and unique_list in uniq_src:
        res.ok(f, first_ri[0], f"labels and pointer tables both built from {unique_list}", "")
    else:
        res.bad(f, (first_ri or ri_assign)[0], norm((first_ri or ri_assign)[0])[:80],
                "labels and pointer tables are built from different unique lists")
    # 2. _index_is_sorted = True only together with sort_values()
    for s_ in stmts:
        if isinstance(s_, ast.Assign) and any(attr_chain(t) == ("self", "_index_is_sorted") for t in s_.targets) \
                and isinstance(s_.value, ast.Constant) and s_.value.value is True:
            parent = _parent_if(f, s_)
            sib = [norm(x) for x in (parent.body if parent is not None else [])]
            if any("sort_values()" in t and "_result_index" in t for t in sib):
                res.ok(f, s_, norm(s_), "set in the same branch that sorts the labels")
            else:
                res.bad(f, s_, norm(s_), "_index_is_sorted is set without sorting the labels in the same branch: results would "
                                         "be reported in unsorted label order")
    # 3. monotonic prefix prepended to codes and uniques under the same condition, same position
    def prepend_pos(st: ast.stmt) -> Optional[Tuple[str, str]]:
        if isinstance(st, ast.Assign) and isinstance(st.value, ast.List) and isinstance(st.targets[0], ast.Name) \
                and st.targets[0].id in (codes_list, unique_list) and len(st.value.elts) == 2:
            tgt = st.targets[0].id
            star = [i for i, e in enumerate(st.value.elts) if isinstance(e, ast.Starred) and norm(e.value) == tgt]
            if len(star) == 1:
                return tgt, ("front" if star[0] == 1 else "back")
        return None

    pre_blocks = [n for n in walk_no_nested(f.node) if isinstance(n, ast.If) and any(prepend_pos(b) for b in n.body)]
    if not pre_blocks:
        raise AnalysisError("P7: prefix prepend block not found")
    blk = pre_blocks[0]
    pos = dict(p for p in (prepend_pos(b) for b in blk.body) if p)
    if pos.get(codes_list) and pos.get(codes_list) == pos.get(unique_list):
        res.ok(f, blk, f"prefix prepended to the code list and the unique list at the {pos[codes_list]} under {norm(blk.test)}", "")
    else:
        res.bad(f, blk, f"prefix placement {pos}",
                "the monotonic prefix is not inserted at the same position of the code list and the unique list: chunk i's "
                "codes would be mapped through chunk j's pointer table")
    # 4. _group_ikey built from the code list
    gi = [s_ for s_ in stmts if isinstance(s_, ast.Assign) and any(attr_chain(t) == ("self", "_group_ikey") for t in s_.targets)
          and "chunked_array" in norm(s_.value)]
    if gi and codes_list in {x.id for x in ast.walk(gi[0].value) if isinstance(x, ast.Name)}:
        res.ok(f, gi[0], norm(gi[0]), "codes are the chunk list the pointer tables are aligned with")
    else:
        res.bad(f, gi[0] if gi else f.node, norm(gi[0]) if gi else "self._group_ikey", "the chunked codes are not built from the code list")
    return res


def _parent_if(f: Func, stmt: ast.stmt) -> Optional[ast.If]:
    for n in walk_no_nested(f.node):
        if isinstance(n, ast.If) and any(s is stmt for s in n.body):
            return n
    return None


# ------------------------------------------------------------------------------- P8, P9, P11

def rule_P8(repo: Repo) -> RuleResult:
    res = RuleResult("P8", "cumulative outputs of null-key rows are overwritten with a constant marker")
    f = repo.func(NB, "_apply_cumulative")
    flag = None
    kcall = None
    for n in walk_no_nested(f.node):
        if isinstance(n, ast.Assign) and isinstance(n.value, ast.Call) and "reduce_func" in [k.arg for k in n.value.keywords]:
            kcall = n
            if isinstance(n.targets[0], ast.Tuple) and len(n.targets[0].elts) == 2 and isinstance(n.targets[0].elts[1], ast.Name):
                flag = n.targets[0].elts[1].id
    if kcall is None:
        raise AnalysisError("P8: the call of the cumulative kernel in _apply_cumulative not found")
    if flag is None:
        # no null-key report: the fill must then be an unconditional store AFTER the kernel call
        after = [s_ for s_ in walk_no_nested(f.node) if isinstance(s_, ast.Assign) and s_.lineno > kcall.lineno
                 and isinstance(s_.targets[0], ast.Subscript) and "group_key" in norm(s_.targets[0].slice) and "< 0" in norm(s_.targets[0].slice)]
        if after:
            res.ok(f, after[0], norm(after[0]), "null-key rows overwritten after the kernel ran")
        else:
            res.bad(f, kcall, f"{norm(kcall)[:70]}: no fill of the null-key rows after the kernel",
                    "the rows with a null key are not overwritten with a constant marker AFTER the kernel has run (a fill before the "
                    "kernel does not do: the kernel uses the output array as its state and reads an unseen group's running value from "
                    "the last row, so a marker stored there leaks into real groups)")
        return res
    blk = [n for n in walk_no_nested(f.node) if isinstance(n, ast.If) and isinstance(n.test, ast.Name) and n.test.id == flag]
    if not blk:
        res.bad(f, f.node, f"if {flag}:", "the null-key post-fill is gone: null-key rows keep whatever the output array held")
        return res
    b = blk[0]
    stores = [s for s in b.body if isinstance(s, ast.Assign) and isinstance(s.targets[0], ast.Subscript)]
    ok = False
    for s in stores:
        idx = s.targets[0].slice
        if isinstance(idx, ast.Compare) and isinstance(idx.ops[0], ast.Lt) and isinstance(idx.comparators[0], ast.Constant) \
                and idx.comparators[0].value == 0 and "group_key" in norm(idx.left) and isinstance(s.value, ast.Name):
            rep = s.value.id
            defs = [norm(x.value) for x in ast.walk(b) if isinstance(x, ast.Assign)
                    and any(isinstance(t, ast.Name) and t.id == rep for t in x.targets)]
            if defs and all(d == "0" or d.startswith("_null_value_for_numpy_type(") for d in defs):
                ok = True
                res.ok(f, s, norm(s), f"{rep} in {defs}: depends only on the operation and the dtype")
            else:
                res.bad(f, s, norm(s), f"the marker {rep} is {defs}: it must be a constant of the operation/dtype")
    if not ok and not res.violations:
        res.bad(f, b, f"if {flag}: ...", "null-key rows are not overwritten with a constant marker")
    # the kernel reports null keys
    k = repo.func(NB, "_cumulative_reduce")
    sets = [n for n in walk_no_nested(k.node) if isinstance(n, ast.Assign) and isinstance(n.value, ast.Constant)
            and n.value.value is True and isinstance(n.targets[0], ast.Name)]
    if sets:
        par = None
        for n in walk_no_nested(k.node):
            if isinstance(n, ast.If) and any(s is sets[0] for s in n.body):
                par = n
        if par is not None and "< 0" in norm(par.test):
            res.ok(k, sets[0], f"{norm(sets[0])} under {norm(par.test)}", "kernel reports that a null key was seen")
        else:
            res.bad(k, sets[0], norm(sets[0]), "the null-key report is not set under the null-key test")
    else:
        res.bad(k, k.node, "has_null_key", "the kernel no longer reports null keys")
    return res


def rule_P9(repo: Repo) -> RuleResult:
    res = RuleResult("P9", "result index names are assigned from the key names on every constructing path")
    f = repo.func(CORE, "GroupBy.__init__")
    names_var = None
    for n in walk_no_nested(f.node):
        if isinstance(n, ast.Assign) and isinstance(n.targets[0], ast.Tuple) and len(n.targets[0].elts) == 2 \
                and isinstance(n.value, ast.Call) and norm(n.value.func) == "convert_data_to_arr_list_and_keys" \
                and n.value.args and norm(n.value.args[0]) == "group_keys":
            names_var = n.targets[0].elts[1].id
    if names_var is None:
        raise AnalysisError("P9: key names are no longer taken from convert_data_to_arr_list_and_keys(group_keys)")
    paths = [p for p in enumerate_paths(f.node.body) if p.exit in ("fall", "return")]
    n = 0
    for p in paths:
        copy = any(pol is True and isinstance(t, ast.AST) and "isinstance(group_keys, GroupBy)" in norm(t) for t, pol in p.conds)
        if copy:
            continue
        n += 1
        ok = False
        for st in p.stmts:
            t = norm(st)
            if names_var in t and ("set_names(" in t or ".names =" in t) and "result_index" in t:
                ok = True
        construct = f"constructing path {p.describe()[:90]}"
        if ok:
            res.ok(f, p.exit_node or f.node, construct, f"index names := {names_var}")
        else:
            res.bad(f, p.exit_node or f.node, construct,
                    "this constructing path never names the levels of the result index after the keys")
    if n < 3:
        raise AnalysisError(f"P9: only {n} constructing paths (floor 3)")
    return res


def rule_P11(repo: Repo) -> RuleResult:
    res = RuleResult("P11", "transform path restores the inputs' index and container")
    from .canon import canon_func
    f = canon_func(repo, CORE, "GroupBy._apply_gb_reduction")
    tr = [n for n in walk_no_nested(f.node) if isinstance(n, ast.If) and isinstance(n.test, ast.Name) and n.test.id == "transform"]
    if not tr:
        raise AnalysisError("P11: transform branch not found")
    blk = tr[0]
    txt = " ; ".join(norm(s) for s in ast.walk(blk) if isinstance(s, ast.Assign))
    if "result_index = common_index" in txt and "pd.RangeIndex(len(self))" in txt:
        res.ok(f, blk, "transform: result_index = common_index or RangeIndex(len(self))", "")
    else:
        res.bad(f, blk, "transform index: " + txt[:120],
                "with transform=True the result must carry the inputs' common index (or a RangeIndex of the key length)")
    rp = [n for n in walk_no_nested(f.node) if isinstance(n, ast.Assign)
          and any(isinstance(t, ast.Name) and t.id == "return_polars" for t in n.targets)]
    if rp and "_values_is_polars(type_list)" in norm(rp[0].value) and "transform" in norm(rp[0].value):
        res.ok(f, rp[0], norm(rp[0]), "container follows the inputs' types")
    else:
        res.bad(f, rp[0] if rp else f.node, norm(rp[0]) if rp else "return_polars",
                "the polars branch is no longer selected from the inputs' type list on the transform path")
    return res
