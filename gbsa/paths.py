"""L2 path enumerator: all acyclic paths through a statement list, branch tests kept symbolic,
plus a tiny symbolic store used to recognise identity stores (``s[k] = out[i]`` after
``out[i] = s[k]``)."""
from __future__ import annotations

import ast
from dataclasses import dataclass, field
from typing import Dict, Iterator, List, Optional, Set, Tuple

from .model import AnalysisError, norm


import os
SPLIT_BOOL_DEFAULT = bool(os.environ.get('GBSA_SPLIT_BOOL'))


@dataclass
class SymPath:
    conds: List[Tuple[ast.expr, Optional[bool]]] = field(default_factory=list)
    stmts: List[ast.stmt] = field(default_factory=list)
    exit: str = "fall"                  # fall | continue | break | return | raise
    exit_node: Optional[ast.stmt] = None

    def extend(self, cond=None, stmt=None) -> "SymPath":
        p = SymPath(list(self.conds), list(self.stmts), self.exit, self.exit_node)
        if cond is not None:
            p.conds.append(cond)
        if stmt is not None:
            p.stmts.append(stmt)
        return p

    def describe(self) -> str:
        parts = []
        for t, pol in self.conds:
            txt = norm(t) if isinstance(t, ast.AST) else str(t)
            if len(txt) > 60:
                txt = txt[:57] + "..."
            parts.append(("" if pol else "not ") + f"({txt})")
        return " & ".join(parts) + f" -> {self.exit}"

    def cond_true(self, pred) -> bool:
        return any(pol is True and pred(t) for t, pol in self.conds if isinstance(t, ast.AST))

    # ---------------------------------------------------------------- symbolic identity detection
    def state_stores(self, arrays: Set[str]) -> Iterator[Tuple[ast.stmt, ast.Subscript, str, bool]]:
        env: Dict[str, str] = {}
        cells: Dict[Tuple[str, str], str] = {}
        written: Dict[str, Set[str]] = {}
        fresh = [0]

        def opaque(tag: str) -> str:
            fresh[0] += 1
            return f"?{tag}{fresh[0]}"

        def base(sub: ast.Subscript) -> Optional[str]:
            v = sub.value
            return v.id if isinstance(v, ast.Name) else None

        def sym(e: Optional[ast.AST]) -> str:
            if e is None:
                return "None"
            if isinstance(e, ast.Name):
                return env.get(e.id, e.id)
            if isinstance(e, ast.Constant):
                return repr(e.value)
            if isinstance(e, ast.Subscript):
                b = base(e)
                idx = sym(e.slice)
                if b is not None:
                    if (b, idx) in cells:
                        return cells[(b, idx)]
                    if written.get(b):
                        return opaque(f"{b}[{idx}]")   # may alias an earlier store at another index
                    return f"{b}[{idx}]@pre"
                return f"{sym(e.value)}[{idx}]"
            if isinstance(e, ast.Tuple):
                return "(" + ", ".join(sym(x) for x in e.elts) + ")"
            if isinstance(e, ast.BinOp):
                return f"({sym(e.left)} {type(e.op).__name__} {sym(e.right)})"
            if isinstance(e, ast.UnaryOp):
                return f"({type(e.op).__name__} {sym(e.operand)})"
            if isinstance(e, ast.Attribute):
                return f"{sym(e.value)}.{e.attr}"
            if isinstance(e, ast.Call):
                args = ", ".join([sym(a) for a in e.args] + [f"{k.arg}={sym(k.value)}" for k in e.keywords])
                return f"{sym(e.func)}({args})"
            if isinstance(e, ast.Compare):
                return "(" + sym(e.left) + "".join(
                    f" {type(o).__name__} {sym(c)}" for o, c in zip(e.ops, e.comparators)) + ")"
            if isinstance(e, ast.Slice):
                return f"{sym(e.lower)}:{sym(e.upper)}:{sym(e.step)}"
            if isinstance(e, ast.IfExp):
                return f"({sym(e.body)} if {sym(e.test)} else {sym(e.orelse)})"
            if isinstance(e, ast.BoolOp):
                return "(" + f" {type(e.op).__name__} ".join(sym(v) for v in e.values) + ")"
            return opaque(type(e).__name__)

        def store(st, t: ast.AST, val: str):
            if isinstance(t, ast.Name):
                env[t.id] = val
                return None
            if isinstance(t, ast.Subscript):
                b = base(t)
                idx = sym(t.slice)
                if b is None:
                    return None
                if (b, idx) in cells:
                    cur = cells[(b, idx)]
                elif written.get(b):
                    cur = opaque("cur")
                else:
                    cur = f"{b}[{idx}]@pre"
                ident = (val == cur)
                cells[(b, idx)] = val
                written.setdefault(b, set()).add(idx)
                # stores at other indices of the same array are invalidated
                for key in [k for k in cells if k[0] == b and k[1] != idx]:
                    del cells[key]
                if b in arrays:
                    return (st, t, val, ident)
            return None

        for st in self.stmts:
            results = []
            if isinstance(st, ast.Assign):
                if len(st.targets) == 1 and isinstance(st.targets[0], (ast.Tuple, ast.List)):
                    tgt = st.targets[0]
                    if isinstance(st.value, (ast.Tuple, ast.List)) and len(st.value.elts) == len(tgt.elts):
                        vals = [sym(v) for v in st.value.elts]
                    else:
                        base_v = sym(st.value)
                        vals = [f"{base_v}#{i}" for i in range(len(tgt.elts))]
                    for t, v in zip(tgt.elts, vals):
                        results.append(store(st, t, v))
                else:
                    v = sym(st.value)
                    for t in st.targets:
                        results.append(store(st, t, v))
            elif isinstance(st, ast.AugAssign):
                t = st.target
                cur = sym(t) if not isinstance(t, ast.Name) else env.get(t.id, t.id)
                v = f"({cur} {type(st.op).__name__} {sym(st.value)})"
                results.append(store(st, t, v))
            elif isinstance(st, (ast.For, ast.While)):
                # opaque nested loop: every subscript store inside is a non-identity store
                for n in ast.walk(st):
                    if isinstance(n, (ast.Assign, ast.AugAssign)):
                        tgts = n.targets if isinstance(n, ast.Assign) else [n.target]
                        for t in tgts:
                            for s in ast.walk(t):
                                if isinstance(s, ast.Subscript) and isinstance(s.ctx, ast.Store):
                                    b = base(s)
                                    if b:
                                        written.setdefault(b, set()).add("?")
                                        for key in [k for k in cells if k[0] == b]:
                                            del cells[key]
                                        if b in arrays:
                                            results.append((n, s, "?loop", False))
                            for s in ast.walk(t):
                                if isinstance(s, ast.Name) and isinstance(s.ctx, ast.Store):
                                    env[s.id] = opaque(s.id)
            for r in results:
                if r is not None:
                    yield r


def enumerate_paths(stmts: List[ast.stmt], limit: int = 20000, split_bool: Optional[bool] = None) -> List[SymPath]:
    """All acyclic paths through ``stmts``.  Nested loops are kept as opaque statements."""
    if split_bool is None:
        split_bool = SPLIT_BOOL_DEFAULT
    done: List[SymPath] = []

    def run(block: List[ast.stmt], live: List[SymPath]) -> List[SymPath]:
        for st in block:
            if not live:
                break
            live = step(st, live)
            if len(live) + len(done) > limit:
                raise AnalysisError(f"path explosion (> {limit} paths)")
        return live

    def finish(paths: List[SymPath], kind: str, node):
        for p in paths:
            p.exit = kind
            p.exit_node = node
            done.append(p)

    def branch(p: SymPath, test: ast.expr, pol: bool) -> List[SymPath]:
        """the ways `test` can come out as `pol`, with short-circuit evaluation made explicit:  `A or B` is true by A, or by
        not-A and B;  false by not-A and not-B  (dually for `and`; `not A` flips).  Merging two guards into one compound test,
        or splitting one, therefore gives the same paths with the same atomic conditions."""
        if not split_bool:
            return [p.extend(cond=(test, pol))]
        if isinstance(test, ast.UnaryOp) and isinstance(test.op, ast.Not):
            return branch(p, test.operand, not pol)
        if isinstance(test, ast.BoolOp):
            is_or = isinstance(test.op, ast.Or)
            outs: List[SymPath] = []
            prefix = [p]                      # paths on which every earlier operand did NOT decide the result
            for k, operand in enumerate(test.values):
                last = k == len(test.values) - 1
                if pol == is_or:
                    # result decided by this operand being `is_or` (true for or, false for and)
                    for q in prefix:
                        outs.extend(branch(q, operand, is_or))
                    if not last:
                        prefix = [r for q in prefix for r in branch(q, operand, not is_or)]
                else:
                    prefix = [r for q in prefix for r in branch(q, operand, not is_or)]
                    if last:
                        outs = prefix
            return outs
        return [p.extend(cond=(test, pol))]

    def step(st: ast.stmt, live: List[SymPath]) -> List[SymPath]:
        if isinstance(st, ast.If):
            t_paths = run(st.body, [q for p in live for q in branch(p, st.test, True)])
            f_paths = run(st.orelse, [q for p in live for q in branch(p, st.test, False)])
            return t_paths + f_paths
        if isinstance(st, ast.Return):
            finish([p.extend(stmt=st) for p in live], "return", st)
            return []
        if isinstance(st, ast.Raise):
            finish([p.extend(stmt=st) for p in live], "raise", st)
            return []
        if isinstance(st, ast.Continue):
            finish(live, "continue", st)
            return []
        if isinstance(st, ast.Break):
            finish(live, "break", st)
            return []
        if isinstance(st, (ast.With, ast.AsyncWith)):
            return run(st.body, list(live))
        if isinstance(st, ast.Try):
            body_paths = run(st.body + st.orelse, list(live))
            outs = list(body_paths)
            for h in st.handlers:
                outs += run(h.body, [p.extend(cond=(h, True)) for p in live])
            if st.finalbody:
                outs = run(st.finalbody, outs)
            return outs
        if isinstance(st, ast.Match):
            outs = []
            for case in st.cases:
                outs += run(case.body, [p.extend(cond=(case.pattern, True)) for p in live])
            return outs
        # simple statements and opaque nested loops
        return [p.extend(stmt=st) for p in live]

    rest = run(stmts, [SymPath()])
    for p in rest:
        p.exit = "fall"
        done.append(p)
    return done


class SymEnv:
    """forward substitution of simple assignments along one path (names only)"""

    def __init__(self, params=()):
        self.env = {}
        self.params = set(params)

    def sym(self, e) -> str:
        if e is None:
            return "None"
        if isinstance(e, ast.Name):
            return self.env.get(e.id, e.id)
        if isinstance(e, ast.Constant):
            return repr(e.value)
        if isinstance(e, ast.BinOp):
            l, r = self.sym(e.left), self.sym(e.right)
            if isinstance(e.op, (ast.Add, ast.Mult)) and l > r:
                l, r = r, l
            return f"({l} {type(e.op).__name__} {r})"
        if isinstance(e, ast.UnaryOp):
            return f"({type(e.op).__name__} {self.sym(e.operand)})"
        if isinstance(e, ast.Attribute):
            return f"{self.sym(e.value)}.{e.attr}"
        if isinstance(e, ast.Call):
            args = ", ".join([self.sym(a) for a in e.args] + [f"{k.arg}={self.sym(k.value)}" for k in e.keywords])
            return f"{self.sym(e.func)}({args})"
        if isinstance(e, ast.Subscript):
            return f"{self.sym(e.value)}[{self.sym(e.slice)}]"
        if isinstance(e, ast.Tuple):
            return "(" + ", ".join(self.sym(x) for x in e.elts) + ")"
        if isinstance(e, ast.Compare):
            return "(" + self.sym(e.left) + "".join(
                f" {type(o).__name__} {self.sym(c)}" for o, c in zip(e.ops, e.comparators)) + ")"
        if isinstance(e, ast.IfExp):
            return f"({self.sym(e.body)} if {self.sym(e.test)} else {self.sym(e.orelse)})"
        if isinstance(e, ast.BoolOp):
            return "(" + f" {type(e.op).__name__} ".join(self.sym(v) for v in e.values) + ")"
        return norm(e)

    def assign(self, st):
        if isinstance(st, ast.Assign) and len(st.targets) == 1 and isinstance(st.targets[0], ast.Name):
            self.env[st.targets[0].id] = self.sym(st.value)
        elif isinstance(st, ast.AugAssign) and isinstance(st.target, ast.Name):
            cur = self.env.get(st.target.id, st.target.id)
            self.env[st.target.id] = f"({cur} {type(st.op).__name__} {self.sym(st.value)})"
        elif isinstance(st, ast.Assign):
            for t in st.targets:
                for n in ast.walk(t):
                    if isinstance(n, ast.Name) and isinstance(n.ctx, ast.Store):
                        self.env[n.id] = f"?{n.id}@{st.lineno}"


def infeasible(p: SymPath) -> bool:
    """the path decides the same test both ways although nothing between the two decisions can change it: no statement of
    the path in between assigns a name the test reads, and none calls a method on an object the test reads (self.m() may
    change self.attr)"""
    seen: Dict[str, Tuple[bool, int]] = {}
    for t, pol in p.conds:
        if not isinstance(t, ast.AST) or not hasattr(t, "lineno"):
            continue
        txt = norm(t)
        if txt in seen and seen[txt][0] is not pol:
            lo, hi = sorted((seen[txt][1], t.lineno))
            reads = {n.id for n in ast.walk(t) if isinstance(n, ast.Name)}
            changed = False
            for st in p.stmts:
                if not (lo <= getattr(st, "lineno", -1) <= hi):
                    continue
                for n in ast.walk(st):
                    if isinstance(n, ast.Name) and isinstance(n.ctx, ast.Store) and n.id in reads:
                        changed = True
                    if isinstance(n, ast.Call) and isinstance(n.func, ast.Attribute) and isinstance(n.func.value, ast.Name) \
                            and n.func.value.id in reads:
                        changed = True
                    if isinstance(n, (ast.Attribute, ast.Subscript)) and isinstance(n.ctx, ast.Store):
                        b = n
                        while isinstance(b, (ast.Attribute, ast.Subscript)):
                            b = b.value
                        if isinstance(b, ast.Name) and b.id in reads:
                            changed = True
            if not changed:
                return True
        seen.setdefault(txt, (pol, t.lineno))
    return False
