"""A rules: API rules (validation, decorator names, parameter forwarding, facade delegation, link check)."""
from __future__ import annotations

import ast
import importlib.machinery
import os
import sys
from typing import Dict, List, Optional, Set, Tuple

from .consteval import (CS, TOP, Binding, CallRecord, ClsRef, DictVal, Evaluator, FuncRef, ModRef, ParamVal,
                        bind_call)
from .model import AnalysisError, Func, Repo, attr_chain, call_name, norm, walk_no_nested
from .paths import SymPath, enumerate_paths
from .report import RuleResult

CORE = "groupby.core"
API = "groupby.api"


# ------------------------------------------------------------------------------- A2

def rule_A2(repo: Repo) -> RuleResult:
    res = RuleResult("A2", "every name given to check_data_inputs_aligned is a parameter of the decorated function")
    n = 0
    for f in repo.all_functions():
        for d in f.node.decorator_list:
            if isinstance(d, ast.Call) and norm(d.func).split(".")[-1] == "check_data_inputs_aligned":
                n += 1
                names = [a.value for a in d.args if isinstance(a, ast.Constant) and isinstance(a.value, str)]
                params = set(f.named_params)
                bad = [x for x in names if x not in params]
                construct = f"@{norm(d)} on {f.qualname}"
                if len(names) != len(d.args):
                    raise AnalysisError(f"A2: non-literal argument in {construct}")
                if bad:
                    res.bad(f, d, construct,
                            f"{bad} name no parameter of {f.qualname}({', '.join(f.named_params)}): the decorator checks only "
                            f"parameters whose name is listed, so nothing is compared and misaligned inputs are accepted")
                elif not names:
                    res.ok(f, d, construct, "no names: every sized argument is compared")
                else:
                    res.ok(f, d, construct, "all names are parameters")
    if n < 4:
        raise AnalysisError(f"A2: only {n} decorated functions found (floor 4)")
    return res


# ------------------------------------------------------------------------------- A8

_SRC_CACHE: Dict[str, Optional[Set[str]]] = {}


def _find_module(name: str) -> Tuple[Optional[str], Optional[List[str]]]:
    """(origin, submodule_search_locations) of a dotted module name, located without importing it"""
    parts = name.split(".")
    path = None
    spec = None
    for i, p in enumerate(parts):
        full = ".".join(parts[: i + 1])
        try:
            spec = importlib.machinery.PathFinder.find_spec(full, path)
        except (ImportError, ValueError):
            spec = None
        if spec is None:
            return None, None
        path = list(spec.submodule_search_locations) if spec.submodule_search_locations else None
        if path is None and i < len(parts) - 1:
            return None, None
    return (spec.origin if spec else None), path


def _top_level_names(origin: str) -> Optional[Set[str]]:
    if origin in _SRC_CACHE:
        return _SRC_CACHE[origin]
    if not origin or not origin.endswith(".py"):
        _SRC_CACHE[origin] = None            # extension module / namespace: trusted
        return None
    try:
        tree = ast.parse(open(origin, encoding="utf-8").read())
    except Exception:
        _SRC_CACHE[origin] = None
        return None
    names: Set[str] = set()
    star = False

    def visit(body):
        nonlocal star
        for st in body:
            if isinstance(st, (ast.FunctionDef, ast.AsyncFunctionDef, ast.ClassDef)):
                names.add(st.name)
            elif isinstance(st, ast.Assign):
                for t in st.targets:
                    for n in ast.walk(t):
                        if isinstance(n, ast.Name):
                            names.add(n.id)
            elif isinstance(st, ast.AnnAssign) and isinstance(st.target, ast.Name):
                names.add(st.target.id)
            elif isinstance(st, ast.Import):
                for a in st.names:
                    names.add((a.asname or a.name).split(".")[0])
            elif isinstance(st, ast.ImportFrom):
                for a in st.names:
                    if a.name == "*":
                        star = True
                    names.add(a.asname or a.name)
            elif isinstance(st, (ast.If, ast.Try, ast.With)):
                for fld in ("body", "orelse", "finalbody"):
                    visit(getattr(st, fld, []) or [])
                for h in getattr(st, "handlers", []) or []:
                    visit(h.body)

    visit(tree.body)
    if star or "__getattr__" in names:
        _SRC_CACHE[origin] = None            # dynamic namespace: trusted
        return None
    _SRC_CACHE[origin] = names
    return names


def _resolve_attr(modname: str, attrs: List[str]) -> Tuple[bool, str]:
    """does modname.attr1.attr2... resolve?  follows submodules, then one name in a module's source"""
    cur = modname
    for i, a in enumerate(attrs):
        origin, path = _find_module(cur)
        if origin is None and path is None:
            return False, f"module {cur} not found"
        sub_origin, sub_path = _find_module(cur + "." + a)
        if sub_origin is not None or sub_path is not None:
            cur = cur + "." + a
            continue
        names = _top_level_names(origin) if origin else None
        if names is None:
            return True, "trusted (extension / dynamic namespace)"
        if a in names:
            return True, f"{a} defined in {cur}"      # deeper attributes are attributes of an object: not followed
        return False, f"{cur} has no top-level name {a!r} and no submodule {a!r}"
    return True, "module"


def rule_A8(repo: Repo) -> RuleResult:
    res = RuleResult("A8", "every third-party import / private attribute path used by the package resolves in the pinned environment")
    n = 0
    for mod in repo.modules.values():
        if mod.name.startswith("plotting") or mod.name == "extensions":
            continue
        aliases: Dict[str, str] = {}
        func_of: Dict[int, str] = {}
        for f in mod.functions.values():
            for x in ast.walk(f.node):
                func_of.setdefault(id(x), f.qualname)
        for node in ast.walk(mod.tree):
            if isinstance(node, ast.Import):
                for a in node.names:
                    if a.name.split(".")[0] in ("groupby_lib",):
                        continue
                    n += 1
                    origin, path = _find_module(a.name)
                    aliases[(a.asname or a.name).split(".")[0]] = a.name if a.asname else a.name.split(".")[0]
                    where = func_of.get(id(node), "<module>")
                    if origin is None and path is None:
                        res.bad_at(mod.relpath, node.lineno, where, f"import {a.name}",
                                   f"module {a.name} cannot be located in the pinned environment: ImportError at run time")
                    else:
                        res.ok_at(mod.relpath, node.lineno, where, f"import {a.name}", "located", nontrivial=False)
            elif isinstance(node, ast.ImportFrom):
                if node.level > 0 or (node.module or "").split(".")[0] == "groupby_lib":
                    continue
                if node.module in ("__future__",):
                    continue
                where = func_of.get(id(node), "<module>")
                for a in node.names:
                    n += 1
                    ok, why = _resolve_attr(node.module, [a.name])
                    construct = f"from {node.module} import {a.name}"
                    private = ".core" in node.module or "._" in node.module
                    if ok:
                        res.ok_at(mod.relpath, node.lineno, where, construct, why, nontrivial=private)
                    else:
                        res.bad_at(mod.relpath, node.lineno, where, construct,
                                   f"{why}: this import raises when the function runs (e.g. every margins= call)")
        # attribute paths through private packages: pd.core.sorting.lexsort_indexer
        for node in ast.walk(mod.tree):
            if isinstance(node, ast.Attribute):
                c = attr_chain(node)
                if c and c[0] in aliases and len(c) >= 3 and c[1] in ("core", "api", "_libs", "compat") \
                        and not isinstance(getattr(node, "_parent_is_attr", None), bool):
                    # only the longest chain
                    pass
        seen_chains: Set[Tuple[str, ...]] = set()
        parents: Dict[int, ast.AST] = {}
        for p in ast.walk(mod.tree):
            for ch in ast.iter_child_nodes(p):
                parents[id(ch)] = p
        for node in ast.walk(mod.tree):
            if isinstance(node, ast.Attribute) and not isinstance(parents.get(id(node)), ast.Attribute):
                c = attr_chain(node)
                if c and c[0] in aliases and len(c) >= 3 and c[1] in ("core", "_libs", "compat"):
                    if c in seen_chains:
                        continue
                    seen_chains.add(c)
                    n += 1
                    ok, why = _resolve_attr(aliases[c[0]], list(c[1:]))
                    where = func_of.get(id(node), "<module>")
                    construct = ".".join(c)
                    if ok:
                        res.ok_at(mod.relpath, node.lineno, where, construct, why)
                    else:
                        res.bad_at(mod.relpath, node.lineno, where, construct, f"{why}: AttributeError at run time")
    res.analysed = {"imports_and_paths": n, "sys_prefix": sys.prefix}
    if n < 30:
        raise AnalysisError(f"A8: only {n} imports / attribute paths examined (floor 30)")
    return res


# ------------------------------------------------------------------------------- facade: A4, A5, A6, A7

def _facade_calls(repo: Repo):
    """yield (method Func, call node, callee Func in core.GroupBy, Binding, Evaluator)"""
    api = repo.mod(API)
    core = repo.mod(CORE)
    gb = core.methods("GroupBy")
    for clsname in ("BaseGroupBy", "BaseGroupByRolling", "SeriesGroupBy", "DataFrameGroupBy"):
        for name, m in api.methods(clsname).items():
            ev = Evaluator(repo)
            ev.run(m)
            getattr_targets: Dict[str, List[Func]] = {}
            for n in walk_no_nested(m.node):
                if isinstance(n, ast.Assign) and len(n.targets) == 1 and isinstance(n.targets[0], ast.Name) \
                        and isinstance(n.value, ast.Call) and norm(n.value.func) == "getattr" and len(n.value.args) >= 2:
                    base = attr_chain(n.value.args[0])
                    if base and base[-1] == "_grouper":
                        pat = n.value.args[1]
                        pre = ""
                        if isinstance(pat, ast.JoinedStr):
                            pre = "".join(v.value for v in pat.values if isinstance(v, ast.Constant))
                        cands = [f for q, f in gb.items() if q.startswith(pre) and not q.startswith("_")] if pre else []
                        getattr_targets[n.targets[0].id] = cands
            for rec in ev.calls:
                call = rec.node
                c = attr_chain(call.func)
                callees: List[Func] = []
                if c and len(c) >= 3 and c[-2] == "_grouper" and c[-1] in gb:
                    callees = [gb[c[-1]]]
                elif isinstance(call.func, ast.Name) and call.func.id in getattr_targets:
                    callees = getattr_targets[call.func.id]
                for callee in callees:
                    b = bind_call(ev, rec, callee, skip_self=True)
                    yield m, call, callee, b, ev


VALUE_PARAMS = ("values", "values1", "values2")


def _resolve_local(m: Func, e: Optional[ast.AST], depth: int = 0) -> Optional[ast.AST]:
    """a Name with exactly one assignment in the method stands for the assigned expression"""
    if isinstance(e, ast.Name) and depth < 4 and e.id not in m.named_params:
        defs = [n for n in walk_no_nested(m.node) if isinstance(n, ast.Assign) and len(n.targets) == 1
                and isinstance(n.targets[0], ast.Name) and n.targets[0].id == e.id]
        stores = [n for n in walk_no_nested(m.node) if isinstance(n, ast.Name) and n.id == e.id and isinstance(n.ctx, ast.Store)]
        if len(defs) == 1 and len(stores) == 1:
            return _resolve_local(m, defs[0].value, depth + 1)
    return e


def _is_selected_values(e: Optional[ast.AST]) -> bool:
    c = attr_chain(e) if e is not None else None
    return c is not None and c[-1] == "_values_to_group" and c[0] == "self"


def _is_whole_object(e: Optional[ast.AST]) -> bool:
    c = attr_chain(e) if e is not None else None
    return c is not None and c[-1] == "_obj" and c[0] == "self"


def rule_A4(repo: Repo) -> RuleResult:
    res = RuleResult("A4", "every facade delegation passes the selected value columns, never the whole object")
    n = 0
    for m, call, callee, b, ev in _facade_calls(repo):
        for p in VALUE_PARAMS:
            if p in callee.named_params:
                n += 1
                e = _resolve_local(m, b.exprs.get(p))
                construct = f"{m.qualname} -> GroupBy.{callee.name}({p}={norm(e) if e is not None else '<unbound>'})"
                if _is_selected_values(e):
                    res.ok(m, call, construct, "selected value columns")
                elif _is_whole_object(e):
                    res.bad(m, call, construct,
                            "the whole grouped object is passed instead of the selected value columns: column selection with "
                            "[] is ignored and key columns are aggregated")
                elif e is None:
                    res.bad(m, call, construct, "the values parameter of the core method is not bound")
                else:
                    res.bad(m, call, construct, "the values parameter is bound to something other than the selected value columns")
    if n < 20:
        raise AnalysisError(f"A4: only {n} facade delegations with a values parameter found (floor 20)")
    return res


def _role_of_actual(e: ast.AST) -> str:
    if _is_selected_values(e) or _is_whole_object(e):
        return "values"
    if isinstance(e, ast.Name):
        if e.id in ("mask",):
            return "mask"
        return "scalar:" + e.id
    if isinstance(e, ast.Attribute) and attr_chain(e) and attr_chain(e)[0] == "self":
        return "scalar:" + attr_chain(e)[-1].lstrip("_")
    return "other"


def _role_of_param(p: str) -> str:
    if p in VALUE_PARAMS:
        return "values"
    if p in ("mask",):
        return "mask"
    return "scalar:" + p


def rule_A5(repo: Repo) -> RuleResult:
    res = RuleResult("A5", "facade -> core calls bind every actual to a parameter of the same role")
    n = 0
    for m, call, callee, b, ev in _facade_calls(repo):
        for p, e in b.exprs.items():
            if e is None or b.via.get(p) in ("receiver",):
                continue
            e = _resolve_local(m, e)
            ra, rp = _role_of_actual(e), _role_of_param(p)
            if ra == "other":
                continue
            n += 1
            construct = f"{m.qualname} -> GroupBy.{callee.name}: {norm(e)} -> {p}"
            major_a, major_p = ra.split(":")[0], rp.split(":")[0]
            if major_a != major_p:
                res.bad(m, call, construct,
                        f"an actual in the {major_a} role is bound to the {major_p} parameter {p!r} of the core method "
                        f"(e.g. the grouped values used as a row filter)")
            elif major_a == "scalar" and ra != rp and ra[7:] in callee.named_params:
                res.bad(m, call, construct,
                        f"{ra[7:]!r} is bound to parameter {p!r} although the core method has a parameter {ra[7:]!r} (swapped actuals)")
            else:
                res.ok(m, call, construct, "same role")
        for dp, de in b.duplicates:
            res.bad(m, call, f"{m.qualname} -> GroupBy.{callee.name}: {norm(de) if de is not None else '?'} -> {dp} (also keyword)",
                    f"a positional actual lands on parameter {dp!r} of the core method, which is also passed by keyword "
                    f"(TypeError: multiple values) - the positional actual was meant for another parameter")
        for extra in b.unbound_extra:
            res.bad(m, call, f"{m.qualname} -> GroupBy.{callee.name}: keyword {extra}",
                    f"keyword {extra!r} matches no parameter of the core method (TypeError at run time)")
        # positional overflow
        npos = len([a for a in call.args if not isinstance(a, ast.Starred)])
        if npos > len(callee.named_params) - 1 and not callee.node.args.vararg:
            res.bad(m, call, f"{m.qualname} -> GroupBy.{callee.name}: {npos} positional arguments",
                    "more positional arguments than the core method takes")
    if n < 40:
        raise AnalysisError(f"A5: only {n} bound actuals examined (floor 40)")
    return res


def rule_A6(repo: Repo) -> RuleResult:
    res = RuleResult("A6", "row positions obtained from groups are used positionally (.iloc / take), never as labels")
    api = repo.mod(API)
    n = 0
    for f in api.functions.values():
        for loop in [x for x in walk_no_nested(f.node) if isinstance(x, ast.For)]:
            it = loop.iter
            if isinstance(it, ast.Call) and isinstance(it.func, ast.Attribute) and it.func.attr in ("items", "values") \
                    and "groups" in norm(it.func.value):
                t = loop.target
                idx_names = {x.id for x in ast.walk(t.elts[-1] if isinstance(t, ast.Tuple) else t) if isinstance(x, ast.Name)}
                for s in ast.walk(loop):
                    if isinstance(s, ast.Subscript) and isinstance(s.slice, ast.Name) and s.slice.id in idx_names:
                        n += 1
                        v = s.value
                        if isinstance(v, ast.Attribute) and v.attr == "iloc":
                            res.ok(f, s, norm(s), "positional")
                        elif isinstance(v, ast.Attribute) and v.attr in ("loc", "at"):
                            res.bad(f, s, norm(s),
                                    "row positions from groups are used as index labels: on any index other than 0..n-1 this "
                                    "raises KeyError or yields other rows")
                        else:
                            res.bad(f, s, norm(s), "row positions are used with plain [] (label-based for Series / columns for frames)")
                for s in ast.walk(loop):
                    if isinstance(s, ast.Call) and isinstance(s.func, ast.Attribute) and s.func.attr == "take" and s.args \
                            and isinstance(s.args[0], ast.Name) and s.args[0].id in idx_names:
                        n += 1
                        res.ok(f, s, norm(s), "positional (take)")
    if n < 1:
        raise AnalysisError("A6: iteration over groups not found in the facade")
    return res


def rule_A7(repo: Repo) -> RuleResult:
    res = RuleResult("A7", "columns used as keys are excluded from the values; _values_to_group reads only value_columns")
    api = repo.mod(API)
    f = api.func("DataFrameGroupBy._from_by_keys")
    obj = [p for p in f.named_params if p not in ("cls", "self")][0]
    # roles by dataflow: the constructor call cls(obj, grouper=..., value_columns=<V>); V's definition; the key-column set K
    ctor = [n for n in walk_no_nested(f.node) if isinstance(n, ast.Call) and norm(n.func) == "cls"]
    vc_kw = next((k.value for c in ctor for k in c.keywords if k.arg == "value_columns"), None)
    if ctor and isinstance(vc_kw, ast.Name):
        res.ok(f, ctor[0], norm(ctor[0]), "value_columns handed to the constructor")
    else:
        res.bad(f, ctor[0] if ctor else f.node, norm(ctor[0]) if ctor else "cls(...)", "value_columns is not handed to the constructor")
        return _a7_tail(repo, res)
    vname = vc_kw.id
    vc = [n for n in walk_no_nested(f.node) if isinstance(n, ast.Assign)
          and any(isinstance(t, ast.Name) and t.id == vname for t in n.targets)]
    kset = None
    ok = False
    if vc and isinstance(vc[0].value, ast.ListComp):
        lc = vc[0].value
        g = lc.generators[0]
        src_ok = norm(g.iter) == f"{obj}.columns"
        for c in g.ifs:
            if isinstance(c, ast.Compare) and len(c.ops) == 1 and isinstance(c.ops[0], ast.NotIn) \
                    and isinstance(c.comparators[0], ast.Name) and norm(c.left) == norm(g.target):
                kset = c.comparators[0].id
        ok = src_ok and kset is not None and norm(lc.elt) == norm(g.target)
    if ok:
        res.ok(f, vc[0], norm(vc[0]), "columns minus key columns")
    else:
        res.bad(f, vc[0] if vc else f.node, norm(vc[0]) if vc else "value_columns",
                "value columns are not computed as the frame's columns minus the columns used as keys")
        return _a7_tail(repo, res)
    # every key taken from a column (keys.append(obj[key])) is recorded in K in the same block
    appends = [n for n in walk_no_nested(f.node) if isinstance(n, ast.Call) and isinstance(n.func, ast.Attribute)
               and n.func.attr == "append" and n.args and isinstance(n.args[0], ast.Subscript) and norm(n.args[0].value) == obj]
    if not appends:
        raise AnalysisError("A7: no key taken from a column found in _from_by_keys")
    for a in appends:
        blk = None
        for n in walk_no_nested(f.node):
            if isinstance(n, (ast.If,)) and any(isinstance(s_, ast.Expr) and s_.value is a for s_ in n.body):
                blk = n
        sib = [s_ for s_ in (blk.body if blk else [])]
        recorded = any(isinstance(s_, ast.Expr) and isinstance(s_.value, ast.Call) and isinstance(s_.value.func, ast.Attribute)
                       and s_.value.func.attr in ("add", "append") and isinstance(s_.value.func.value, ast.Name)
                       and s_.value.func.value.id == kset and s_.value.args
                       and norm(s_.value.args[0]) == norm(a.args[0].slice) for s_ in sib)
        if recorded:
            res.ok(f, a, norm(a), f"recorded in {kset}")
        else:
            res.bad(f, a, norm(a), "a column is used as a key without being recorded as such: it would also be aggregated")
    return _a7_tail(repo, res)


def _a7_tail(repo: Repo, res: RuleResult) -> RuleResult:
    api = repo.mod(API)
    v = api.func("DataFrameGroupBy._values_to_group")
    t = " ".join(norm(s) for s in v.node.body)
    if "self.value_columns" in t and "self._obj.columns" not in t:
        res.ok(v, v.node, "_values_to_group iterates self.value_columns", "")
    else:
        res.bad(v, v.node, "_values_to_group", "the values to group are no longer restricted to value_columns")
    # __getitem__ keeps the grouper and restricts the columns
    g = api.func("DataFrameGroupBy.__getitem__")
    t = " ".join(norm(s) for s in walk_no_nested(g.node) if isinstance(s, ast.Return))
    if "value_columns=key" in t and "grouper=self._grouper" in t:
        res.ok(g, g.node, "__getitem__ -> value_columns=key, same grouper", "")
    else:
        res.bad(g, g.node, "__getitem__", "column selection does not restrict value_columns / keep the grouper")
    return res


# ------------------------------------------------------------------------------- A3 parameter forwarding

def _public_reductions(repo: Repo) -> Dict[str, Func]:
    gb = repo.mod(CORE).methods("GroupBy")
    return {q: f for q, f in gb.items() if not q.startswith("_") and "values" in f.named_params}


def _under_none_test(m: Func, node: ast.AST, p: str) -> bool:
    """is `node` in the arm where `p is None` holds?"""
    for n in ast.walk(m.node):
        if isinstance(n, (ast.IfExp, ast.If)):
            t = norm(n.test)
            body = [n.body] if isinstance(n, ast.IfExp) else n.body
            orelse = [n.orelse] if isinstance(n, ast.IfExp) else n.orelse
            if t == f"{p} is None" and any(x is node for b in body for x in ast.walk(b)):
                return True
            if t == f"{p} is not None" and any(x is node for b in orelse for x in ast.walk(b)):
                return True
    return False


def _forwarding(repo: Repo, res: RuleResult, m: Func, params: List[str], callee_filter=None, rename: Dict[str, str] = None):
    """for each resolved delegation from m: every semantic parameter both sides have is forwarded"""
    rename = rename or {}
    ev = Evaluator(repo)
    ev.run(m)
    gb = repo.mod(CORE).methods("GroupBy")
    n = 0
    getattr_vars: Dict[str, List[Func]] = {}
    getattr_consumed: Dict[str, Set[str]] = {}
    for x in walk_no_nested(m.node):
        if isinstance(x, ast.Assign) and len(x.targets) == 1 and isinstance(x.targets[0], ast.Name) \
                and isinstance(x.value, ast.Call) and norm(x.value.func) == "getattr" and len(x.value.args) >= 2:
            base = x.value.args[0]
            bc = attr_chain(base)
            if norm(base) == "self" or (bc and bc[0] == "self" and bc[-1] == "_grouper"):
                cands = list(_public_reductions(repo).values())
                pat = x.value.args[1]
                if isinstance(pat, ast.JoinedStr):
                    pre = "".join(v.value for v in pat.values if isinstance(v, ast.Constant))
                    if pre:
                        cands = [c for c in cands if c.name.startswith(pre)]
                getattr_vars[x.targets[0].id] = cands
                getattr_consumed[x.targets[0].id] = {y.id for y in ast.walk(x.value.args[1]) if isinstance(y, ast.Name)}
    # deferred calls of a callee that is itself a parameter: signature(func).bind(values=x, **shared) - the semantic
    # parameter must be among the keywords handed to bind (explicitly or through a local dict built in this function)
    for x in walk_no_nested(m.node):
        if isinstance(x, ast.Call) and isinstance(x.func, ast.Attribute) and x.func.attr in ("bind", "bind_partial") \
                and isinstance(x.func.value, ast.Call) and norm(x.func.value.func) in ("signature", "inspect.signature") \
                and x.func.value.args and isinstance(x.func.value.args[0], ast.Name) \
                and x.func.value.args[0].id in m.named_params:
            keys: Dict[str, ast.AST] = {}
            unknown_open = False
            for k in x.keywords:
                if k.arg is not None:
                    keys[k.arg] = k.value
                elif isinstance(k.value, ast.Name):
                    if m.node.args.kwarg is not None and k.value.id == m.node.args.kwarg.arg:
                        continue          # m's own **kwargs cannot contain one of m's named parameters
                    defs = [d for d in walk_no_nested(m.node) if isinstance(d, ast.Assign) and len(d.targets) == 1
                            and isinstance(d.targets[0], ast.Name) and d.targets[0].id == k.value.id]
                    if len(defs) == 1 and isinstance(defs[0].value, ast.Call) and norm(defs[0].value.func) == "dict":
                        for kk in defs[0].value.keywords:
                            if kk.arg is not None:
                                keys[kk.arg] = kk.value
                            elif not (isinstance(kk.value, ast.Name) and m.node.args.kwarg is not None
                                      and kk.value.id == m.node.args.kwarg.arg):
                                unknown_open = True
                        # later item assignments d[k] = v
                        for d in walk_no_nested(m.node):
                            if isinstance(d, ast.Assign) and isinstance(d.targets[0], ast.Subscript) \
                                    and isinstance(d.targets[0].value, ast.Name) and d.targets[0].value.id == k.value.id \
                                    and isinstance(d.targets[0].slice, ast.Constant):
                                keys[d.targets[0].slice.value] = d.value
                    else:
                        unknown_open = True
                else:
                    unknown_open = True
            for p in params:
                if p not in m.named_params:
                    continue
                applied_here = any(isinstance(y, ast.Subscript) and (
                    (isinstance(y.value, ast.Name) and y.value.id == p) or
                    p in {z.id for z in ast.walk(y.slice) if isinstance(z, ast.Name)}) for y in ast.walk(m.node))
                if applied_here:
                    continue      # m applies the parameter itself (apply() filters the rows before calling the user function)
                n += 1
                construct = f"{m.qualname} -> signature({x.func.value.args[0].id}).{x.func.attr}: {p}"
                if p in keys and (p in {y.id for y in ast.walk(keys[p]) if isinstance(y, ast.Name)} or _derived_from(m, keys[p], p)):
                    res.ok(m, x, construct, f"bound to {m.name}'s {p}")
                elif p in keys:
                    res.bad(m, x, construct, f"{p!r} of the deferred call is bound to {norm(keys[p])}, not to {m.name}'s own {p!r}")
                elif unknown_open:
                    res.ok(m, x, construct, "forwarded through a dictionary the analyser cannot enumerate", nontrivial=False)
                else:
                    res.bad(m, x, construct,
                            f"{m.name} accepts {p!r} but the arguments bound for the deferred call of "
                            f"{x.func.value.args[0].id} do not contain it: the kernel runs without the caller's {p}")
    # locals that hold a grouping engine built in this function:  g = GroupBy(...)
    grouper_vars = {x.targets[0].id for x in walk_no_nested(m.node) if isinstance(x, ast.Assign) and len(x.targets) == 1
                    and isinstance(x.targets[0], ast.Name) and isinstance(x.value, ast.Call) and norm(x.value.func) == "GroupBy"}
    for rec in ev.calls:
        call = rec.node
        callees: List[Func] = []
        if isinstance(rec.callee, FuncRef):
            callees = list(rec.callee.funcs)
        elif isinstance(rec.callee, tuple) and rec.callee and rec.callee[0] == "bindmethod":
            callees = list(rec.callee[1])
        elif isinstance(call.func, ast.Name) and call.func.id in getattr_vars:
            kws = {k.arg for k in call.keywords if k.arg}
            callees = [c for c in getattr_vars[call.func.id] if kws <= set(c.named_params) and c is not m]
        else:
            c = attr_chain(call.func)
            if c and len(c) >= 2 and c[-2] == "_grouper" and c[-1] in gb:
                callees = [gb[c[-1]]]
            elif c and len(c) == 2 and c[0] in grouper_vars and c[1] in gb:
                callees = [gb[c[1]]]
            elif c and len(c) == 2 and c[0] == "GroupBy" and c[1] in gb:
                callees = [gb[c[1]]]
        for callee in callees:
            if callee is m and not (isinstance(rec.callee, tuple)):
                pass
            if callee_filter and not callee_filter(callee):
                continue
            if callee.module.name not in (CORE, "groupby.numba", "emas", "nanops", API):
                continue
            via_getattr = isinstance(call.func, ast.Name) and call.func.id in getattr_vars
            skip_self = None
            if via_getattr or (attr_chain(call.func) or ("",))[0] in grouper_vars or \
                    (isinstance(rec.callee, tuple)) and callee.named_params[:1] == ["self"]:
                skip_self = True
            if attr_chain(call.func) and attr_chain(call.func)[0] == "GroupBy" and isinstance(rec.callee, FuncRef):
                # class-level call GroupBy.m(x, ...): the wrapper binds the first actual to self
                skip_self = False
            b = bind_call(ev, rec, callee, skip_self=skip_self)
            for p in params:
                cp = rename.get(p, p)
                if p in m.named_params and cp not in callee.named_params and callee.node.args.kwarg is not None:
                    # the callee collects it in **kwargs (apply(..., q=q) hands q to the user function)
                    kw = next((k for k in call.keywords if k.arg == cp), None)
                    if kw is not None:
                        n += 1
                        construct = f"{m.qualname} -> {callee.qualname}: {cp} (through **{callee.node.args.kwarg.arg})"
                        if p in {x.id for x in ast.walk(kw.value) if isinstance(x, ast.Name)} or _derived_from(m, kw.value, p):
                            res.ok(m, call, construct, f"bound to {m.name}'s {p}")
                        else:
                            res.bad(m, call, construct,
                                    f"{cp!r} is passed on as {norm(kw.value)}, not as {m.name}'s own {p!r}: the caller's {p} is ignored")
                    continue
                if p not in m.named_params or cp not in callee.named_params:
                    continue
                n += 1
                v = b.values.get(cp)
                e = b.exprs.get(cp)
                construct = f"{m.qualname} -> {callee.qualname}: {cp}"
                derived = e is not None and p in {x.id for x in ast.walk(e) if isinstance(x, ast.Name)}
                derived_local = e is not None and _derived_from(m, e, p)
                if (isinstance(v, ParamVal) and v.name == p) or derived or derived_local:
                    res.ok(m, call, construct, f"bound to {m.name}'s {p}" + ("" if isinstance(v, ParamVal) else f" via {norm(e)[:40]}"))
                elif via_getattr and p in getattr_consumed.get(call.func.id, set()):
                    res.ok(m, call, construct, f"{p} selects the callee (getattr)", nontrivial=False)
                elif isinstance(v, CS) and p == "margins" and _tested_locally(m, p):
                    res.ok(m, call, construct, f"constant {v!r}; {m.name} applies its own {p} to the result", nontrivial=False)
                elif cp not in b.values and _under_none_test(m, call, p):
                    res.ok(m, call, construct, f"omitted only where {p} is None", nontrivial=False)
                elif cp not in b.values:
                    if not b.complete:
                        res.ok(m, call, construct, "forwarded through an open **kwargs", nontrivial=False)
                    else:
                        res.bad(m, call, construct,
                                f"{m.name} accepts {p!r} but does not pass it on to {callee.name}: the callee runs with its "
                                f"default and the caller's {p} is silently ignored")
                else:
                    res.bad(m, call, construct,
                            f"{cp!r} of {callee.name} is bound to {norm(e) if e is not None else v!r}, not to {m.name}'s own {p!r}")
    return n


def _tested_locally(m: Func, p: str) -> bool:
    return any(isinstance(n, ast.If) and p in {x.id for x in ast.walk(n.test) if isinstance(x, ast.Name)}
               for n in walk_no_nested(m.node))


def _derived_from(m: Func, e: ast.AST, p: str, depth: int = 0) -> bool:
    """is every Name in e a local whose definition derives from parameter p?  (e.g. margin_levels from margins)"""
    names = [x.id for x in ast.walk(e) if isinstance(x, ast.Name)]
    if not names or depth > 3:
        return False
    for nm in names:
        if nm == p:
            return True
        for n in walk_no_nested(m.node):
            if isinstance(n, (ast.ListComp, ast.GeneratorExp, ast.SetComp, ast.DictComp)):
                for g in n.generators:
                    if nm in {x.id for x in ast.walk(g.target) if isinstance(x, ast.Name)} \
                            and p in {x.id for x in ast.walk(g.iter) if isinstance(x, ast.Name)}:
                        return True
            if isinstance(n, ast.For) and nm in {x.id for x in ast.walk(n.target) if isinstance(x, ast.Name)}:
                # a loop variable derives from what the loop iterates over:  for chunk, m in zip(key_chunks, mask_chunks)
                inames = {x.id for x in ast.walk(n.iter) if isinstance(x, ast.Name)}
                if p in inames:
                    return True
                for vn in inames:
                    if vn not in (nm, "self", "zip", "enumerate", "range", "len") and _derived_from(m, ast.Name(id=vn, ctx=ast.Load()), p, depth + 1):
                        return True
            if isinstance(n, (ast.Assign, ast.AugAssign)):
                tg = n.targets if isinstance(n, ast.Assign) else [n.target]
                if any(isinstance(x, ast.Name) and x.id == nm and isinstance(x.ctx, ast.Store)
                       for t in tg for x in ast.walk(t)):
                    # the definition or its guarding tests mention p (directly or through another derived local)
                    vnames = {x.id for x in ast.walk(n.value) if isinstance(x, ast.Name)}
                    if p in vnames:
                        return True
                    for vn in vnames:
                        if vn != nm and vn != "self" and _derived_from(m, ast.Name(id=vn, ctx=ast.Load()), p, depth + 1):
                            return True
                    for g in _guards_of(m, n):
                        gn = {x.id for x in ast.walk(g) if isinstance(x, ast.Name)}
                        if p in gn:
                            return True
                        for gname in gn:
                            if gname != nm and _derived_from(m, ast.Name(id=gname, ctx=ast.Load()), p, depth + 1):
                                return True
    return False


def _guards_of(m: Func, stmt: ast.stmt) -> List[ast.AST]:
    out: List[ast.AST] = []

    def rec(n, tests):
        if n is stmt:
            out.extend(tests)
            return True
        for fld, val in ast.iter_fields(n):
            if isinstance(val, list):
                for c in val:
                    if isinstance(c, ast.AST):
                        t2 = tests + [n.test] if isinstance(n, ast.If) and fld in ("body", "orelse") else tests
                        if rec(c, t2):
                            return True
        return False

    rec(m.node, [])
    return out


def rule_A3m(repo: Repo) -> RuleResult:
    """mask forwarded at every delegation that has one (C05)"""
    res = RuleResult("A3m", "the mask is forwarded at every delegation from a public operation to a callee that takes one")
    core = repo.mod(CORE)
    n = 0
    for name, m in core.methods("GroupBy").items():
        if "mask" in m.named_params and (not name.startswith("_") or name in (
                "_apply_gb_reduction", "_apply_rolling_or_cumulative_func", "_build_arg_dict_for_function",
                "_apply_gb_func_across_chunked_group_keys")):
            n += _forwarding(repo, res, m, ["mask"])
    for q in ("crosstab", "value_counts"):
        n += _forwarding(repo, res, core.func(q), ["mask"])
    nb = repo.mod("groupby.numba")
    for q, f in nb.functions.items():
        if "." not in q and "mask" in f.named_params and q.startswith(("group_", "rolling_", "cum", "find_", "_apply_", "_group_func")):
            n += _forwarding(repo, res, f, ["mask"])
    res.analysed = {"forwarding_obligations": n}
    if n < 40:
        raise AnalysisError(f"A3m: only {n} mask forwarding obligations found (floor 40)")
    return res


def rule_A3c(repo: Repo) -> RuleResult:
    """composites forward every semantic parameter to the primitives they are defined by (C16)"""
    res = RuleResult("A3c", "composite statistics forward observed_only / margins / transform / mask / ddof to their primitives")
    core = repo.mod(CORE)
    n = 0
    for name in ("agg", "ratio", "subset_ratio", "median", "quantile", "std", "var", "density"):
        m = core.func(f"GroupBy.{name}")
        n += _forwarding(repo, res, m, ["observed_only", "margins", "transform", "mask", "ddof", "agg_func", "q"])
    # ratio: numerator and denominator use the same aggregation arguments
    m = core.func("GroupBy.ratio")
    ev = Evaluator(repo)
    ev.run(m)
    agg = core.func("GroupBy.agg")
    recs = [r for r in ev.calls if isinstance(r.callee, FuncRef) and agg in r.callee.funcs]
    if len(recs) == 2:
        b1, b2 = (bind_call(ev, r, agg) for r in recs)
        e1, e2 = b1.exprs.get("values"), b2.exprs.get("values")
        if norm(e1) == "values1" and norm(e2) == "values2" and isinstance(recs[0].node, ast.Call):
            res.ok(m, recs[0].node, "ratio = agg(values1, **kw) / agg(values2, **kw)", "same keyword set for both")
        else:
            res.bad(m, recs[0].node, f"ratio = agg({norm(e1)}) / agg({norm(e2)})", "ratio must aggregate values1 over values2")
        n += 1
    else:
        raise AnalysisError("A3c: GroupBy.ratio no longer calls agg twice")
    res.analysed = {"forwarding_obligations": n}
    if n < 20:
        raise AnalysisError(f"A3c: only {n} forwarding obligations found (floor 20)")
    return res


def rule_A3x(repo: Repo) -> RuleResult:
    """crosstab forwards mask, margins (as levels) and aggfunc (C14)"""
    res = RuleResult("A3x", "crosstab forwards mask, margins and aggfunc to the grouping it is defined by")
    core = repo.mod(CORE)
    m = core.func("crosstab")
    n = _forwarding(repo, res, m, ["mask", "margins", "aggfunc", "values"], rename={"aggfunc": "agg_func"})
    if n < 5:
        raise AnalysisError(f"A3x: only {n} forwarding obligations found in crosstab (floor 5)")
    return res


def rule_A3f(repo: Repo) -> RuleResult:
    """facade methods forward every same-named parameter to the core method (C17)"""
    res = RuleResult("A3f", "facade methods forward mask / margins / ddof / q / n / window parameters to the core method")
    api = repo.mod(API)
    n = 0
    for clsname in ("BaseGroupBy", "BaseGroupByRolling"):
        for name, m in api.methods(clsname).items():
            if name.startswith("__"):
                continue
            n += _forwarding(repo, res, m, ["mask", "margins", "ddof", "q", "n", "alpha", "halflife", "times",
                                            "index_by_groups"])
    res.analysed = {"forwarding_obligations": n}
    if n < 30:
        raise AnalysisError(f"A3f: only {n} forwarding obligations found (floor 30)")
    return res
