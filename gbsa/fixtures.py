"""Thorough tier, second half of the self-validation: recorded real changes replayed against the CURRENT tree.

Two sets of unified diffs are committed under /verif (nothing is executed, the diffs are applied in memory to the source
text of the working tree and the property's rules are re-run on the result):

  seeded/<id>/patch.diff   changes written by independent sub-agents that break one property while still passing the test
                           suite (confirmed by running their demonstration and the suite).  A seed whose target property is P
                           must make P's rules report a violation that the unpatched tree does not have.
  benign/<id>/patch.diff   behaviour-preserving refactorings written by independent sub-agents (renames, helper extraction,
                           guard inversion, idiom replacement, ...).  Every rule of P must stay silent on every one of them
                           (no new violation, no ANALYSIS-ERROR).

A diff that no longer applies to the working tree (the tree has moved on) is reported as inapplicable and is not a failure.
"""
from __future__ import annotations

import json
import os
import re
import time
import traceback
from concurrent.futures import ProcessPoolExecutor
from typing import Dict, List, Optional, Tuple

from .model import AnalysisError, Repo

VERIF = os.path.dirname(os.path.dirname(os.path.abspath(__file__)))
_HUNK = re.compile(r"^@@ -(\d+)(?:,(\d+))? \+(\d+)(?:,(\d+))? @@")


def parse_unified(text: str) -> Dict[str, List[Tuple[int, List[str]]]]:
    """path -> [(old_start, lines-with-prefix)]"""
    files: Dict[str, List[Tuple[int, List[str]]]] = {}
    cur: Optional[str] = None
    lines = text.splitlines()
    i = 0
    while i < len(lines):
        ln = lines[i]
        if ln.startswith("--- "):
            old = ln[4:].split("\t")[0].strip()
            new = lines[i + 1][4:].split("\t")[0].strip() if i + 1 < len(lines) and lines[i + 1].startswith("+++ ") else ""
            if old == "/dev/null" or new == "/dev/null":
                cur = "<create-or-delete>"
            else:
                cur = new[2:] if new.startswith(("a/", "b/")) else new
            files.setdefault(cur, [])
            i += 2
            continue
        m = _HUNK.match(ln)
        if m and cur is not None:
            start = int(m.group(1))
            body: List[str] = []
            i += 1
            while i < len(lines) and not lines[i].startswith(("@@ ", "diff --git", "--- ")):
                if lines[i].startswith("\\"):       # "\ No newline at end of file"
                    i += 1
                    continue
                body.append(lines[i] if lines[i] else " ")
                i += 1
            files[cur].append((start, body))
            continue
        i += 1
    return files


def apply_hunks(src: str, hunks: List[Tuple[int, List[str]]]) -> Optional[str]:
    lines = src.split("\n")
    offset = 0
    for start, body in hunks:
        old = [b[1:] for b in body if b[0] in " -"]
        new = [b[1:] for b in body if b[0] in " +"]
        pos = None
        want = start - 1 + offset
        for delta in sorted(range(-400, 401), key=abs):       # the stated position first, then nearby (the tree may have moved)
            p = want + delta
            if 0 <= p <= len(lines) - len(old) and lines[p:p + len(old)] == old:
                pos = p
                break
        if pos is None:
            return None
        lines[pos:pos + len(old)] = new
        offset += len(new) - len(old)
    return "\n".join(lines)


def overrides_from_patch(root: str, patch_path: str) -> Optional[Dict[str, str]]:
    with open(patch_path, encoding="utf-8") as fh:
        files = parse_unified(fh.read())
    if not files or "<create-or-delete>" in files:
        return None
    out = {}
    for rel, hunks in files.items():
        full = os.path.join(root, rel)
        if not os.path.isfile(full) or not hunks:
            return None
        with open(full, encoding="utf-8") as fh:
            src = fh.read()
        new = apply_hunks(src, hunks)
        if new is None:
            return None
        try:
            compile(new, rel, "exec")
        except SyntaxError:
            return None
        out[rel] = new
    return out


def _rule_keys(rid: str, repo: Repo):
    from . import cli
    cli._RULE_CACHE.clear()
    res = cli.run_rule(rid, repo)
    cli._RULE_CACHE.clear()
    keys, texts = set(), {}
    for v in res.violations:
        k = (v.rule.partition("@")[0], v.file, v.function, v.construct)
        keys.add(k)
        texts[k] = v.text()
    return keys, texts


_BASE: Dict[tuple, tuple] = {}


def _baseline(root: str, rid: str):
    """violation keys of one rule on the unpatched tree and the set of files the rule consults (a fresh model per rule, so
    that nothing a previous rule cached hides an access)"""
    bk = (root, rid)
    if bk not in _BASE:
        repo = Repo(root)
        repo.stats()
        repo.modules.accessed.clear()
        keys, _ = _rule_keys(rid, repo)
        files = {repo.modules[m].relpath for m in list(repo.modules.accessed) if dict.__contains__(repo.modules, m)}
        _BASE[bk] = (keys, files)
    return _BASE[bk]


def run_fixture(args) -> dict:
    kind, fid, patch_path, rule_ids, root = args
    out = {"kind": kind, "id": fid, "status": "?", "detail": "", "rules_rerun": 0}
    try:
        ov = overrides_from_patch(root, patch_path)
        if ov is None:
            out["status"] = "inapplicable"
            out["detail"] = "the diff does not apply to the working tree"
            return out
        touched = set(ov)
        fresh: List[tuple] = []
        texts: Dict[tuple, str] = {}
        patched = None
        for rid in rule_ids:
            base, files = _baseline(root, rid)
            if not (files & touched):
                continue                 # the rule reads none of the files this diff changes: its verdict is the baseline's
            if patched is None:
                patched = Repo(root, overrides=ov)
            out["rules_rerun"] += 1
            try:
                new, tx = _rule_keys(rid, patched)
            except AnalysisError as e:
                out["status"] = "fail"
                out["detail"] = f"ANALYSIS-ERROR on the {'seeded change' if kind == 'seed' else 'refactoring'}: {e}"
                return out
            for k in sorted(new - base):
                fresh.append(k)
                texts[k] = tx[k]
        if kind == "seed":
            if fresh:
                out["status"] = "pass"
                out["detail"] = texts[fresh[0]][:200]
            else:
                out["status"] = "fail"
                out["detail"] = "the rules of the seed's target property stay silent on it"
        else:
            if fresh:
                out["status"] = "fail"
                out["detail"] = "false alarm on a behaviour-preserving refactoring: " + texts[fresh[0]][:240]
            else:
                out["status"] = "pass"
    except AnalysisError as e:
        out["status"] = "inapplicable"
        out["detail"] = f"the working tree itself cannot be analysed: {e}"
    except Exception as e:
        out["status"] = "fail"
        out["detail"] = f"internal error: {type(e).__name__}: {e}\n" + traceback.format_exc()[-500:]
    return out


def collect(prop: str) -> List[Tuple[str, str, str]]:
    out = []
    sd = os.path.join(VERIF, "seeded")
    if os.path.isdir(sd):
        for d in sorted(os.listdir(sd)):
            mp, pp = os.path.join(sd, d, "meta.json"), os.path.join(sd, d, "patch.diff")
            if os.path.isfile(mp) and os.path.isfile(pp):
                try:
                    meta = json.load(open(mp))
                except (OSError, ValueError):
                    continue
                if meta.get("property") == prop and meta.get("static_checks", {}).get("target_property_reports_violation", True):
                    out.append(("seed", d, pp))
    bd = os.path.join(VERIF, "benign")
    if os.path.isdir(bd):
        for d in sorted(os.listdir(bd)):
            pp = os.path.join(bd, d, "patch.diff")
            if os.path.isfile(pp):
                out.append(("benign", d, pp))
    return out


def run(prop: str, rule_ids: List[str], repo: Repo, jobs: Optional[int] = None) -> dict:
    t0 = time.time()
    work = [(k, i, p, list(rule_ids), repo.root) for k, i, p in collect(prop)]
    jobs = jobs or min(16, os.cpu_count() or 4)
    if len(work) <= 2 or jobs == 1:
        results = [run_fixture(w) for w in work]
    else:
        with ProcessPoolExecutor(max_workers=jobs) as ex:
            results = list(ex.map(run_fixture, work, chunksize=1))
    return {
        "seeds": sum(1 for r in results if r["kind"] == "seed"),
        "seeds_caught": sum(1 for r in results if r["kind"] == "seed" and r["status"] == "pass"),
        "refactorings": sum(1 for r in results if r["kind"] == "benign"),
        "refactorings_silent": sum(1 for r in results if r["kind"] == "benign" and r["status"] == "pass"),
        "inapplicable": sum(1 for r in results if r["status"] == "inapplicable"),
        "failed": sum(1 for r in results if r["status"] == "fail"),
        "failures": [r for r in results if r["status"] == "fail"],
        "results": results,
        "wall_s": round(time.time() - t0, 2),
    }
