"""Rules added after the third round of seeded changes.  Each one is a structural necessary condition of a clause that the
earlier rule set left to "value level"; each was missed by an independent seeded change before it existed.

M7    one permutation: row-aligned inputs of one deferred kernel call are re-ordered by the same indexer, or none is
M8    a key already cut by a slice mask is never handed to a kernel together with the raw mask (slice applied twice)
P11b  group-sorted result indexes are built from the inputs' common index
P13   a generated column name replaces an input name only when that name `is None` (not when it is falsy)
P14   complementary split: L[:a] and L[b:] of one list in one function use the same bound
P15   margin rows are written with an assignment, not with a null-skipping pandas writer (update / combine_first)
P16   the nested-subtotal recursion of add_row_margin runs for every requested level
D3b   a value is compared with a group's running extremum only where the group's non-null count is known to be non-zero
E4    the alpha EMA kernels decay their running state once on every row of the (group's) series
F1b   RangeIndex keys: the offset is divided by the step unless the step is exactly 1
S3b   the copy constructor takes every attribute from the source grouping
"""
from __future__ import annotations

import ast
from typing import Dict, List, Optional, Set, Tuple

from .kernels import base_name, const_int, infer_roles
from .model import AnalysisError, Func, Repo, attr_chain, call_name, norm, walk_no_nested
from .paths import enumerate_paths
from .report import RuleResult
from .rules_e import _canon, _mentions, _show_canon

CORE = "groupby.core"
NB = "groupby.numba"
FACT = "groupby.factorization"
ROW_PARAMS = ("values", "times", "mask", "values1", "values2")


def _names(e: ast.AST) -> Set[str]:
    return {n.id for n in ast.walk(e) if isinstance(n, ast.Name)}


# ------------------------------------------------------------------------------------------------ M7

def rule_M7(repo: Repo) -> RuleResult:
    """Where a public operation binds several of its row-aligned inputs (values, times, mask) for one deferred kernel call
    and at least one of them is re-ordered by a local indexer (`x[indexer]`), every one of them is re-ordered by that same
    indexer.  (A re-ordering applied to some rows' attributes only pairs each value with another row's time / mask bit.)"""
    res = RuleResult("M7", "row-aligned inputs of one kernel call are re-ordered by one and the same indexer")
    n = 0
    core = repo.mod(CORE)
    for name, m in core.methods("GroupBy").items():
        row_params = [p for p in m.named_params if p in ROW_PARAMS]
        if len(row_params) < 2:
            continue
        # local aliases of row parameters: single assignments  a = f(param)  that keep row order (asarray, _val_to_numpy, ...)
        for call in [c for c in walk_no_nested(m.node) if isinstance(c, ast.Call)]:
            is_bind = isinstance(call.func, ast.Attribute) and call.func.attr in ("bind", "bind_partial")
            cn = call_name(call) or ""
            if not (is_bind or cn.split(".")[-1] in ("ema_grouped",)):
                continue
            bound: Dict[str, Tuple[ast.AST, Optional[str]]] = {}
            for k in call.keywords:
                if k.arg is None:
                    continue
                src = _row_source(m, k.value, row_params)
                if src is None:
                    continue
                bound[k.arg] = (k.value, _indexer_of(m, k.value, row_params))
            if len(bound) < 2:
                continue
            n += 1
            idx = {kw: ix for kw, (e, ix) in bound.items()}
            used = {ix for ix in idx.values() if ix is not None}
            construct = f"{m.qualname}: " + ", ".join(f"{kw}[{ix or '-'}]" for kw, ix in sorted(idx.items()))
            if not used:
                res.ok(m, call, construct, "no input is re-ordered at this call")
            elif len(used) == 1 and all(ix is not None for ix in idx.values()):
                res.ok(m, call, construct, f"all row-aligned inputs re-ordered by {next(iter(used))}")
            else:
                missing = sorted(kw for kw, ix in idx.items() if ix is None)
                res.bad(m, call, construct,
                        f"the row-aligned inputs of this call are not re-ordered consistently: {missing or sorted(idx)} "
                        f"{'is' if len(missing) == 1 else 'are'} passed in the caller's row order while the others are taken in "
                        f"{sorted(used)} order, so each value is paired with another row's {'/'.join(missing) or 'attributes'}")
    if n < 1:
        raise AnalysisError("M7: no deferred call binding two row-aligned inputs found")
    return res


def _row_source(m: Func, e: ast.AST, row_params: List[str], depth: int = 0) -> Optional[str]:
    """the row parameter an actual is derived from (through IfExp arms, subscripts, order-preserving conversions)"""
    if isinstance(e, ast.IfExp):
        return _row_source(m, e.orelse, row_params, depth) or _row_source(m, e.body, row_params, depth)
    if isinstance(e, ast.Constant):
        return None
    if isinstance(e, ast.Subscript):
        return _row_source(m, e.value, row_params, depth)
    if isinstance(e, ast.Call) and e.args and (call_name(e) or "").split(".")[-1] in (
            "_val_to_numpy", "asarray", "asanyarray", "array", "to_numpy"):
        return _row_source(m, e.args[0], row_params, depth)
    if isinstance(e, ast.Name):
        if e.id in row_params:
            return e.id
        # comprehension variable over value_list -> values
        if depth < 3:
            for n in ast.walk(m.node):
                if isinstance(n, (ast.ListComp, ast.GeneratorExp)):
                    for g in n.generators:
                        if e.id in _names(g.target):
                            r = _row_source(m, g.iter, row_params, depth + 1)
                            if r:
                                return r
                if isinstance(n, ast.Assign) and any(e.id in _names(t) for t in n.targets):
                    if isinstance(n.value, ast.Call) and (call_name(n.value) or "").endswith("_preprocess_arguments"):
                        return "values"
                    r = _row_source(m, n.value, row_params, depth + 1)
                    if r:
                        return r
    return None


def _indexer_of(m: Func, e: ast.AST, row_params: List[str], depth: int = 0) -> Optional[str]:
    """name of the local indexer the actual is subscripted by (directly, in an IfExp arm, or through a local alias)"""
    if isinstance(e, ast.IfExp):
        return _indexer_of(m, e.orelse, row_params, depth) or _indexer_of(m, e.body, row_params, depth)
    if isinstance(e, ast.Subscript):
        if isinstance(e.slice, ast.Name) and e.slice.id not in row_params:
            return e.slice.id
        return _indexer_of(m, e.value, row_params, depth)
    if isinstance(e, ast.Name) and e.id in row_params and depth < 3:
        # the parameter itself may have been re-assigned to its re-ordered self earlier in the function
        for n in walk_no_nested(m.node):
            if isinstance(n, ast.Assign) and len(n.targets) == 1 and isinstance(n.targets[0], ast.Name) \
                    and n.targets[0].id == e.id:
                ix = _indexer_of(m, n.value, [p for p in row_params if p != e.id] + [e.id], depth + 1) \
                    if isinstance(n.value, ast.Subscript) else None
                if ix:
                    # only counts if the re-assignment dominates the call on every path: it is under a condition here
                    return None
    return None


# ------------------------------------------------------------------------------------------------ M8

def rule_M8(repo: Repo) -> RuleResult:
    """(group_key, first_chunk_in, mask_chunks) = self._resolve_mask_argument_into_chunks(mask): group_key is already cut by
    a slice mask.  Every kernel call that receives it (or one of its chunks) gets its mask from mask_chunks, never the raw
    mask parameter - otherwise a slice is applied twice."""
    res = RuleResult("M8", "a key already cut by the slice mask is never paired with the raw mask")
    n = 0
    core = repo.mod(CORE)
    for name, m in core.methods("GroupBy").items():
        for s in walk_no_nested(m.node):
            if not (isinstance(s, ast.Assign) and isinstance(s.value, ast.Call)
                    and (call_name(s.value) or "").endswith("_resolve_mask_argument_into_chunks")
                    and isinstance(s.targets[0], ast.Tuple) and len(s.targets[0].elts) == 3):
                continue
            gk, fci, mch = (e.id if isinstance(e, ast.Name) else None for e in s.targets[0].elts)
            raw = s.value.args[0].id if s.value.args and isinstance(s.value.args[0], ast.Name) else None
            if not gk or not mch or not raw:
                raise AnalysisError(f"M8: cannot read the unpacking of _resolve_mask_argument_into_chunks in {m.qualname}")
            # names derived from the cut key: gk, gk.chunks, loop variables over them
            derived = {gk}
            changed = True
            while changed:
                changed = False
                for x in walk_no_nested(m.node):
                    if isinstance(x, ast.Assign) and _names(x.value) & derived:
                        if isinstance(x.value, ast.Call) and not (call_name(x.value) or "").split(".")[-1] in (
                                "_val_to_numpy", "asarray", "list", "enumerate", "zip"):
                            continue
                        for t in x.targets:
                            for nm in _names(t):
                                if nm not in derived and nm not in (fci, mch):
                                    derived.add(nm); changed = True
                    if isinstance(x, ast.For) and _names(x.iter) & derived:
                        tg = x.target.elts[-1] if isinstance(x.target, ast.Tuple) else x.target
                        for nm in _names(tg):
                            if nm not in derived:
                                derived.add(nm); changed = True
            for c in walk_no_nested(m.node):
                if not isinstance(c, ast.Call) or c is s.value:
                    continue
                args = list(c.args) + [k.value for k in c.keywords if k.arg != "mask"]
                if not any(_names(a) & derived for a in args):
                    continue
                mk = next((k.value for k in c.keywords if k.arg == "mask"), None)
                if mk is None:
                    continue
                n += 1
                construct = f"{m.qualname}: {norm(c)[:80]}"
                if raw in _names(mk) and mch not in _names(mk):
                    res.bad(m, c, construct,
                            f"the key handed to this call was already cut by the slice mask (it comes from "
                            f"_resolve_mask_argument_into_chunks) and the raw mask {raw!r} is passed as well: a slice mask is "
                            f"applied twice, rows [2a, b) are counted instead of [a, b)")
                else:
                    res.ok(m, c, construct, f"mask taken from {mch}")
    if n < 2:
        raise AnalysisError(f"M8: only {n} kernel calls on a resolved key found (floor 2)")
    return res


# ------------------------------------------------------------------------------------------------ P11b

def rule_P11b(repo: Repo) -> RuleResult:
    """every call of _build_group_sorted_index passes the common index of the inputs (4th result of _preprocess_arguments)"""
    res = RuleResult("P11b", "group-sorted result indexes are built from the inputs' common index")
    core = repo.mod(CORE)
    n = 0
    for name, m in core.methods("GroupBy").items():
        ci: Set[str] = set()
        for s in walk_no_nested(m.node):
            if isinstance(s, ast.Assign) and isinstance(s.value, ast.Call) and (call_name(s.value) or "").endswith("_preprocess_arguments") \
                    and isinstance(s.targets[0], ast.Tuple) and len(s.targets[0].elts) == 4 \
                    and isinstance(s.targets[0].elts[3], ast.Name):
                ci.add(s.targets[0].elts[3].id)
        for c in walk_no_nested(m.node):
            if isinstance(c, ast.Call) and (call_name(c) or "").endswith("_build_group_sorted_index"):
                n += 1
                a = c.args[0] if c.args else next((k.value for k in c.keywords if k.arg == "inner_index"), None)
                construct = f"{m.qualname}: {norm(c)}"
                if isinstance(a, ast.Name) and a.id in ci:
                    res.ok(m, c, construct, "inner level = the inputs' common index")
                else:
                    res.bad(m, c, construct,
                            f"the inner level of the group-sorted result index is built from {norm(a) if a is not None else 'nothing'}, "
                            f"not from the common index of the values: rows are labelled by position / by the keys' index "
                            f"instead of the values' own index")
    if n < 2:
        raise AnalysisError(f"P11b: only {n} calls of _build_group_sorted_index found (floor 2)")
    return res


# ------------------------------------------------------------------------------------------------ P13

def rule_P13(repo: Repo) -> RuleResult:
    res = RuleResult("P13", "a generated column name replaces an input name only when that name is None")
    f = repo.func(CORE, "GroupBy._col_names_from_value_names")
    n = 0
    for x in ast.walk(f.node):
        gen = None
        if isinstance(x, ast.IfExp):
            t = x.test
            ok = isinstance(t, ast.Compare) and len(t.ops) == 1 and isinstance(t.ops[0], (ast.Is, ast.IsNot)) \
                and isinstance(t.comparators[0], ast.Constant) and t.comparators[0].value is None
            n += 1
            if ok:
                res.ok(f, x, norm(x), "identity test with None")
            else:
                res.bad(f, x, norm(x), "the input name is replaced on a truthiness test: names such as 0, 0.0, False or '' are "
                                       "legitimate labels and must be kept")
        elif isinstance(x, ast.BoolOp) and isinstance(x.op, ast.Or) and any(isinstance(v, ast.JoinedStr) for v in x.values):
            n += 1
            res.bad(f, x, norm(x), "`name or default` replaces every falsy name (0, 0.0, False, ''), not only None: the result "
                                   "labels no longer follow the inputs' names")
        elif isinstance(x, ast.If) and any(isinstance(v, ast.JoinedStr) for b in x.body + x.orelse for v in ast.walk(b)):
            t = x.test
            ok = isinstance(t, ast.Compare) and len(t.ops) == 1 and isinstance(t.ops[0], (ast.Is, ast.IsNot)) \
                and isinstance(t.comparators[0], ast.Constant) and t.comparators[0].value is None
            n += 1
            (res.ok if ok else res.bad)(f, x, norm(x.test), "identity test with None" if ok else
                                        "the input name is replaced on a truthiness test")
    if n < 1:
        raise AnalysisError("P13: default-name substitution not found in _col_names_from_value_names")
    return res


# ------------------------------------------------------------------------------------------------ P14

def rule_P14(repo: Repo) -> RuleResult:
    """two complementary slices of one list inside one function (L[:a] ... L[b:]) use the same bound"""
    res = RuleResult("P14", "complementary slices of one list use the same bound")
    n = 0
    for f in repo.all_functions():
        if f.module.name not in (CORE, NB, FACT, "util", "nanops", "emas", "groupby.api"):
            continue
        heads: Dict[str, List[Tuple[ast.Subscript, str]]] = {}
        tails: Dict[str, List[Tuple[ast.Subscript, str]]] = {}
        for x in walk_no_nested(f.node):
            if isinstance(x, ast.Subscript) and isinstance(x.value, ast.Name) and isinstance(x.slice, ast.Slice) \
                    and x.slice.step is None and isinstance(x.ctx, ast.Load):
                sl = x.slice
                if sl.lower is None and sl.upper is not None and isinstance(sl.upper, ast.Name):
                    heads.setdefault(x.value.id, []).append((x, sl.upper.id))
                if sl.upper is None and sl.lower is not None and isinstance(sl.lower, ast.Name):
                    tails.setdefault(x.value.id, []).append((x, sl.lower.id))
        for L in set(heads) & set(tails):
            hb = {b for _, b in heads[L]}
            tb = {b for _, b in tails[L]}
            if len(hb) != 1 or len(tb) != 1:
                continue
            n += 1
            h, t = next(iter(hb)), next(iter(tb))
            node = tails[L][0][0]
            construct = f"{f.qualname}: {L}[:{h}] / {L}[{t}:]"
            if h == t:
                res.ok(f, node, construct, "the two parts partition the list")
            else:
                res.bad(f, node, construct,
                        f"the list {L!r} is split into a head up to {h!r} and a tail from {t!r}: unless the two bounds are equal "
                        f"elements are dropped or shared between the two parts (row and column key levels of a cross-tabulation "
                        f"with different numbers of row and column keys)")
    if n < 1:
        res.ok_at("groupby_lib/groupby/core.py", 1, "crosstab", "no complementary split in the package", "nothing to decide", nontrivial=False)
    return res


# ------------------------------------------------------------------------------------------------ P15 / P16

NULL_SKIPPING_WRITERS = {"update", "combine_first"}


def rule_P15(repo: Repo) -> RuleResult:
    """add_row_margin: summary rows are written into the result with an assignment (`out.loc[...] = summary`); pandas writers
    that skip nulls (`update`, `combine_first`) would leave the zero filler in a margin row whose aggregate is null."""
    res = RuleResult("P15", "margin rows are written by assignment, not by a null-skipping pandas writer")
    f = repo.func(CORE, "add_row_margin")
    n = 0
    for x in walk_no_nested(f.node):
        if isinstance(x, ast.Call) and isinstance(x.func, ast.Attribute) and x.func.attr in NULL_SKIPPING_WRITERS:
            n += 1
            res.bad(f, x, norm(x), f".{x.func.attr}() skips null values: a margin row whose aggregate is null (min/max of an "
                                   f"all-null slice) keeps the fill value 0 of the re-indexed frame instead of null")
        if isinstance(x, ast.Assign) and isinstance(x.targets[0], ast.Subscript) and isinstance(x.targets[0].value, ast.Attribute) \
                and x.targets[0].value.attr == "loc" and isinstance(x.value, ast.Name):
            n += 1
            res.ok(f, x, norm(x), "plain assignment keeps nulls")
    if n < 1:
        raise AnalysisError("P15: no write of summary rows found in add_row_margin")
    return res


def rule_P16(repo: Repo) -> RuleResult:
    """add_row_margin: inside the loop over the requested levels the per-level summary passes through the recursive call on
    every path (the nested subtotals - several levels 'All' at once - come from that recursion)."""
    res = RuleResult("P16", "the nested-subtotal recursion of add_row_margin runs for every requested level")
    f = repo.func(CORE, "add_row_margin")
    loops = [x for x in walk_no_nested(f.node) if isinstance(x, ast.For)
             and any(isinstance(c, ast.Call) and isinstance(c.func, ast.Name) and c.func.id == f.name for c in ast.walk(x))]
    if not loops:
        raise AnalysisError("P16: no loop with a recursive call found in add_row_margin")
    for loop in loops:
        paths = [p for p in enumerate_paths(loop.body) if p.exit in ("fall", "continue")]
        bad = [p for p in paths if not any(isinstance(c, ast.Call) and isinstance(c.func, ast.Name) and c.func.id == f.name
                                           for st in p.stmts for c in ast.walk(st))]
        construct = f"for {norm(loop.target)} in {norm(loop.iter)}: recursion on {len(paths) - len(bad)}/{len(paths)} paths"
        if bad:
            res.bad(f, loop, construct,
                    "on some path through the per-level loop the summary is not passed through add_row_margin again: the rows in "
                    "which several requested levels are 'All' together are never computed and are missing from the result",
                    path=bad[0].describe())
        else:
            res.ok(f, loop, construct, "")
    return res


# ------------------------------------------------------------------------------------------------ D3b

def _non_null_counters(f: Func, roles) -> Set[str]:
    """per-group arrays whose `+= 1` happens only under a test that the current value is not null"""
    # non-null counters: per-group arrays whose += 1 is nested under a test that the current value is not null
    null_flags: Set[str] = set()
    for s in walk_no_nested(f.node):
        if isinstance(s, ast.Assign) and len(s.targets) == 1 and isinstance(s.targets[0], ast.Name) \
                and isinstance(s.value, ast.Call) and norm(s.value.func) in ("is_null", "np.isnan"):
            null_flags.add(s.targets[0].id)

    def not_null_test(t: ast.AST) -> bool:
        return isinstance(t, ast.UnaryOp) and isinstance(t.op, ast.Not) and (
            (isinstance(t.operand, ast.Name) and t.operand.id in null_flags) or
            (isinstance(t.operand, ast.Call) and norm(t.operand.func) in ("is_null", "np.isnan")))

    nn: Set[str] = set()
    for i in walk_no_nested(f.node):
        if isinstance(i, ast.If) and not_null_test(i.test):
            for s in ast.walk(i):
                if isinstance(s, ast.AugAssign) and isinstance(s.op, ast.Add) and isinstance(s.target, ast.Subscript) \
                        and const_int(s.value) == 1 and base_name(s.target) in roles.per_group_arrays:
                    nn.add(base_name(s.target))
    # exclude arrays that are also incremented outside such a test (row counters)
    for s in walk_no_nested(f.node):
        if isinstance(s, ast.AugAssign) and isinstance(s.op, ast.Add) and isinstance(s.target, ast.Subscript) \
                and base_name(s.target) in nn:
            inside = any(isinstance(i, ast.If) and not_null_test(i.test) and any(x is s for x in ast.walk(i))
                         for i in walk_no_nested(f.node))
            if not inside:
                nn.discard(base_name(s.target))
    return nn


def rule_D3b(repo: Repo) -> RuleResult:
    """_rolling_max_or_min_1d: the new value is compared with the group's running extremum (a cell that starts as null) only
    where the group's count of non-null values in the window is known to be non-zero; otherwise it is installed
    unconditionally.  The non-null counter is the per-group integer array incremented only under `not is_null(value)`."""
    res = RuleResult("D3b", "a value is compared with the running extremum only when the group's non-null count is non-zero")
    f = repo.func(NB, "_rolling_max_or_min_1d")
    roles = infer_roles(f)
    nn = _non_null_counters(f, roles)
    if not nn:
        raise AnalysisError("D3b: non-null counter of _rolling_max_or_min_1d not found")
    # the extremum cell and its local copy
    best_arrays = {base_name(s.targets[0]) for s in walk_no_nested(f.node)
                   if isinstance(s, ast.Assign) and isinstance(s.targets[0], ast.Subscript)
                   and base_name(s.targets[0]) in roles.per_group_arrays and isinstance(s.value, ast.Name)
                   and s.value.id in roles.elem_of}
    best_locals = {s.targets[0].id for s in walk_no_nested(f.node)
                   if isinstance(s, ast.Assign) and len(s.targets) == 1 and isinstance(s.targets[0], ast.Name)
                   and isinstance(s.value, ast.Subscript) and base_name(s.value) in best_arrays}
    n = 0
    for b in walk_no_nested(f.node):
        if not (isinstance(b, ast.BoolOp) and isinstance(b.op, ast.Or)):
            continue
        cmp_idx = [i for i, v in enumerate(b.values) if any(
            isinstance(c, ast.Compare) and (_names(c) & best_locals or any(
                isinstance(x, ast.Subscript) and base_name(x) in best_arrays for x in ast.walk(c))) for c in ast.walk(v))]
        if not cmp_idx:
            continue
        n += 1
        first = b.values[0]
        ok = isinstance(first, ast.Compare) and len(first.ops) == 1 and isinstance(first.ops[0], ast.Eq) \
            and const_int(first.comparators[0]) == 0 and isinstance(first.left, ast.Subscript) and base_name(first.left) in nn \
            and cmp_idx[0] > 0
        construct = norm(b)[:110]
        if ok:
            res.ok(f, b, construct, f"short-circuit on {norm(first)}: the comparison runs only with a non-null extremum")
        else:
            res.bad(f, b, construct,
                    f"the comparison with the running extremum is not preceded by a test that the group's non-null count "
                    f"({sorted(nn)[0]}[key]) is zero: while the extremum cell still holds its null start value every ordering "
                    f"comparison is false, so the first non-null value of a group that starts with nulls is never installed")
    if n < 1:
        raise AnalysisError("D3b: comparison with the running extremum not found")
    return res


# ------------------------------------------------------------------------------------------------ E4

def rule_E4(repo: Repo) -> RuleResult:
    """_ema_adjusted and _ema_grouped (alpha kernels): on every path through the row loop that processes a row of the series
    (null-key rows excepted) the running numerator and the running weight end up multiplied by beta exactly once - the weight
    of an observation is (1-alpha)^(rows elapsed), nulls included."""
    res = RuleResult("E4", "alpha EMA kernels decay the running state once on every row")
    em = repo.mod("emas")
    total = 0
    for kname in ("_ema_adjusted", "_ema_grouped"):
        f = em.func(kname)
        loop = [x for x in walk_no_nested(f.node) if isinstance(x, ast.For)][-1]
        # beta = 1 - alpha
        beta = None
        for s in walk_no_nested(f.node):
            if isinstance(s, ast.Assign) and len(s.targets) == 1 and isinstance(s.targets[0], ast.Name) \
                    and isinstance(s.value, ast.BinOp) and isinstance(s.value.op, ast.Sub) and const_int(s.value.left) == 1:
                beta = s.targets[0].id
        if beta is None:
            raise AnalysisError(f"E4: beta = 1 - alpha not found in {kname}")
        # state: scalars / per-group cells that are multiplied by beta somewhere in the loop
        state: Set[str] = set()
        for s in ast.walk(loop):
            if isinstance(s, ast.AugAssign) and isinstance(s.op, ast.Mult) and beta in _names(s.value):
                state.add(norm(s.target))
            if isinstance(s, ast.Assign) and len(s.targets) == 1 and isinstance(s.value, ast.BinOp) \
                    and isinstance(s.value.op, ast.Mult) and beta in _names(s.value) and norm(s.targets[0]) in norm(s.value):
                state.add(norm(s.targets[0]))
        if len(state) < 2:
            raise AnalysisError(f"E4: running numerator / weight of {kname} not found (state multiplied by {beta}: {sorted(state)})")
        for p in enumerate_paths(loop.body, split_bool=True):
            if p.exit not in ("fall", "continue"):
                continue
            # null-key rows are not rows of any group's series
            if any(pol is True and isinstance(t, ast.Compare) and len(t.ops) == 1 and isinstance(t.ops[0], ast.Lt)
                   and const_int(t.comparators[0]) == 0 for t, pol in p.conds):
                continue
            # rows that are provably filtered out by the mask are not rows of the series either (C05: mask == filtering)
            from .rules_k import _mask_aliases, _selection_of_path
            if "mask" in f.named_params and _selection_of_path(p, {"mask"}, _mask_aliases(f, {"mask"})) == "unselected":
                continue
            env: Dict[str, tuple] = {}
            for st in p.stmts:
                if isinstance(st, ast.Assign) and len(st.targets) == 1:
                    env[norm(st.targets[0])] = _canon_cells(st.value, env)
                elif isinstance(st, ast.AugAssign):
                    k = norm(st.target)
                    cur = env.get(k, ("name", k))
                    synthetic = ast.BinOp(left=ast.Name(id="__cur__", ctx=ast.Load()), op=st.op, right=st.value)
                    e2 = dict(env); e2["__cur__"] = cur
                    env[k] = _canon_cells(synthetic, e2)
            total += 1
            for cell in sorted(state):
                v = env.get(cell, ("name", cell))
                k = _beta_power(v, beta)
                construct = f"{kname}: {cell} on path {p.describe()[:70]}"
                if k == 1:
                    res.ok(f, loop, construct, f"= {beta} * (...)")
                else:
                    res.bad(f, loop, construct,
                            f"on this path {cell} ends as {_show_canon(v)[:70]}, i.e. multiplied by {beta} {k} time(s): the running "
                            f"state must be decayed exactly once per row (invalid rows age the history too), otherwise weights are "
                            f"(1-alpha)^(valid rows elapsed) and the grouped and ungrouped EMA of one series differ",
                            path=p.describe())
    if total < 4:
        raise AnalysisError(f"E4: only {total} row paths examined (floor 4)")
    seen, uniq = set(), []
    for v in res.violations:
        if v.key() not in seen:
            seen.add(v.key()); uniq.append(v)
    res.violations = uniq
    return res


def _canon_cells(e: ast.AST, env: Dict[str, tuple]) -> tuple:
    """_canon with subscript cells (state[k]) treated as variables named by their text"""
    class R(ast.NodeTransformer):
        def visit_Subscript(self, node):
            return ast.copy_location(ast.Name(id=norm(node), ctx=ast.Load()), node)
    import copy
    e2 = R().visit(copy.deepcopy(e))
    return _canon(e2, env)


def _beta_power(t: tuple, beta: str) -> int:
    """how many factors `beta` the top-level product of the canonical tree carries (0 if it is not a product with beta)"""
    if t[0] == "neg":
        return _beta_power(t[1], beta)
    if t[0] == "mul":
        k = 0
        for x in t[1:]:
            if x == ("name", beta):
                k += 1
            elif x[0] == "mul":
                k += _beta_power(x, beta)
        return k
    return 0


# ------------------------------------------------------------------------------------------------ F1b

def rule_F1b(repo: Repo) -> RuleResult:
    res = RuleResult("F1b", "RangeIndex keys: offsets are divided by the step unless the step is exactly 1")
    f = repo.func(FACT, "factorize_range_index")
    divs = [x for x in ast.walk(f.node) if (isinstance(x, ast.BinOp) and isinstance(x.op, ast.FloorDiv) and "step" in norm(x.right))
            or (isinstance(x, ast.AugAssign) and isinstance(x.op, ast.FloorDiv) and "step" in norm(x.value))]
    if not divs:
        raise AnalysisError("F1b: division by the step not found in factorize_range_index")
    for d in divs:
        guard = None
        for i in walk_no_nested(f.node):
            if isinstance(i, ast.If) and any(x is d for x in ast.walk(i)):
                guard = i
        construct = f"{norm(d)} under {norm(guard.test) if guard is not None else 'no condition'}"
        if guard is None:
            res.ok(f, d, construct, "always divided")
            continue
        t = guard.test
        in_body = any(x is d for b in guard.body for x in ast.walk(b))
        ok = isinstance(t, ast.Compare) and len(t.ops) == 1 and "step" in norm(t.left) and const_int(t.comparators[0]) == 1 and (
            (isinstance(t.ops[0], ast.NotEq) and in_body) or (isinstance(t.ops[0], ast.Eq) and not in_body))
        if ok:
            res.ok(f, d, construct, "skipped only for step == 1")
        else:
            res.bad(f, d, construct,
                    "the offsets of a RangeIndex key are divided by the step only under this condition: for a step it excludes "
                    "(e.g. a negative step, df.index[::-1]) the codes stay multiples of the step - negative codes are read as null keys "
                    "and every row but the first is dropped")
    return res


# ------------------------------------------------------------------------------------------------ S3b

def rule_S3b(repo: Repo) -> RuleResult:
    """GroupBy.__init__, copy path (`isinstance(group_keys, GroupBy)`): every attribute assigned there is taken from the
    source grouping (an attribute or property of the first parameter), none from the other constructor arguments."""
    res = RuleResult("S3b", "the copy constructor takes every attribute from the source grouping")
    f = repo.func(CORE, "GroupBy.__init__")
    params = [p for p in f.named_params if p != "self"]
    src = params[0]
    arm = None
    for i in f.node.body:
        if isinstance(i, ast.If) and isinstance(i.test, ast.Call) and norm(i.test.func) == "isinstance" \
                and isinstance(i.test.args[0], ast.Name) and i.test.args[0].id == src and "GroupBy" in norm(i.test.args[1]):
            arm = i
    if arm is None:
        raise AnalysisError("S3b: copy path of GroupBy.__init__ not found")
    n = 0
    for s in arm.body:
        if not isinstance(s, ast.Assign):
            continue
        targets = []
        for t in s.targets:
            targets.extend(t.elts if isinstance(t, ast.Tuple) else [t])
        values = s.value.elts if isinstance(s.value, ast.Tuple) and len(s.value.elts) == len(targets) else [s.value] * len(targets)
        for t, v in zip(targets, values):
            c = attr_chain(t)
            if not (c and c[0] == "self" and len(c) == 2):
                continue
            n += 1
            if isinstance(v, ast.Name):       # a local of the arm stands for its single definition
                ds_ = [s_.value for s_ in arm.body if isinstance(s_, ast.Assign) and len(s_.targets) == 1
                       and isinstance(s_.targets[0], ast.Name) and s_.targets[0].id == v.id]
                if len(ds_) == 1:
                    v = ds_[0]
            construct = f"{norm(t)} = {norm(v)}"
            vc = attr_chain(v)
            if vc and vc[0] == src and len(vc) == 2 and vc[1].lstrip("_") == c[1].lstrip("_"):
                res.ok(f, s, construct, "copied from the source")
            else:
                res.bad(f, s, construct,
                        f"in the copy constructor {norm(t)} is not taken from the same attribute of the source grouping: the copy "
                        f"behaves differently from the original (e.g. it re-sorts a grouping built with sort=False)")
    # every attribute the regular constructor path sets (directly or in the chunk factorization it calls) must be taken
    # from the source on the copy path - an attribute given a default before the branch is not copied
    regular: Set[str] = set()
    for fn in (f, repo.func(CORE, "GroupBy._factorize_group_key_in_chunks")):
        for x in ast.walk(fn.node):
            if isinstance(x, ast.Attribute) and isinstance(x.ctx, ast.Store) and isinstance(x.value, ast.Name) and x.value.id == "self":
                regular.add(x.attr)
    copied = {attr_chain(t)[1] for s_ in arm.body if isinstance(s_, ast.Assign) for t0 in s_.targets
              for t in (t0.elts if isinstance(t0, ast.Tuple) else [t0]) if attr_chain(t) and attr_chain(t)[0] == "self"}
    for a in sorted(regular - copied):
        res.bad(f, arm, f"self.{a} not copied",
                f"the copy constructor does not take self.{a} from the source grouping (it keeps a default): a copy of a grouping "
                f"whose {a} differs from the default behaves differently from the original (e.g. chunk-local codes without their "
                f"pointer tables)")
    if n < 4:
        raise AnalysisError(f"S3b: only {n} attributes assigned on the copy path (floor 4)")
    return res


# ------------------------------------------------------------------------------------------------ R1

def _reversed_range(e: ast.AST) -> bool:
    """range(n - 1, -1, -1) / reversed(range(n)) / X[::-1]"""
    if isinstance(e, ast.Call) and norm(e.func) == "range" and len(e.args) == 3 and const_int(e.args[2]) == -1:
        return True
    if isinstance(e, ast.Call) and norm(e.func) == "reversed":
        return True
    return False


def _step_names(f: Func) -> Set[str]:
    """names used as the step of a `range(a, b, step)` that a loop of `f` iterates over"""
    return {l.iter.args[2].id for l in ast.walk(f.node) if isinstance(l, ast.For) and isinstance(l.iter, ast.Call)
            and norm(l.iter.func) == "range" and len(l.iter.args) == 3 and isinstance(l.iter.args[2], ast.Name)}


def _reverses_scan(st: ast.stmt, step_names: Set[str]) -> bool:
    """the statement makes the row loop run backwards: `rng = range(n - 1, -1, -1)` / `reversed(..)`, or it binds the loop's
    step variable to -1 (`step = -1`, `start, stop, step = n - 1, -1, -1`)"""
    if not isinstance(st, ast.Assign):
        return False
    if _reversed_range(st.value):
        return True
    for t in st.targets:
        if isinstance(t, ast.Name) and t.id in step_names and const_int(st.value) == -1:
            return True
        if isinstance(t, ast.Tuple) and isinstance(st.value, ast.Tuple) and len(t.elts) == len(st.value.elts):
            for a, b in zip(t.elts, st.value.elts):
                if isinstance(a, ast.Name) and a.id in step_names and const_int(b) == -1:
                    return True
    return False


def _flip_of(e: ast.AST) -> Optional[str]:
    """name of the array flipped along an axis by X[..., ::-1] / np.flip(X) / np.fliplr(X)"""
    if isinstance(e, ast.Subscript) and isinstance(e.value, ast.Name):
        sl = e.slice.elts if isinstance(e.slice, ast.Tuple) else [e.slice]
        if any(isinstance(s_, ast.Slice) and s_.lower is None and s_.upper is None and const_int(s_.step) == -1 for s_ in sl):
            return e.value.id
    if isinstance(e, ast.Call) and norm(e.func) in ("np.flip", "np.fliplr", "numpy.flip") and e.args and isinstance(e.args[0], ast.Name):
        return e.args[0].id
    return None


def rule_R1(repo: Repo) -> RuleResult:
    """_find_first_or_last_n: when the rows are scanned backwards (tail), the per-group slots are filled last-row-first; the
    result is flipped back along the slot axis under the same flag, so that the rows of a group come out in their original
    relative order."""
    res = RuleResult("R1", "a backward scan that fills slots in visiting order is flipped back before it is returned")
    f = repo.func(NB, "_find_first_or_last_n")
    rev_tests: List[Tuple[str, bool]] = []          # (flag text, polarity under which the scan is reversed)
    for i in walk_no_nested(f.node):
        if isinstance(i, ast.If):
            for arm, pol in ((i.body, True), (i.orelse, False)):
                for s in arm:
                    if _reverses_scan(s, _step_names(f)):
                        rev_tests.append((norm(i.test), pol))
    if not rev_tests:
        raise AnalysisError("R1: the backward scan of _find_first_or_last_n was not found")
    ret_names = {r.value.id for r in walk_no_nested(f.node) if isinstance(r, ast.Return) and isinstance(r.value, ast.Name)}
    for test, pol in rev_tests:
        flipped = False
        for i in walk_no_nested(f.node):
            if not isinstance(i, ast.If):
                continue
            t = i.test
            same = (norm(t) == test and pol) or (isinstance(t, ast.UnaryOp) and isinstance(t.op, ast.Not) and norm(t.operand) == test and not pol) \
                or (test.startswith("not ") and norm(t) == test[4:] and not pol)
            opposite = (norm(t) == test and not pol) or (isinstance(t, ast.UnaryOp) and isinstance(t.op, ast.Not)
                                                         and norm(t.operand) == test and pol)
            arm = i.body if same else (i.orelse if opposite else None)
            if arm is None:
                continue
            for s in arm:
                if isinstance(s, ast.Assign) and _flip_of(s.value) in ret_names | {x.id for t_ in s.targets for x in ast.walk(t_)
                                                                                  if isinstance(x, ast.Name)}:
                    flipped = True
                if isinstance(s, ast.Return) and s.value is not None and _flip_of(s.value):
                    flipped = True
        construct = f"scan reversed when {'not ' if not pol else ''}({test})"
        if flipped:
            res.ok(f, f.node, construct, "slot axis flipped back under the same condition")
        else:
            res.bad(f, f.node, construct,
                    "the rows are visited last-to-first and stored in visiting order, but the slot axis is not reversed again "
                    "under the same condition: tail(n) returns each group's rows in reverse order (visible whenever the result "
                    "is not re-sorted: sort=False or categorical keys)")
    return res


# ------------------------------------------------------------------------------------------------ P17

STACKERS = {"np.column_stack", "np.stack", "np.vstack", "np.hstack", "np.dstack", "np.array", "np.asarray", "np.concatenate",
            "numpy.column_stack", "numpy.stack", "numpy.vstack", "numpy.hstack"}


def rule_P17(repo: Repo) -> RuleResult:
    """The value columns of one call (the list returned by convert_data_to_arr_list_and_keys / _preprocess_arguments) may have
    different dtypes; they are never stacked into one NumPy array (which would promote them to a common dtype: int64 ids
    next to a float column are rounded above 2^53, booleans become 0.0/1.0)."""
    res = RuleResult("P17", "value columns of different dtypes are never stacked into one array")
    core = repo.mod(CORE)
    n = 0
    for name, m in core.methods("GroupBy").items():
        vlists: Set[str] = set()
        for s in walk_no_nested(m.node):
            if isinstance(s, ast.Assign) and isinstance(s.value, ast.Call) and isinstance(s.targets[0], ast.Tuple):
                cn = (call_name(s.value) or "").split(".")[-1]
                if cn == "convert_data_to_arr_list_and_keys" and isinstance(s.targets[0].elts[0], ast.Name):
                    vlists.add(s.targets[0].elts[0].id)
                if cn == "_preprocess_arguments" and len(s.targets[0].elts) == 4 and isinstance(s.targets[0].elts[1], ast.Name):
                    vlists.add(s.targets[0].elts[1].id)
        if not vlists:
            continue
        n += 1
        bad = None
        for c in walk_no_nested(m.node):
            if isinstance(c, ast.Call) and (call_name(c) or "") in STACKERS and c.args:
                a = c.args[0]
                # stacking the list itself or a comprehension over it (one array per column)
                direct = isinstance(a, ast.Name) and a.id in vlists
                comp = isinstance(a, (ast.ListComp, ast.GeneratorExp, ast.List, ast.Tuple)) and any(
                    isinstance(g.iter, ast.Name) and g.iter.id in vlists for g in getattr(a, "generators", []))
                if direct or comp:
                    bad = c
        if bad is not None:
            res.bad(m, bad, f"{m.qualname}: {norm(bad)[:80]}",
                    "the value columns are stacked into one NumPy array: columns of different dtypes are promoted to a common "
                    "dtype (large int64 values are rounded through float64, booleans become floats), so the returned values "
                    "are no longer the input elements")
        else:
            res.ok(m, m.node, f"{m.qualname}: columns kept separate", "")
    if n < 3:
        raise AnalysisError(f"P17: only {n} methods handling a value list found (floor 3)")
    return res


# ------------------------------------------------------------------------------------------------ P18

def rule_P18(repo: Repo) -> RuleResult:
    """No hand-made equal-length chunking by floor division: L = len(a) // n with slices a[i*L:(i+1)*L] for i in range(n)
    drops the last len(a) % n elements.  (np.array_split / array_split_with_chunk_handling cover the whole array.)"""
    res = RuleResult("P18", "per-thread chunks cover the whole array (no floor-division slicing that drops the tail)")
    n = 0
    for f in repo.all_functions():
        if f.module.name not in (CORE, NB, FACT, "util", "nanops", "emas"):
            continue
        floor_lens: Dict[str, ast.Assign] = {}
        for s in walk_no_nested(f.node):
            if isinstance(s, ast.Assign) and len(s.targets) == 1 and isinstance(s.targets[0], ast.Name) \
                    and isinstance(s.value, ast.BinOp) and isinstance(s.value.op, ast.FloorDiv) \
                    and isinstance(s.value.left, ast.Call) and norm(s.value.left.func) == "len":
                floor_lens[s.targets[0].id] = s
        splitters = [c for c in ast.walk(f.node) if isinstance(c, ast.Call) and (call_name(c) or "").split(".")[-1] in (
            "array_split", "array_split_with_chunk_handling")]
        if splitters:
            n += 1
            res.ok(f, splitters[0], f"{f.qualname}: {norm(splitters[0])[:60]}", "covering splitter", nontrivial=False)
        def has_floor_len(e: ast.AST) -> bool:
            return any(isinstance(y, ast.BinOp) and isinstance(y.op, ast.FloorDiv) and isinstance(y.left, ast.Call)
                       and norm(y.left.func) == "len" for y in ast.walk(e))

        inline = ast.Assign(targets=[], value=ast.Constant(value=None))
        inline_sites = [x for x in ast.walk(f.node) if isinstance(x, ast.Subscript) and isinstance(x.slice, ast.Slice)
                        and x.slice.lower is not None and x.slice.upper is not None
                        and has_floor_len(x.slice.lower) and has_floor_len(x.slice.upper)]
        if inline_sites:
            floor_lens["<inline len(..) // n>"] = ast.Assign(targets=[], value=next(
                y for y in ast.walk(inline_sites[0].slice.upper) if isinstance(y, ast.BinOp) and isinstance(y.op, ast.FloorDiv)))
        for L, st in floor_lens.items():
            for x in ast.walk(f.node):
                if isinstance(x, ast.Subscript) and isinstance(x.slice, ast.Slice) and x.slice.lower is not None \
                        and x.slice.upper is not None and ((L in _names(x.slice.lower) and L in _names(x.slice.upper))
                                                           or (L.startswith("<inline") and x in inline_sites)):
                    # is the remainder handled anywhere (len % n, or a last chunk up to the end)?
                    handled = any(isinstance(y, ast.BinOp) and isinstance(y.op, ast.Mod) and isinstance(y.left, ast.Call)
                                  and norm(y.left.func) == "len" for y in ast.walk(f.node))
                    n += 1
                    if handled:
                        res.ok(f, x, f"{f.qualname}: {norm(x)[:70]}", "remainder handled")
                    else:
                        res.bad(f, x, f"{f.qualname}: {norm(x)[:70]}",
                                f"chunks of equal length {norm(st.value)} are cut by hand: the last len % n elements fall into no "
                                f"chunk and are silently ignored whenever the length is not a multiple of the number of chunks")
    if n < 3:
        raise AnalysisError(f"P18: only {n} chunking sites found (floor 3)")
    return res


# ------------------------------------------------------------------------------------------------ P19

SORTERS = {"np.sort", "numpy.sort", "sorted"}


def rule_P19(repo: Repo) -> RuleResult:
    """searchsorted precondition: on every path the array that is searched was sorted in this function (np.sort,
    .sort_values(), or indexed by an argsort key computed from that very array)."""
    res = RuleResult("P19", "the array handed to searchsorted is sorted on every path")
    n = 0
    for f in repo.all_functions():
        if f.module.name not in (CORE, NB, FACT, "util", "nanops", "emas") or f.is_njit:
            continue
        calls = [c for c in walk_no_nested(f.node) if isinstance(c, ast.Call) and isinstance(c.func, ast.Attribute)
                 and c.func.attr == "searchsorted"]
        for c in calls:
            hay = c.func.value if norm(c.func.value) not in ("np", "numpy") else (c.args[0] if c.args else None)
            if not isinstance(hay, ast.Name):
                continue
            if f.module.name == CORE and "_chunk_offsets" in norm(hay):
                continue
            n += 1
            H = hay.id
            # argsort keys:  k = np.argsort(X) / X.argsort()
            keys: Dict[str, str] = {}
            for s in walk_no_nested(f.node):
                if isinstance(s, ast.Assign) and len(s.targets) == 1 and isinstance(s.targets[0], ast.Name) and isinstance(s.value, ast.Call):
                    cn = call_name(s.value) or ""
                    if cn in ("np.argsort", "numpy.argsort") and s.value.args and isinstance(s.value.args[0], ast.Name):
                        keys[s.targets[0].id] = s.value.args[0].id
                    elif cn.endswith(".argsort") and isinstance(s.value.func, ast.Attribute) and isinstance(s.value.func.value, ast.Name):
                        keys[s.targets[0].id] = s.value.func.value.id
            paths = [p for p in enumerate_paths(f.node.body) if any(c in list(ast.walk(st)) for st in p.stmts)]
            bad_path = None
            for p in paths:
                sorted_now: Set[str] = set()
                alias_of: Dict[str, str] = {}
                for st in p.stmts:
                    if any(x is c for x in ast.walk(st)):
                        break
                    if isinstance(st, ast.Assign) and len(st.targets) == 1 and isinstance(st.targets[0], ast.Name):
                        t, v = st.targets[0].id, st.value
                        cn = (call_name(v) or "") if isinstance(v, ast.Call) else ""
                        if isinstance(v, ast.Call) and (cn in SORTERS or cn.endswith(".sort_values")):
                            sorted_now.add(t)
                        elif isinstance(v, ast.Subscript) and isinstance(v.value, ast.Name) and isinstance(v.slice, ast.Name) \
                                and v.slice.id in keys and (keys[v.slice.id] == v.value.id
                                                            or alias_of.get(v.value.id) == keys[v.slice.id]
                                                            or alias_of.get(keys[v.slice.id]) == v.value.id
                                                            or keys[v.slice.id] == t):
                            sorted_now.add(t)
                        elif isinstance(v, ast.Name):
                            alias_of[t] = v.id
                            if v.id in sorted_now:
                                sorted_now.add(t)
                            else:
                                sorted_now.discard(t)
                        else:
                            sorted_now.discard(t)
                if H not in sorted_now:
                    bad_path = p
                    break
            construct = f"{f.qualname}: {norm(c)[:60]}"
            if bad_path is None:
                res.ok(f, c, construct, f"{H} is sorted on all {len(paths)} paths that reach the search")
            else:
                res.bad(f, c, construct,
                        f"on some path {H!r} reaches searchsorted without having been sorted in this function (it is not the result "
                        f"of np.sort / sort_values / indexing by its own argsort key): edges passed out of order give wrong bins "
                        f"while the labels are built from the sorted edges", path=bad_path.describe()[:160])
    if n < 1:
        raise AnalysisError("P19: no searchsorted call found (pretty_cut is the confirmed instance)")
    return res


# ------------------------------------------------------------------------------------------------ P5b

CODE_ORDER_ATTRS = {"ikey_count", "key_count"}
CODE_ORDER_CALLS = {"count_ikey"}


def rule_P5b(repo: Repo) -> RuleResult:
    """Index-space agreement of selectors: an array that is in label-sorted order (it derives from self._labels_argsort or
    self._group_sort_indexer) is only filtered by a selector that is in that order too.  Per-group counts straight from the
    count API (self.ikey_count, self.count_ikey(..), self.key_count) are in first-appearance (code) order."""
    from .rules_p import _sort_taint
    res = RuleResult("P5b", "label-sorted arrays are filtered only by selectors in label-sorted order")
    core = repo.mod(CORE)
    n = 0
    for name, m in core.methods("GroupBy").items():
        tainted = _sort_taint(m, repo)
        if not tainted:
            continue

        def code_order(e: ast.AST) -> Optional[str]:
            """text of a code-order count source in e that is not itself re-ordered by the sort permutation"""
            for x in ast.walk(e):
                src = None
                if isinstance(x, ast.Attribute) and x.attr in CODE_ORDER_ATTRS and attr_chain(x) and attr_chain(x)[0] == "self":
                    src = x
                if isinstance(x, ast.Call) and isinstance(x.func, ast.Attribute) and x.func.attr in CODE_ORDER_CALLS:
                    src = x
                if src is None:
                    continue
                # re-ordered in place?  src[<sort permutation>]
                reordered = any(isinstance(p, ast.Subscript) and p.value is src and (
                    _names(p.slice) & tainted or any(isinstance(a, ast.Attribute) and a.attr in ("_labels_argsort",)
                                                     for a in ast.walk(p.slice))) for p in ast.walk(e))
                if not reordered:
                    return norm(src)
            return None

        # local names holding code-order selectors (single assignment from a code-order expression, not tainted)
        code_names: Dict[str, str] = {}
        for s in walk_no_nested(m.node):
            # (also a name that is label-ordered on another path: `if mask is not None: sel = <code order> else: sel = <label order>`)
            if isinstance(s, ast.Assign) and len(s.targets) == 1 and isinstance(s.targets[0], ast.Name):
                c = code_order(s.value)
                if c:
                    code_names[s.targets[0].id] = c
        for sub in walk_no_nested(m.node):
            if not (isinstance(sub, ast.Subscript) and isinstance(sub.ctx, ast.Load) and isinstance(sub.value, ast.Name)
                    and sub.value.id in tainted):
                continue
            sl = sub.slice
            if isinstance(sl, (ast.Slice, ast.Constant)) or (isinstance(sl, ast.Name) and sl.id in tainted and sl.id not in code_names):
                continue
            # names of code-order selectors used as they are (a use `sel[<sort permutation>]` re-orders the selector: fine)
            reordered_bases = {id(p.value) for p in ast.walk(sl) if isinstance(p, ast.Subscript) and isinstance(p.value, ast.Name) and (
                _names(p.slice) & tainted or any(isinstance(a, ast.Attribute) and a.attr == "_labels_argsort" for a in ast.walk(p.slice)))}
            plain = [x.id for x in ast.walk(sl) if isinstance(x, ast.Name) and id(x) not in reordered_bases]
            src = code_order(sl) or next((code_names[x] for x in plain if x in code_names), None)
            if src is None:
                continue
            n += 1
            res.bad(m, sub, f"{m.qualname}: {norm(sub)[:80]}",
                    f"{sub.value.id!r} is in label-sorted order (it derives from the sort permutation) but is filtered by a selector "
                    f"computed from {src}, which is in first-appearance (code) order: whenever labels do not first appear in sorted "
                    f"order the results are attached to the wrong labels")
        # positive instances: tainted bases filtered by tainted selectors
        for sub in walk_no_nested(m.node):
            if isinstance(sub, ast.Subscript) and isinstance(sub.ctx, ast.Load) and isinstance(sub.value, ast.Name) \
                    and sub.value.id in tainted and isinstance(sub.slice, (ast.Compare, ast.Name, ast.List, ast.ListComp)) \
                    and (_names(sub.slice) & tainted):
                n += 1
                res.ok(m, sub, f"{m.qualname}: {norm(sub)[:80]}", "selector in the same (label-sorted) order")
    if n < 2:
        raise AnalysisError(f"P5b: only {n} filtered label-sorted arrays found (floor 2)")
    return res


# ------------------------------------------------------------------------------------------------ P20

NAN_DROPPING = {"np.fmax", "np.fmin", "np.nan_to_num", "np.nanmax", "np.nanmin", "np.nansum", "np.nanmean", "numpy.fmax",
                "numpy.fmin", "numpy.nan_to_num"}
NAN_DROPPING_METHODS = {"fillna", "nan_to_num", "combine_first"}


def rule_P20(repo: Repo) -> RuleResult:
    """var / std / ratio / subset_ratio / mean_from_sum_count: the arithmetic that combines the primitives applies no
    null-suppressing function (np.fmax / np.fmin / nan_to_num / fillna ...) - a group with too few values must come out null
    (0/0, x/(n - ddof) with n <= ddof), not as a number."""
    res = RuleResult("P20", "composite statistics do not suppress the nulls that mark 'too few values'")
    core = repo.mod(CORE)
    funcs = [core.func(f"GroupBy.{n_}") for n_ in ("var", "std", "ratio", "subset_ratio")] + [repo.func("util", "mean_from_sum_count")]
    for f in funcs:
        bad = None
        for c in walk_no_nested(f.node):
            if isinstance(c, ast.Call):
                cn = call_name(c) or ""
                if cn in NAN_DROPPING or (isinstance(c.func, ast.Attribute) and c.func.attr in NAN_DROPPING_METHODS):
                    bad = c
        if bad is not None:
            res.bad(f, bad, f"{f.qualname}: {norm(bad)[:80]}",
                    f"{norm(bad.func)} replaces / ignores NaN: the null that 0/0 or a non-positive denominator produces for a group "
                    f"with too few values is turned into a number (e.g. variance -0.0 for an all-null group with ddof=1)")
        else:
            res.ok(f, f.node, f"{f.qualname}: no null-suppressing function", "")
    return res


# ------------------------------------------------------------------------------------------------ W rules (rolling windows)

ROLLING_KERNELS = ("_rolling_sum_or_mean_1d", "_rolling_max_or_min_1d", "_rolling_shift_or_diff_1d")


def _window_roles(f: Func):
    """buffer = the per-group array subscripted [code, pos]; pos = local read from the position array P[code];
    window = the parameter that is the buffer's second dimension"""
    roles = infer_roles(f)
    buf = pos = parr = window = None
    for s in walk_no_nested(f.node):
        if isinstance(s, ast.Assign) and len(s.targets) == 1 and isinstance(s.targets[0], ast.Name) and isinstance(s.value, ast.Call) \
                and (call_name(s.value) or "").split(".")[-1] in ("full", "zeros", "empty") and s.value.args \
                and isinstance(s.value.args[0], ast.Tuple) and len(s.value.args[0].elts) == 2 \
                and isinstance(s.value.args[0].elts[1], ast.Name) and s.value.args[0].elts[1].id in f.named_params:
            buf, window = s.targets[0].id, s.value.args[0].elts[1].id
    if buf is None:
        raise AnalysisError(f"W: circular buffer of {f.qualname} not found")
    for x in walk_no_nested(f.node):
        if isinstance(x, ast.Subscript) and isinstance(x.value, ast.Name) and x.value.id == buf and isinstance(x.slice, ast.Tuple) \
                and len(x.slice.elts) == 2 and isinstance(x.slice.elts[1], ast.Name):
            pos = x.slice.elts[1].id
    for s in walk_no_nested(f.node):
        if isinstance(s, ast.Assign) and len(s.targets) == 1 and isinstance(s.targets[0], ast.Name) and s.targets[0].id == pos \
                and isinstance(s.value, ast.Subscript) and base_name(s.value) in roles.per_group_arrays:
            parr = base_name(s.value)
    if pos is not None and parr is None:
        # position computed from a per-group counter:  pos = counter[code] % window
        for s in walk_no_nested(f.node):
            if isinstance(s, ast.Assign) and len(s.targets) == 1 and isinstance(s.targets[0], ast.Name) and s.targets[0].id == pos \
                    and isinstance(s.value, ast.BinOp) and isinstance(s.value.op, ast.Mod) and isinstance(s.value.left, ast.Subscript) \
                    and base_name(s.value.left) in roles.per_group_arrays:
                parr = "%" + base_name(s.value.left)
    if pos is None or parr is None:
        raise AnalysisError(f"W: buffer position of {f.qualname} not found")
    loop = None
    for l in walk_no_nested(f.node):
        if isinstance(l, ast.For) and any(isinstance(x, ast.Name) and x.id == pos for x in ast.walk(l)):
            loop = l
    return roles, buf, pos, parr, window, loop


def _accepted_paths(f: Func, loop: ast.For):
    from .rules_k import _mask_aliases, _selection_of_path
    aliases = _mask_aliases(f, {"mask"})
    out = []
    for p in enumerate_paths(loop.body, split_bool=True):
        if p.exit not in ("fall", "continue"):
            continue
        null_key = any(pol is True and isinstance(t, ast.Compare) and len(t.ops) == 1 and isinstance(t.ops[0], ast.Lt)
                       and const_int(t.comparators[0]) == 0 for t, pol in p.conds)
        if null_key or _selection_of_path(p, {"mask"}, aliases) == "unselected":
            continue
        out.append(p)
    return out


def rule_W1(repo: Repo) -> RuleResult:
    """Circular buffer discipline of the three rolling kernels, on every path that accepts a row: (a) the value is stored into
    buffer[code, pos] exactly once; (b) the group's position becomes (pos + 1) % window exactly once; (c) the group's row
    counter is compared with the window by `>=` (the buffer is full once `window` rows were accepted) and is incremented by one
    exactly on the paths where the buffer is not yet full."""
    res = RuleResult("W1", "rolling kernels: buffer store, position advance modulo the window, fullness test and row counter")
    nb = repo.mod(NB)
    for kname in ROLLING_KERNELS:
        f = nb.func(kname)
        roles, buf, pos, parr, window, loop = _window_roles(f)
        if parr.startswith("%"):
            # the position is derived from a counter: it advances only if that counter is incremented on EVERY accepted row
            cnt = parr[1:]
            for p in _accepted_paths(f, loop):
                incs = [st for st in p.stmts if isinstance(st, ast.AugAssign) and isinstance(st.target, ast.Subscript)
                        and base_name(st.target) == cnt and isinstance(st.op, ast.Add) and const_int(st.value) == 1]
                if len(incs) == 1:
                    res.ok(f, incs[0], f"{kname}: {pos} = {cnt}[key] % {window}, counter +1 on {p.describe()[:60]}", "")
                else:
                    res.bad(f, loop, f"{kname}: {pos} = {cnt}[key] % {window}, counter +{len(incs)} on {p.describe()[:60]}",
                            f"the buffer position is computed from {cnt}[key], which is not incremented on this accepted-row path: once "
                            f"the counter stops (it saturates at the window) every row is written to the same slot and shift/diff "
                            f"return the previous row instead of the row `window` rows back", path=p.describe())
            continue
        # fullness: a comparison  X >= window  where X is (a local read from) a per-group counter cell
        full_cmp = None
        counter = None
        local_cells = {s.targets[0].id: base_name(s.value) for s in walk_no_nested(f.node)
                       if isinstance(s, ast.Assign) and len(s.targets) == 1 and isinstance(s.targets[0], ast.Name)
                       and isinstance(s.value, ast.Subscript) and base_name(s.value) in roles.per_group_arrays}
        for c in walk_no_nested(f.node):
            if isinstance(c, ast.Compare) and len(c.ops) == 1 and isinstance(c.comparators[0], ast.Name) \
                    and c.comparators[0].id == window:
                left = c.left
                arr = base_name(left) if isinstance(left, ast.Subscript) else local_cells.get(left.id) if isinstance(left, ast.Name) else None
                if arr in roles.per_group_arrays and arr != parr:
                    full_cmp, counter = c, arr
        if full_cmp is None:
            raise AnalysisError(f"W1: fullness test of {kname} not found")
        # `counter >= window` means full; `counter < window` means not yet full (the same test, read the other way round)
        full_sense = True if isinstance(full_cmp.ops[0], ast.GtE) else (False if isinstance(full_cmp.ops[0], ast.Lt) else None)
        if full_sense is not None:
            res.ok(f, full_cmp, f"{kname}: {norm(full_cmp)}", "the buffer is full once `window` rows of the group were accepted")
        else:
            res.bad(f, full_cmp, f"{kname}: {norm(full_cmp)}",
                    f"the buffer of a group must count as full when its row counter has reached the window ({counter}[key] >= {window}); "
                    f"with this comparison the oldest value is evicted one row too late / too early, so windows hold "
                    f"{window}+1 or {window}-1 rows")
        full_txt = norm(full_cmp)
        full_names = {s.targets[0].id for s in walk_no_nested(f.node) if isinstance(s, ast.Assign) and len(s.targets) == 1
                      and isinstance(s.targets[0], ast.Name) and norm(s.value) == full_txt}
        for p in _accepted_paths(f, loop):
            stores = [st for st in p.stmts if isinstance(st, ast.Assign) and isinstance(st.targets[0], ast.Subscript)
                      and base_name(st.targets[0]) == buf]
            adv = [st for st in p.stmts if isinstance(st, ast.Assign) and isinstance(st.targets[0], ast.Subscript)
                   and base_name(st.targets[0]) == parr]
            incs = [st for st in p.stmts if isinstance(st, ast.AugAssign) and isinstance(st.target, ast.Subscript)
                    and base_name(st.target) == counter and isinstance(st.op, ast.Add) and const_int(st.value) == 1]
            decisions = set()
            sense = (lambda b: b) if full_sense is not False else (lambda b: not b)
            for t, pol in p.conds:
                if isinstance(t, ast.AST) and (norm(t) == full_txt or (isinstance(t, ast.Name) and t.id in full_names)):
                    decisions.add(sense(pol))
                if isinstance(t, ast.UnaryOp) and isinstance(t.op, ast.Not) and isinstance(t.operand, ast.Name) \
                        and t.operand.id in full_names:
                    decisions.add(sense(not pol))
                if isinstance(t, ast.BoolOp) and isinstance(t.op, ast.And) and pol is True:
                    for v in t.values:
                        if isinstance(v, ast.Name) and v.id in full_names:
                            decisions.add(sense(True))
            if len(decisions) > 1:
                continue            # the flag is decided both ways: not a feasible path (the counter is not written in between)
            is_full = next(iter(decisions)) if decisions else None
            desc = p.describe()[:80]
            # (a)
            if len(stores) == 1 and norm(stores[0].targets[0].slice.elts[1] if isinstance(stores[0].targets[0].slice, ast.Tuple) else stores[0].targets[0].slice) == pos:
                res.ok(f, stores[0], f"{kname}: {norm(stores[0])} on {desc}", "one store at the current position")
            else:
                res.bad(f, stores[0] if stores else loop, f"{kname}: {len(stores)} buffer store(s) on {desc}",
                        "an accepted row must be written into the group's circular buffer exactly once, at the current position",
                        path=p.describe())
            # (b)
            env = {}
            ok_adv = False
            if len(adv) == 1:
                v = _canon(adv[0].value, {})
                want = ("Mod", ("add", ("const", "1"), ("name", pos)), ("name", window))
                alt = ("Mod", ("add", ("name", pos), ("const", "1")), ("name", window))
                ok_adv = v in (want, alt)
                if not ok_adv and isinstance(adv[0].value, ast.Name):
                    d = [s for s in p.stmts if isinstance(s, ast.Assign) and len(s.targets) == 1 and isinstance(s.targets[0], ast.Name)
                         and s.targets[0].id == adv[0].value.id]
                    ok_adv = bool(d) and _canon(d[-1].value, {}) in (want, alt)
            if ok_adv:
                res.ok(f, adv[0], f"{kname}: {norm(adv[0])} on {desc}", "position advances by one modulo the window")
            else:
                res.bad(f, adv[0] if adv else loop, f"{kname}: position update {norm(adv[0]) if adv else '<none>'} on {desc}",
                        f"after an accepted row the group's buffer position must become ({pos} + 1) % {window}, exactly once; "
                        f"otherwise rows overwrite each other or the buffer is indexed past its end", path=p.describe())
            # (c)
            if is_full is not None:
                want_inc = 0 if is_full else 1
                if len(incs) == want_inc:
                    res.ok(f, loop, f"{kname}: row counter +{len(incs)} on {desc}", "counted exactly while the buffer fills up")
                else:
                    res.bad(f, incs[0] if incs else loop, f"{kname}: row counter +{len(incs)} on {desc}",
                            f"the group's row counter must be incremented exactly on the paths where the buffer is not yet full "
                            f"(this path: {'full' if is_full else 'not full'})", path=p.describe())
    seen, uniq = set(), []
    for v in res.violations:
        if v.key() not in seen:
            seen.add(v.key()); uniq.append(v)
    res.violations = uniq
    return res


def rule_W2(repo: Repo) -> RuleResult:
    """Emission rule of the windowed aggregations: `min_periods` defaults to the window, and the output row is written only
    under `non_null_count[code] >= min_periods`; when the buffer is full the evicted value is read from the buffer before the
    new value overwrites it."""
    res = RuleResult("W2", "rolling kernels: min_periods default and emission guard; evicted value read before it is overwritten")
    nb = repo.mod(NB)
    for kname in ROLLING_KERNELS[:2]:
        f = nb.func(kname)
        roles, buf, pos, parr, window, loop = _window_roles(f)
        mp = "min_periods" if "min_periods" in f.named_params else None
        if mp is None:
            raise AnalysisError(f"W2: {kname} no longer has a min_periods parameter")
        default_ok = any(isinstance(i, ast.If) and norm(i.test) == f"{mp} is None" and any(
            isinstance(s, ast.Assign) and norm(s) == f"{mp} = {window}" for s in i.body) for i in f.node.body)
        if default_ok:
            res.ok(f, f.node, f"{kname}: {mp} defaults to {window}", "")
        else:
            res.bad(f, f.node, f"{kname}: default of {mp}", f"an omitted {mp} must mean the window size")
        outs = [s for s in ast.walk(loop) if isinstance(s, ast.Assign) and isinstance(s.targets[0], ast.Subscript)
                and base_name(s.targets[0]) in roles.row_aligned_arrays | {"out"} and base_name(s.targets[0]) not in f.named_params]
        if not outs:
            raise AnalysisError(f"W2: output store of {kname} not found")
        for o in outs:
            guards = [t for t in _enclosing_tests_of(loop, o)]
            nn = _non_null_counters(f, roles)
            ok = any(isinstance(t, ast.Compare) and len(t.ops) == 1 and isinstance(t.ops[0], ast.GtE)
                     and isinstance(t.left, ast.Subscript) and base_name(t.left) in nn
                     and isinstance(t.comparators[0], ast.Name) and t.comparators[0].id == mp for t in guards)
            if ok:
                res.ok(f, o, f"{kname}: {norm(o)[:50]}", f"emitted under non-null count >= {mp}")
            else:
                res.bad(f, o, f"{kname}: {norm(o)[:50]} under {[norm(g) for g in guards][-1:]}",
                        f"a result row must be emitted exactly when the window holds at least {mp} non-null values "
                        f"(non_null[key] >= {mp})")
        # eviction read precedes the overwrite on full paths
        for p in _accepted_paths(f, loop):
            st_idx = [i for i, st in enumerate(p.stmts) if isinstance(st, ast.Assign) and isinstance(st.targets[0], ast.Subscript)
                      and base_name(st.targets[0]) == buf]
            rd_idx = [i for i, st in enumerate(p.stmts) if isinstance(st, ast.Assign) and isinstance(st.value, ast.Subscript)
                      and base_name(st.value) == buf and isinstance(st.value.slice, ast.Tuple)]
            if rd_idx and st_idx and min(rd_idx) > min(st_idx):
                res.bad(f, p.stmts[rd_idx[0]], f"{kname}: eviction read after the overwrite on {p.describe()[:70]}",
                        "the value that leaves the window is read from the buffer after the new value was stored at the same "
                        "position: the new value is removed instead of the oldest one", path=p.describe())
            elif rd_idx and st_idx:
                res.ok(f, p.stmts[rd_idx[0]], f"{kname}: eviction read before the overwrite on {p.describe()[:70]}", "")
    seen, uniq = set(), []
    for v in res.violations:
        if v.key() not in seen:
            seen.add(v.key()); uniq.append(v)
    res.violations = uniq
    return res


def _enclosing_tests_of(root: ast.AST, stmt: ast.AST) -> List[ast.AST]:
    out: List[ast.AST] = []

    def rec(n, tests):
        if n is stmt:
            out.extend(tests)
            return True
        for fld, val in ast.iter_fields(n):
            if isinstance(val, list):
                for c in val:
                    if isinstance(c, ast.AST):
                        t2 = tests + [n.test] if isinstance(n, ast.If) and fld == "body" else tests
                        if rec(c, t2):
                            return True
        return False

    rec(root, [])
    return out


# ------------------------------------------------------------------------------------------------ H rules (row selection, counting sort)

def rule_H1(repo: Repo) -> RuleResult:
    """Row-selection scans.  _find_nth: on every accepted-row path the group's occurrence counter is incremented exactly once,
    after it was compared (`== n`) to decide whether this row is the one; a negative n scans backwards with n := -n - 1.
    _find_first_or_last_n: the slot index is the counter value before the increment and the row is stored only under
    `slot < n`; the counter advances by one for every stored row."""
    res = RuleResult("H1", "head/tail/nth scans: occurrence counter compared before it is incremented, once per accepted row")
    nb = repo.mod(NB)
    # ---- _find_nth
    f = nb.func("_find_nth")
    roles = infer_roles(f)
    loop = [l for l in walk_no_nested(f.node) if isinstance(l, ast.For)][-1]
    npar = f.named_params[2]
    from .rules_k import _mask_aliases, _selection_of_path
    aliases = _mask_aliases(f, {"mask"})
    counters = {base_name(s.target) for s in ast.walk(loop) if isinstance(s, ast.AugAssign) and isinstance(s.target, ast.Subscript)
                and isinstance(s.op, ast.Add) and const_int(s.value) == 1 and base_name(s.target) in roles.per_group_arrays}
    if len(counters) != 1:
        raise AnalysisError(f"H1: occurrence counter of _find_nth not identified ({sorted(counters)})")
    cnt = next(iter(counters))
    for p in enumerate_paths(loop.body, split_bool=True):
        if p.exit not in ("fall", "continue"):
            continue
        if any(pol is True and isinstance(t, ast.Compare) and isinstance(t.ops[0], ast.Lt) and const_int(t.comparators[0]) == 0
               for t, pol in p.conds if isinstance(t, ast.Compare) and len(t.ops) == 1):
            continue
        if _selection_of_path(p, {"mask"}, aliases) == "unselected":
            continue
        incs = [i for i, st in enumerate(p.stmts) if isinstance(st, ast.AugAssign) and isinstance(st.target, ast.Subscript)
                and base_name(st.target) == cnt]
        stores = [i for i, st in enumerate(p.stmts) if isinstance(st, ast.Assign) and isinstance(st.targets[0], ast.Subscript)
                  and base_name(st.targets[0]) in roles.per_group_arrays and base_name(st.targets[0]) != cnt]
        cmp_ok = any(isinstance(t, ast.Compare) and len(t.ops) == 1 and isinstance(t.ops[0], ast.Eq)
                     and isinstance(t.left, ast.Subscript) and base_name(t.left) == cnt and isinstance(t.comparators[0], ast.Name)
                     and t.comparators[0].id == npar for t, pol in p.conds if pol is True)
        desc = p.describe()[:80]
        if len(incs) != 1:
            res.bad(f, loop, f"_find_nth: counter +{len(incs)} on {desc}",
                    "the group's occurrence counter must be incremented exactly once for every accepted row", path=p.describe())
        elif stores and (not cmp_ok or min(stores) > incs[0]):
            res.bad(f, p.stmts[stores[0]], f"_find_nth: {norm(p.stmts[stores[0]])} on {desc}",
                    f"the row is recorded without `{cnt}[k] == {npar}` having been tested before the counter is incremented: "
                    f"another occurrence than the n-th is selected", path=p.describe())
        else:
            res.ok(f, loop, f"_find_nth: counter +1{', row stored under == n' if stores else ''} on {desc}", "")
    # negative n: reversed range and n := -n - 1 in the same arm
    arm_ok = False
    for i in f.node.body:
        if isinstance(i, ast.If) and isinstance(i.test, ast.Compare) and npar in _names(i.test):
            for arm in (i.body, i.orelse):
                rev = any(_reverses_scan(s_, _step_names(f)) for s_ in arm)
                flip = any(isinstance(s_, ast.Assign) and isinstance(s_.targets[0], ast.Name) and s_.targets[0].id == npar
                           and _canon(s_.value, {}) in (("add", ("const", "-1"), ("neg", ("name", npar))),
                                                        ("add", ("neg", ("const", "1")), ("neg", ("name", npar))),
                                                        ("add", ("neg", ("name", npar)), ("neg", ("const", "1")))) for s_ in arm)
                if rev and flip:
                    arm_ok = True
                elif rev != flip:
                    res.bad(f, i, f"_find_nth: negative-n arm (reversed scan={rev}, n := -n - 1={flip})",
                            "counting from the end requires both the reversed scan and n := -n - 1 in the same arm")
    if arm_ok:
        res.ok(f, f.node, "_find_nth: negative n scans backwards with n := -n - 1", "")
    # ---- _find_first_or_last_n   (analysed with the locals that name one cell replaced by the cell: j = seen[k])
    from .canon import inline_cell_reads
    g0 = nb.func("_find_first_or_last_n")
    roles = infer_roles(g0)
    g = inline_cell_reads(g0, skip=set(roles.code_vars))
    loop = [l for l in walk_no_nested(g.node) if isinstance(l, ast.For)][-1]
    npar = g.named_params[2]
    found = 0
    g_mask = {p_ for p_ in g.named_params if p_ == "mask"}
    g_alias = _mask_aliases(g, g_mask)
    for p in enumerate_paths(loop.body, split_bool=True):
        if p.exit not in ("fall", "continue"):
            continue
        stores = [st for st in p.stmts if isinstance(st, ast.Assign) and isinstance(st.targets[0], ast.Subscript)
                  and isinstance(st.targets[0].slice, ast.Tuple) and len(st.targets[0].slice.elts) == 2
                  and base_name(st.targets[0]) not in g.named_params]
        incs = [st for st in p.stmts if isinstance(st, ast.AugAssign) and isinstance(st.target, ast.Subscript)
                and base_name(st.target) in roles.per_group_arrays]
        null_key = any(pol is True and isinstance(t, ast.Compare) and len(t.ops) == 1 and isinstance(t.ops[0], ast.Lt)
                       and const_int(t.comparators[0]) == 0 for t, pol in p.conds)
        rejected = null_key or (g_mask and _selection_of_path(p, g_mask, g_alias) == "unselected")
        desc = p.describe()[:80]
        if rejected:
            for st in stores + incs:
                res.bad(g, st, f"_find_first_or_last_n: {norm(st)} on {desc}", "a row with a null key or outside the mask is neither stored nor counted",
                        path=p.describe())
            continue
        if not stores:
            if incs:
                pass        # counting beyond n is harmless (the slot test fails from then on)
            continue
        found += 1
        st = stores[0]
        if g_mask and _selection_of_path(p, g_mask, g_alias) != "selected":
            res.bad(g, st, f"_find_first_or_last_n: {norm(st)} on {desc}",
                    "the row is stored on a path that did not establish that the mask selects it (mask given and mask[row] false is possible here)",
                    path=p.describe())
            continue
        slot = st.targets[0].slice.elts[1]
        cnt = base_name(slot) if isinstance(slot, ast.Subscript) else None
        ok_slot = cnt in roles.per_group_arrays
        ok_guard = any(pol is True and isinstance(t, ast.Compare) and len(t.ops) == 1 and isinstance(t.ops[0], ast.Lt)
                       and norm(t.left) == norm(slot) and isinstance(t.comparators[0], ast.Name) and t.comparators[0].id == npar
                       for t, pol in p.conds) \
            or any(pol is False and isinstance(t, ast.Compare) and len(t.ops) == 1 and isinstance(t.ops[0], ast.GtE)
                   and norm(t.left) == norm(slot) and isinstance(t.comparators[0], ast.Name) and t.comparators[0].id == npar
                   for t, pol in p.conds)
        my_incs = [x for x in incs if base_name(x.target) == cnt and isinstance(x.op, ast.Add) and const_int(x.value) == 1]
        ok_inc = len(stores) == 1 and len(my_incs) == 1 and p.stmts.index(my_incs[0]) > p.stmts.index(st)
        if ok_slot and ok_guard and ok_inc:
            res.ok(g, st, f"_find_first_or_last_n: {norm(st)} under {norm(slot)} < {npar}; {norm(my_incs[0])} on {desc}",
                   "slot = occurrences seen so far; the counter advances once after the store")
        elif not (ok_slot and ok_guard):
            res.bad(g, st, f"_find_first_or_last_n: {norm(st)} on {desc}",
                    f"a row must be stored at slot = (occurrences of its group seen so far) and only while that slot is < {npar}", path=p.describe())
        else:
            res.bad(g, st, f"_find_first_or_last_n: {len(my_incs)} counter increment(s) after {norm(st)} on {desc}",
                    "after a row is stored the group's occurrence counter must advance by exactly one (after the store): otherwise the next "
                    "row of the group overwrites this slot or leaves a gap", path=p.describe())
    if found < 1:
        raise AnalysisError("H1: slot store of _find_first_or_last_n not found")
    seen, uniq = set(), []
    for v in res.violations:
        if v.key() not in seen:
            seen.add(v.key()); uniq.append(v)
    res.violations = uniq
    return res


def rule_H2(repo: Repo) -> RuleResult:
    """Counting sort of _build_group_sorted_indexer_numba: group starts are the running sum of the group counts
    (starts[g+1] = starts[g] + counts[g]); every accepted row is written at its group's current position, which then
    advances by one."""
    res = RuleResult("H2", "group-sorted indexer: prefix-sum group starts; one write at the group's position, then position + 1")
    f = repo.func(CORE, "GroupBy._build_group_sorted_indexer_numba")
    roles = infer_roles(f)
    ok_prefix = False
    for l in walk_no_nested(f.node):
        if isinstance(l, ast.For) and isinstance(l.target, ast.Name):
            i = l.target.id
            for st in l.body:
                if isinstance(st, ast.Assign) and isinstance(st.targets[0], ast.Subscript) and isinstance(st.value, ast.BinOp) \
                        and isinstance(st.value.op, ast.Add):
                    tgt = st.targets[0]
                    a = _canon(tgt.slice, {})
                    if a in (("add", ("const", "1"), ("name", i)), ("add", ("name", i), ("const", "1"))):
                        sides = [st.value.left, st.value.right]
                        same = [x for x in sides if isinstance(x, ast.Subscript) and base_name(x) == base_name(tgt) and norm(x.slice) == i]
                        cnts = [x for x in sides if isinstance(x, ast.Subscript) and base_name(x) in f.named_params and norm(x.slice) == i]
                        if same and cnts:
                            ok_prefix = True
                            res.ok(f, st, norm(st), "running sum of the group counts")
    if not ok_prefix:
        res.bad(f, f.node, "group starts", "the group start offsets are no longer the running sum starts[g+1] = starts[g] + counts[g]")
    loop = None
    for l in walk_no_nested(f.node):
        # the loop whose every iteration handles one row: the code is its target (`for k in arr`) or is read from the chunk
        # at the loop index as a statement of its body (`for j in range(len(arr)): k = arr[j]`)
        if isinstance(l, ast.For) and (any(isinstance(x, ast.Name) and x.id in roles.code_vars for x in ast.walk(l.target)) or any(
                isinstance(s_, ast.Assign) and len(s_.targets) == 1 and isinstance(s_.targets[0], ast.Name)
                and s_.targets[0].id in roles.code_vars for s_ in l.body)):
            loop = l
    if loop is None:
        raise AnalysisError("H2: row loop of the counting sort not found")
    n = 0
    from .rules_k import _mask_aliases, _selection_of_path
    mask_names = {p_ for p_ in f.named_params if "mask" in p_}
    aliases = _mask_aliases(f, mask_names)
    for p in enumerate_paths(loop.body, split_bool=True):
        writes = [st for st in p.stmts if isinstance(st, ast.Assign) and isinstance(st.targets[0], ast.Subscript)
                  and base_name(st.targets[0]) not in roles.per_group_arrays and base_name(st.targets[0]) not in f.named_params]
        incs = [st for st in p.stmts if isinstance(st, ast.AugAssign) and isinstance(st.target, ast.Subscript)
                and base_name(st.target) in roles.per_group_arrays and isinstance(st.op, ast.Add) and const_int(st.value) == 1]
        accepted = any(pol is True and isinstance(t, ast.AST) and ">= 0" in norm(t) for t, pol in p.conds) \
            and _selection_of_path(p, mask_names, aliases) != "unselected"
        if not accepted:
            if writes or incs:
                res.bad(f, (writes or incs)[0], f"skipped row writes on {p.describe()[:70]}", "a skipped row must not move any position")
            continue
        n += 1
        if len(writes) == 1 and len(incs) == 1 and p.stmts.index(writes[0]) < p.stmts.index(incs[0]):
            res.ok(f, writes[0], f"{norm(writes[0])}; {norm(incs[0])} on {p.describe()[:60]}", "")
        else:
            res.bad(f, loop, f"{len(writes)} write(s), {len(incs)} position increment(s) on {p.describe()[:60]}",
                    "every accepted row must be written once at its group's current position, which then advances by one")
    if n < 1:
        raise AnalysisError("H2: no accepted-row path found")
    return res


# ------------------------------------------------------------------------------------------------ E5

def rule_E5(repo: Repo) -> RuleResult:
    """The normalised EMA recurrence, on every valid-row path of the four adjusted kernels (_ema_adjusted, _ema_time_weighted,
    _ema_grouped, _ema_grouped_timed):  out[i] = (x + R) / (1 + W)  with R, W the running numerator / weight *at that point*,
    followed on the same path by R := R + x and W := W + 1 (in either order).  This is the recurrence whose closed form is the
    weighted mean of the property; the decay of R and W is E3/E4's business."""
    res = RuleResult("E5", "EMA kernels: out = (x + R)/(1 + W), then R += x and W += 1, on every valid-row path")
    em = repo.mod("emas")
    n = 0
    for kname in ("_ema_adjusted", "_ema_time_weighted", "_ema_grouped", "_ema_grouped_timed"):
        f = em.func(kname)
        loop = [x for x in walk_no_nested(f.node) if isinstance(x, ast.For)][-1]
        # the element variable x: loop target that is tested by isnan
        loop_names = {x_.id for x_ in ast.walk(loop.target) if isinstance(x_, ast.Name)}
        # `for i in range(len(arr)): x = arr[i]` binds the element like `for i, x in enumerate(arr)` does
        loop_names |= {s_.targets[0].id for s_ in loop.body if isinstance(s_, ast.Assign) and len(s_.targets) == 1
                       and isinstance(s_.targets[0], ast.Name) and isinstance(s_.value, ast.Subscript)
                       and base_name(s_.value) in f.named_params and _names(s_.value.slice) & loop_names}
        xs = {norm(c.args[0]) for c in ast.walk(loop) if isinstance(c, ast.Call) and norm(c.func) in ("np.isnan", "is_null", "isnan")
              and c.args and isinstance(c.args[0], ast.Name) and c.args[0].id in loop_names}
        if len(xs) != 1:
            raise AnalysisError(f"E5: the value variable of {kname} is not identified ({sorted(xs)})")
        x = next(iter(xs))
        for p in enumerate_paths(loop.body, split_bool=True):
            if p.exit not in ("fall", "continue"):
                continue
            # valid-row path: the isnan test (possibly inside an `or`) was decided false
            valid = any(pol is False and isinstance(t, ast.AST) and f"isnan({x})" in norm(t) for t, pol in p.conds)
            if not valid:
                continue
            from .rules_k import _mask_aliases, _selection_of_path
            if "mask" in f.named_params and _selection_of_path(p, {"mask"}, _mask_aliases(f, {"mask"})) == "unselected":
                continue
            # the normalised value is stored into the output directly, or first given a name that is then stored
            outs = []
            for i, st in enumerate(p.stmts):
                if isinstance(st, ast.Assign) and len(st.targets) == 1 and isinstance(st.value, ast.BinOp) and isinstance(st.value.op, ast.Div):
                    t0 = st.targets[0]
                    if isinstance(t0, ast.Subscript) or (isinstance(t0, ast.Name) and any(
                            isinstance(s2, ast.Assign) and isinstance(s2.targets[0], ast.Subscript) and isinstance(s2.value, ast.Name)
                            and s2.value.id == t0.id for s2 in p.stmts[i + 1:])):
                        outs.append((i, st))
            desc = p.describe()[:70]
            if len(outs) != 1:
                res.bad(f, loop, f"{kname}: {len(outs)} normalised output store(s) on {desc}",
                        "a valid row must produce exactly one output of the form (x + R) / (1 + W)", path=p.describe())
                continue
            n += 1
            i0, st = outs[0]
            c = _canon_cells(st.value, {})
            num, den = c[1], c[2]
            R = W = None
            if num[0] == "add" and len(num) == 3 and ("name", x) in num[1:]:
                R = [t for t in num[1:] if t != ("name", x)]
                R = R[0] if len(R) == 1 else None
            if den[0] == "add" and len(den) == 3 and ("const", "1") in den[1:]:
                W = [t for t in den[1:] if t != ("const", "1")]
                W = W[0] if len(W) == 1 else None
            if R is None or W is None or R[0] != "name" or W[0] != "name":
                res.bad(f, st, f"{kname}: {norm(st)} on {desc}",
                        f"the output of a valid row is not ({x} + R) / (1 + W) with R and W the running numerator and weight",
                        path=p.describe())
                continue
            ups = {}
            for s2 in p.stmts[i0 + 1:]:
                if isinstance(s2, ast.AugAssign) and isinstance(s2.op, ast.Add):
                    ups.setdefault(norm(s2.target), []).append(_canon_cells(s2.value, {}))
                elif isinstance(s2, ast.Assign) and len(s2.targets) == 1 and norm(s2.targets[0]) in (R[1], W[1]):
                    v = _canon_cells(s2.value, {})
                    k = norm(s2.targets[0])
                    # X = X + t  /  X = beta * (X + t)  (decay folded in)
                    inner = v
                    if inner[0] == "mul":
                        adds = [t for t in inner[1:] if t[0] == "add"]
                        inner = adds[0] if len(adds) == 1 else inner
                    if inner[0] == "add" and ("name", k) in inner[1:]:
                        rest = [t for t in inner[1:] if t != ("name", k)]
                        if len(rest) == 1:
                            ups.setdefault(k, []).append(rest[0])
            okR = ups.get(R[1]) == [("name", x)]
            okW = ups.get(W[1]) == [("const", "1")]
            if okR and okW:
                res.ok(f, st, f"{kname}: {norm(st)[:60]}; {R[1]} += {x}; {W[1]} += 1 on {desc}", "")
            else:
                res.bad(f, st, f"{kname}: updates after {norm(st)[:50]} on {desc}: {R[1]} += {ups.get(R[1])}, {W[1]} += {ups.get(W[1])}",
                        f"after a valid row the running numerator must grow by {x} and the running weight by 1, each exactly once",
                        path=p.describe())
    if n < 4:
        raise AnalysisError(f"E5: only {n} valid-row paths found (floor 4)")
    seen, uniq = set(), []
    for v in res.violations:
        if v.key() not in seen:
            seen.add(v.key()); uniq.append(v)
    res.violations = uniq
    return res


# ------------------------------------------------------------------------------------------------ W3

def rule_W3(repo: Repo) -> RuleResult:
    """Window bookkeeping of rolling sum/mean and max/min, on every accepted-row path: the non-null counter grows by one exactly
    when the new value is not null and shrinks by one exactly when the buffer is full and the evicted value is not null; the
    running sum (sum/mean kernel) gains the new value / loses the evicted value under the same two conditions."""
    res = RuleResult("W3", "rolling kernels: non-null count and running sum follow the values entering and leaving the window")
    nb = repo.mod(NB)
    for kname in ROLLING_KERNELS[:2]:
        f = nb.func(kname)
        roles, buf, pos, parr, window, loop = _window_roles(f)
        # the non-null counter is the per-group array that the emission guard compares with min_periods (W2 identifies it the
        # other way round - by where it is incremented - so the two rules check each other)
        nn = {base_name(c.left) for c in ast.walk(loop) if isinstance(c, ast.Compare) and len(c.ops) == 1
              and isinstance(c.left, ast.Subscript) and base_name(c.left) in roles.per_group_arrays
              and isinstance(c.comparators[0], ast.Name) and c.comparators[0].id == "min_periods"}
        if len(nn) != 1:
            raise AnalysisError(f"W3: non-null counter of {kname} not identified ({sorted(nn)})")
        nnc = next(iter(nn))
        # the element variable and the evicted-value variable
        elem = [x.id for l in walk_no_nested(f.node) if isinstance(l, ast.For) for x in ast.walk(l.target) if isinstance(x, ast.Name)][-1]
        old = {s.targets[0].id for s in ast.walk(loop) if isinstance(s, ast.Assign) and len(s.targets) == 1
               and isinstance(s.targets[0], ast.Name) and isinstance(s.value, ast.Subscript) and base_name(s.value) == buf}
        null_flags = {s.targets[0].id: norm(s.value.args[0]) for s in walk_no_nested(f.node) if isinstance(s, ast.Assign)
                      and len(s.targets) == 1 and isinstance(s.targets[0], ast.Name) and isinstance(s.value, ast.Call)
                      and norm(s.value.func) in ("is_null", "np.isnan") and s.value.args}
        sums = {base_name(s.target) for s in ast.walk(loop) if isinstance(s, ast.AugAssign) and isinstance(s.target, ast.Subscript)
                and isinstance(s.op, ast.Add) and isinstance(s.value, ast.Name) and s.value.id == elem
                and base_name(s.target) in roles.per_group_arrays}

        def nullness(p, var: str) -> Optional[bool]:
            """True: var is null on this path, False: not null, None: undecided"""
            out = set()
            for t, pol in p.conds:
                if not isinstance(t, ast.AST):
                    continue
                neg = False
                e = t
                if isinstance(e, ast.UnaryOp) and isinstance(e.op, ast.Not):
                    neg, e = True, e.operand
                about = None
                if isinstance(e, ast.Name) and e.id in null_flags:
                    about = null_flags[e.id]
                elif isinstance(e, ast.Call) and norm(e.func) in ("is_null", "np.isnan") and e.args:
                    about = norm(e.args[0])
                if about == var:
                    out.add(pol != neg)
            return next(iter(out)) if len(out) == 1 else None

        for p in _accepted_paths(f, loop):
            vnull = nullness(p, elem)
            onull = [nullness(p, o) for o in old if nullness(p, o) is not None]
            evicted_nonnull = (False in onull)
            d_nn = sum((1 if isinstance(st.op, ast.Add) else -1) for st in p.stmts if isinstance(st, ast.AugAssign)
                       and isinstance(st.target, ast.Subscript) and base_name(st.target) == nnc and const_int(st.value) == 1)
            if vnull is None:
                continue
            want = (0 if vnull else 1) - (1 if evicted_nonnull else 0)
            desc = p.describe()[:80]
            # infeasible combinations (fullness decided both ways) are filtered like in W1
            full_names = {s_.targets[0].id for s_ in walk_no_nested(f.node) if isinstance(s_, ast.Assign) and len(s_.targets) == 1
                          and isinstance(s_.targets[0], ast.Name) and isinstance(s_.value, ast.Compare)
                          and isinstance(s_.value.comparators[0], ast.Name) and s_.value.comparators[0].id == window}
            fulls = {pol for t, pol in p.conds if isinstance(t, ast.Name) and t.id in full_names} | \
                    {not pol for t, pol in p.conds if isinstance(t, ast.UnaryOp) and isinstance(t.op, ast.Not)
                     and isinstance(t.operand, ast.Name) and t.operand.id in full_names} | \
                    {True for t, pol in p.conds if pol is True and isinstance(t, ast.BoolOp) and isinstance(t.op, ast.And)
                     and any(isinstance(v, ast.Name) and v.id in full_names for v in t.values)}
            if len(fulls) > 1:
                continue
            if d_nn == want:
                res.ok(f, loop, f"{kname}: non-null count {d_nn:+d} on {desc}", "")
            else:
                res.bad(f, loop, f"{kname}: non-null count {d_nn:+d} (expected {want:+d}) on {desc}",
                        "the window's non-null count must gain one exactly for a non-null new value and lose one exactly for a "
                        "non-null evicted value", path=p.describe())
            for sarr in sums:
                gain = [st for st in p.stmts if isinstance(st, ast.AugAssign) and isinstance(st.target, ast.Subscript)
                        and base_name(st.target) == sarr and isinstance(st.op, ast.Add) and norm(st.value) == elem]
                lose = [st for st in p.stmts if isinstance(st, ast.AugAssign) and isinstance(st.target, ast.Subscript)
                        and base_name(st.target) == sarr and isinstance(st.op, ast.Sub) and norm(st.value) in old]
                ok = (len(gain) == (0 if vnull else 1)) and (len(lose) == (1 if evicted_nonnull else 0))
                if ok:
                    res.ok(f, loop, f"{kname}: {sarr} +{len(gain)} -{len(lose)} on {desc}", "")
                else:
                    res.bad(f, loop, f"{kname}: {sarr} +{len(gain)} -{len(lose)} on {desc}",
                            "the running sum must gain the new value exactly when it is not null and lose the evicted value exactly "
                            "when it is not null", path=p.describe())
    seen, uniq = set(), []
    for v in res.violations:
        if v.key() not in seen:
            seen.add(v.key()); uniq.append(v)
    res.violations = uniq
    if not res.instances:
        raise AnalysisError("W3: no accepted-row path with a decided null test found")
    return res


# ------------------------------------------------------------------------------------------------ D7b

def rule_D7b(repo: Repo) -> RuleResult:
    """GroupBy.var returns (SS - S^2/n) / (n - ddof) where SS, S, n are the results of the sum_squares, sum and count
    primitives (D7 checks how they are obtained); std is var ** 0.5.  The expression is compared in canonical arithmetic
    form; a clamp np.maximum(numerator, 0) (which propagates NaN) is accepted around the numerator."""
    res = RuleResult("D7b", "var = (sum_squares - sum^2/count) / (count - ddof); std = var ** 0.5")
    core = repo.mod(CORE)
    var = core.func("GroupBy.var")
    roles: Dict[str, str] = {}
    for s in walk_no_nested(var.node):
        if isinstance(s, ast.Assign) and len(s.targets) == 1 and isinstance(s.targets[0], ast.Name):
            t = norm(s.value)
            if "'sum_squares'" in t or '"sum_squares"' in t:
                roles[s.targets[0].id] = "SS"
            elif ".sum(" in t and "** 2" in t:
                roles[s.targets[0].id] = "S2"
            elif ".sum(" in t:
                roles[s.targets[0].id] = "S"
            elif ".count(" in t:
                roles[s.targets[0].id] = "N"
    rets = [r for r in walk_no_nested(var.node) if isinstance(r, ast.Return) and r.value is not None]
    if len(rets) != 1 or not {"SS", "N"} <= set(roles.values()):
        raise AnalysisError(f"D7b: primitives / return of GroupBy.var not identified ({roles})")
    env = {name: ("name", role) for name, role in roles.items()}

    def _strip_conversions(e: ast.AST) -> ast.AST:
        """X.to_numpy() / X.astype(..) / X.values / np.asarray(X) of a local are the local (container / dtype conversions do not
        change which primitive the value is; D7c checks the float64 cast separately)"""
        class R(ast.NodeTransformer):
            def visit_Call(self, node):
                self.generic_visit(node)
                if isinstance(node.func, ast.Attribute) and node.func.attr in ("to_numpy", "astype", "copy") and isinstance(node.func.value, ast.Name):
                    return node.func.value
                if norm(node.func) in ("np.asarray", "np.array") and node.args and isinstance(node.args[0], ast.Name):
                    return node.args[0]
                return node

            def visit_Attribute(self, node):
                self.generic_visit(node)
                if node.attr == "values" and isinstance(node.value, ast.Name):
                    return node.value
                return node
        import copy as _cp
        return R().visit(_cp.deepcopy(e))
    # forward-substitute the remaining single-definition locals
    for s in walk_no_nested(var.node):
        if isinstance(s, ast.Assign) and len(s.targets) == 1 and isinstance(s.targets[0], ast.Name) and s.targets[0].id not in roles:
            env[s.targets[0].id] = _canon(_strip_clamp(_strip_conversions(s.value)), env)
    got = _canon(_strip_clamp(_strip_conversions(rets[0].value)), env)
    ddof = ("name", "ddof")
    N, SS = ("name", "N"), ("name", "SS")
    s2_forms = [("name", "S2"), ("Pow", ("name", "S"), ("const", "2")), ("mul", ("name", "S"), ("name", "S"))]
    wants = []
    for s2 in s2_forms:
        num = ("add",) + tuple(sorted([SS, ("neg", ("div", s2, N))], key=repr))
        den = ("add",) + tuple(sorted([N, ("neg", ddof)], key=repr))
        wants.append(("div", num, den))
    construct = f"var = {_show_canon(got)[:100]}"
    if got in wants:
        res.ok(var, rets[0], construct, "(SS - S^2/n) / (n - ddof)")
    else:
        res.bad(var, rets[0], construct,
                "the value returned by var is not (sum_squares - sum^2/count) / (count - ddof) of its three primitives "
                "(compared in canonical arithmetic form)")
    std = core.func("GroupBy.std")
    r = [x for x in walk_no_nested(std.node) if isinstance(x, ast.Return) and x.value is not None]
    from .canon import subst_single_defs
    rv = subst_single_defs(std, r[0].value) if len(r) == 1 else None     # `v = self.var(..); return v ** 0.5`
    okstd = rv is not None and ((isinstance(rv, ast.BinOp) and isinstance(rv.op, ast.Pow) and norm(rv.right) in ("0.5", "1 / 2")) or
                                (isinstance(rv, ast.Call) and norm(rv.func) in ("np.sqrt", "numpy.sqrt")))
    if okstd and ".var(" in norm(rv):
        res.ok(std, r[0], f"std = {norm(r[0].value)[:60]}", "square root of var")
    else:
        res.bad(std, r[0] if r else std.node, f"std = {norm(r[0].value)[:60] if r else '?'}", "std must be the square root of var")
    return res


def _strip_clamp(e: ast.AST) -> ast.AST:
    """np.maximum(X, 0) / np.maximum(0, X) -> X (a clamp that propagates NaN); applied recursively"""
    class R(ast.NodeTransformer):
        def visit_Call(self, node):
            self.generic_visit(node)
            if norm(node.func) in ("np.maximum", "numpy.maximum") and len(node.args) == 2:
                a, b = node.args
                if isinstance(b, ast.Constant) and b.value in (0, 0.0):
                    return a
                if isinstance(a, ast.Constant) and a.value in (0, 0.0):
                    return b
            return node
    import copy
    return R().visit(copy.deepcopy(e))


# ------------------------------------------------------------------------------------------------ L rules (label order, result shape)

def rule_L1(repo: Repo) -> RuleResult:
    """Sort key of the labels.  argsort_index_numeric_only: a single level that is categorical or already increasing needs no
    permutation (slice(None)), otherwise `index.argsort()`; several levels: each non-categorical, non-increasing level is replaced
    by the RANK of its labels - np.argsort(level.argsort())[codes], the inverse permutation, not the permutation itself - and the
    per-level codes go to the lexicographic sort in level order.  GroupBy._labels_argsort applies the key only when sorting was
    requested and the labels are not already sorted."""
    res = RuleResult("L1", "label sort key: rank of each level's labels (inverse permutation), levels in order, identity when already sorted")
    f = repo.func("util", "argsort_index_numeric_only")
    ip = f.named_params[0]
    # single level
    single = [i for i in f.node.body if isinstance(i, ast.If) and "nlevels" in norm(i.test)]
    if not single:
        raise AnalysisError("L1: single-level arm of argsort_index_numeric_only not found")
    inner = [i for i in single[0].body if isinstance(i, ast.If)]
    ok1 = False
    from .model import eval_bool

    def sortedness_leaf(cat: bool, mono: bool):
        def leaf(e: ast.AST):
            t = norm(e)
            if "CategoricalDtype" in t:
                return cat
            if "is_monotonic_increasing" in t:
                return mono
            return None
        return leaf

    def arm_of(ifn: ast.If, block: List[ast.stmt], cat: bool, mono: bool) -> Optional[List[ast.stmt]]:
        v = eval_bool(ifn.test, sortedness_leaf(cat, mono))
        if v is None:
            return None
        if v:
            return ifn.body
        return ifn.orelse or block[block.index(ifn) + 1:]          # else-arm or fall-through
    if inner:
        arms = {(c, m): arm_of(inner[0], single[0].body, c, m) for c in (True, False) for m in (True, False)}
        def returns(arm, texts) -> bool:
            return arm is not None and any(isinstance(r, ast.Return) and norm(r.value) in texts for r in arm)
        ok1 = all(returns(arms[k], ("slice(None)",)) for k in ((True, True), (True, False), (False, True))) \
            and returns(arms[(False, False)], (f"{ip}.argsort()", f"np.argsort({ip})"))
    (res.ok if ok1 else res.bad)(f, single[0], "single level: categorical or increasing -> slice(None), else index.argsort()",
                                 "" if ok1 else "a single label level must be left alone when it is categorical or already increasing and "
                                 "sorted by index.argsort() otherwise")
    # several levels
    loops = [l for l in f.node.body if isinstance(l, ast.For)]
    if not loops:
        raise AnalysisError("L1: level loop of argsort_index_numeric_only not found")
    l = loops[0]
    lvl, codes = (e.id for e in l.target.elts) if isinstance(l.target, ast.Tuple) and len(l.target.elts) == 2 else (None, None)
    from .canon import subst_single_defs as _ssd
    it_ok = isinstance(l.iter, ast.Call) and norm(l.iter.func) == "zip" and [norm(_ssd(f, a)) for a in l.iter.args] == [f"{ip}.levels", f"{ip}.codes"]
    appends = [c for c in ast.walk(l) if isinstance(c, ast.Call) and isinstance(c.func, ast.Attribute) and c.func.attr == "append"]
    rank_ok = asis_ok = False
    lst = None
    for c in appends:
        lst = norm(c.func.value)
        a = c.args[0]
        if isinstance(a, ast.Name) and a.id == codes:
            asis_ok = True
        if isinstance(a, ast.Subscript) and norm(a.slice) == codes and norm(a.value) in (
                f"np.argsort({lvl}.argsort())", f"{lvl}.argsort().argsort()", f"np.argsort(np.argsort({lvl}))"):
            rank_ok = True
    cond_ok = False
    for i in l.body:
        if isinstance(i, ast.If) and "CategoricalDtype" in norm(i.test) and "is_monotonic_increasing" in norm(i.test):
            arms2 = {(c, m): arm_of(i, l.body, c, m) for c in (True, False) for m in (True, False)}

            def appends(arm, rank: bool) -> bool:
                if arm is None:
                    return False
                for c_ in [x for st_ in arm for x in ast.walk(st_)]:
                    if isinstance(c_, ast.Call) and isinstance(c_.func, ast.Attribute) and c_.func.attr == "append" and c_.args:
                        a_ = c_.args[0]
                        is_rank = isinstance(a_, ast.Subscript) and norm(a_.slice) == codes
                        is_asis = isinstance(a_, ast.Name) and a_.id == codes
                        if (rank and is_rank) or (not rank and is_asis):
                            return True
                return False
            cond_ok = all(appends(arms2[k], False) for k in ((True, True), (True, False), (False, True))) and appends(arms2[(False, False)], True)
    ok2 = it_ok and rank_ok and asis_ok and cond_ok
    (res.ok if ok2 else res.bad)(f, l, "levels: codes as they are if categorical/increasing, else np.argsort(level.argsort())[codes]",
                                 "" if ok2 else "a level whose labels are not in increasing order must contribute the RANK of each label "
                                 "(np.argsort(level.argsort())[codes]); level.argsort()[codes] is the inverse of what is needed and orders "
                                 "the groups wrongly as soon as a level has three or more out-of-order labels")
    rets = [r for r in f.node.body if isinstance(r, ast.Return)]
    ok3 = bool(rets) and lst is not None and isinstance(rets[-1].value, ast.Call) and norm(rets[-1].value.func).endswith("lexsort_indexer") \
        and rets[-1].value.args and norm(rets[-1].value.args[0]) == lst
    (res.ok if ok3 else res.bad)(f, rets[-1] if rets else f.node, "lexicographic sort of the per-level codes in level order",
                                 "" if ok3 else "the per-level codes must be handed to lexsort_indexer as collected, first level first "
                                 "(a reversed or re-ordered list sorts by the wrong key first)")
    top_returns = [r for r in f.node.body if isinstance(r, ast.Return)] + [
        r for st in f.node.body if isinstance(st, (ast.If, ast.For, ast.While)) and st is not single[0]
        for r in ast.walk(st) if isinstance(r, ast.Return)]
    extra = [r for r in top_returns if not (isinstance(r.value, ast.Call) and norm(r.value.func).endswith("lexsort_indexer"))]
    if extra:
        res.bad(f, extra[0], f"multi-level shortcut: return {norm(extra[0].value)[:50]}",
                "with several label levels the permutation is returned without the lexicographic sort on some path: a shortcut "
                "based on pandas' notion of a sorted MultiIndex (values compared alphabetically) disagrees with the library's order "
                "for categorical levels, whose order is the category order")
    else:
        res.ok(f, f.node, "several levels: every path ends in the lexicographic sort", "")
    g = repo.func(CORE, "GroupBy._labels_argsort")
    t = [i for i in g.node.body if isinstance(i, ast.If)]
    ok4 = False
    if t:
        def leaf_sort(srt: bool, already: bool):
            def leaf(e: ast.AST):
                tx = norm(e)
                if tx == "self._sort":
                    return srt
                if tx == "self._index_is_sorted":
                    return already
                return None
            return leaf

        def arm4(srt: bool, already: bool):
            v = eval_bool(t[0].test, leaf_sort(srt, already))
            if v is None:
                return None
            return t[0].body if v else (t[0].orelse or g.node.body[g.node.body.index(t[0]) + 1:])
        key_arm = arm4(True, False)
        ok4 = key_arm is not None and any(isinstance(r, ast.Return) and "argsort_index_numeric_only(self.result_index)" in norm(r.value) for r in key_arm) \
            and all(arm4(a, b) is not None and any(isinstance(r, ast.Return) and norm(r.value) == "slice(None)" for r in arm4(a, b))
                    for a, b in ((True, True), (False, True), (False, False)))
    (res.ok if ok4 else res.bad)(g, g.node, "_labels_argsort: key only if sort requested and labels not already sorted",
                                 "" if ok4 else "the label permutation must be computed exactly when sorting was requested and the labels "
                                 "are not already in sorted order, and be the identity (slice(None)) otherwise")
    return res


def rule_L2(repo: Repo) -> RuleResult:
    """_maybe_squeeze_to_1d: a result frame is reduced to its single column exactly when one 1-D input (or a list of scalars)
    was given; the column's name is cleared only when the input had no name (get_array_name(values) is None)."""
    res = RuleResult("L2", "result shape: squeezed to 1-D exactly for a single 1-D input; name cleared only for unnamed inputs")
    f = repo.func(CORE, "GroupBy._maybe_squeeze_to_1d")
    ps = f.named_params
    if len(ps) < 3:
        raise AnalysisError("L2: signature of _maybe_squeeze_to_1d changed")
    r, values, nv = ps[0], ps[1], ps[2]
    top = [i for i in f.node.body if isinstance(i, ast.If)]
    if not top:
        raise AnalysisError("L2: squeeze condition not found")
    t = norm(top[0].test)
    disj = top[0].test.values if isinstance(top[0].test, ast.BoolOp) and isinstance(top[0].test.op, ast.Or) else [top[0].test]
    ok_cond = any(isinstance(d, ast.BoolOp) and isinstance(d.op, ast.And)
                  and f"{nv} == 1" in [norm(v) for v in d.values]
                  and f"isinstance({values}, ArrayType1D)" in [norm(v) for v in d.values] for d in disj) \
        and not any(norm(d) in (f"{nv} == 1", f"isinstance({values}, ArrayType1D)") for d in disj)
    (res.ok if ok_cond else res.bad)(f, top[0], f"squeeze when {t[:90]}",
                                     "" if ok_cond else f"the frame must be squeezed when exactly one ({nv} == 1) 1-D array was given "
                                     f"(isinstance({values}, ArrayType1D)); other conditions return the wrong shape")
    sq = [s for s in top[0].body if isinstance(s, ast.Assign) and norm(s.value) in (f"{r}[{r}.columns[0]]", f"{r}.iloc[:, 0]")]
    (res.ok if sq else res.bad)(f, top[0], "squeeze takes the first (only) column",
                                "" if sq else "the squeezed result must be the frame's single column")
    nm = [i for i in top[0].body if isinstance(i, ast.If)]
    ok_name = bool(nm) and norm(nm[0].test) == f"get_array_name({values}) is None" and any(
        isinstance(c, ast.Call) and isinstance(c.func, ast.Attribute) and c.func.attr == "rename" for c in ast.walk(nm[0]))
    (res.ok if ok_name else res.bad)(f, nm[0] if nm else top[0], "name cleared only if get_array_name(values) is None",
                                     "" if ok_name else "the name of the squeezed result may be cleared only when the input had no name; "
                                     "named inputs must keep their name")
    rets = [x for x in f.node.body if isinstance(x, ast.Return)]
    ok_ret = bool(rets) and norm(rets[-1].value) == r
    (res.ok if ok_ret else res.bad)(f, rets[-1] if rets else f.node, "returns the (possibly squeezed) result", "" if ok_ret else
                                    "the function must return the result it was given (squeezed or not)")
    return res
