"""Rules added after the third round of seeded changes.  Each one is a structural necessary condition of a clause that the
earlier rule set left to "value level"; each was missed by an independent seeded change before it existed.

M7    one permutation: row-aligned inputs of one deferred kernel call are re-ordered by the same indexer, or none is
M8    a key already cut by a slice mask is never handed to a kernel together with the raw mask (slice applied twice)
P11b  group-sorted result indexes are built from the inputs' common index
P13   a generated column name replaces an input name only when that name `is None` (not when it is falsy)
P14   complementary split: L[:a] and L[b:] of one list in one function use the same bound
P15   margin rows are written with an assignment, not with a null-skipping pandas writer (update / combine_first)
P16   the nested-subtotal recursion of add_row_margin runs for every requested level
D3b   a value is compared with a group's running extremum only where the group's non-null count is known to be non-zero
E4    the alpha EMA kernels decay their running state once on every row of the (group's) series
F1b   RangeIndex keys: the offset is divided by the step unless the step is exactly 1
S3b   the copy constructor takes every attribute from the source grouping
"""
from __future__ import annotations

import ast
from typing import Dict, List, Optional, Set, Tuple

from .kernels import base_name, const_int, infer_roles
from .model import AnalysisError, Func, Repo, attr_chain, call_name, norm, walk_no_nested
from .paths import enumerate_paths
from .report import RuleResult
from .rules_e import _canon, _mentions, _show_canon

CORE = "groupby.core"
NB = "groupby.numba"
FACT = "groupby.factorization"
ROW_PARAMS = ("values", "times", "mask", "values1", "values2")


def _names(e: ast.AST) -> Set[str]:
    return {n.id for n in ast.walk(e) if isinstance(n, ast.Name)}


# ------------------------------------------------------------------------------------------------ M7

def rule_M7(repo: Repo) -> RuleResult:
    """Where a public operation binds several of its row-aligned inputs (values, times, mask) for one deferred kernel call
    and at least one of them is re-ordered by a local indexer (`x[indexer]`), every one of them is re-ordered by that same
    indexer.  (A re-ordering applied to some rows' attributes only pairs each value with another row's time / mask bit.)"""
    res = RuleResult("M7", "row-aligned inputs of one kernel call are re-ordered by one and the same indexer")
    n = 0
    core = repo.mod(CORE)
    for name, m in core.methods("GroupBy").items():
        row_params = [p for p in m.named_params if p in ROW_PARAMS]
        if len(row_params) < 2:
            continue
        # local aliases of row parameters: single assignments  a = f(param)  that keep row order (asarray, _val_to_numpy, ...)
        for call in [c for c in walk_no_nested(m.node) if isinstance(c, ast.Call)]:
            is_bind = isinstance(call.func, ast.Attribute) and call.func.attr in ("bind", "bind_partial")
            cn = call_name(call) or ""
            if not (is_bind or cn.split(".")[-1] in ("ema_grouped",)):
                continue
            bound: Dict[str, Tuple[ast.AST, Optional[str]]] = {}
            for k in call.keywords:
                if k.arg is None:
                    continue
                src = _row_source(m, k.value, row_params)
                if src is None:
                    continue
                bound[k.arg] = (k.value, _indexer_of(m, k.value, row_params))
            if len(bound) < 2:
                continue
            n += 1
            idx = {kw: ix for kw, (e, ix) in bound.items()}
            used = {ix for ix in idx.values() if ix is not None}
            construct = f"{m.qualname}: " + ", ".join(f"{kw}[{ix or '-'}]" for kw, ix in sorted(idx.items()))
            if not used:
                res.ok(m, call, construct, "no input is re-ordered at this call")
            elif len(used) == 1 and all(ix is not None for ix in idx.values()):
                res.ok(m, call, construct, f"all row-aligned inputs re-ordered by {next(iter(used))}")
            else:
                missing = sorted(kw for kw, ix in idx.items() if ix is None)
                res.bad(m, call, construct,
                        f"the row-aligned inputs of this call are not re-ordered consistently: {missing or sorted(idx)} "
                        f"{'is' if len(missing) == 1 else 'are'} passed in the caller's row order while the others are taken in "
                        f"{sorted(used)} order, so each value is paired with another row's {'/'.join(missing) or 'attributes'}")
    if n < 1:
        raise AnalysisError("M7: no deferred call binding two row-aligned inputs found")
    return res


def _row_source(m: Func, e: ast.AST, row_params: List[str], depth: int = 0) -> Optional[str]:
    """the row parameter an actual is derived from (through IfExp arms, subscripts, order-preserving conversions)"""
    if isinstance(e, ast.IfExp):
        return _row_source(m, e.orelse, row_params, depth) or _row_source(m, e.body, row_params, depth)
    if isinstance(e, ast.Constant):
        return None
    if isinstance(e, ast.Subscript):
        return _row_source(m, e.value, row_params, depth)
    if isinstance(e, ast.Call) and e.args and (call_name(e) or "").split(".")[-1] in (
            "_val_to_numpy", "asarray", "asanyarray", "array", "to_numpy"):
        return _row_source(m, e.args[0], row_params, depth)
    if isinstance(e, ast.Name):
        if e.id in row_params:
            return e.id
        # comprehension variable over value_list -> values
        if depth < 3:
            for n in ast.walk(m.node):
                if isinstance(n, (ast.ListComp, ast.GeneratorExp)):
                    for g in n.generators:
                        if e.id in _names(g.target):
                            r = _row_source(m, g.iter, row_params, depth + 1)
                            if r:
                                return r
                if isinstance(n, ast.Assign) and any(e.id in _names(t) for t in n.targets):
                    if isinstance(n.value, ast.Call) and (call_name(n.value) or "").endswith("_preprocess_arguments"):
                        return "values"
                    r = _row_source(m, n.value, row_params, depth + 1)
                    if r:
                        return r
    return None


def _indexer_of(m: Func, e: ast.AST, row_params: List[str], depth: int = 0) -> Optional[str]:
    """name of the local indexer the actual is subscripted by (directly, in an IfExp arm, or through a local alias)"""
    if isinstance(e, ast.IfExp):
        return _indexer_of(m, e.orelse, row_params, depth) or _indexer_of(m, e.body, row_params, depth)
    if isinstance(e, ast.Subscript):
        if isinstance(e.slice, ast.Name) and e.slice.id not in row_params:
            return e.slice.id
        return _indexer_of(m, e.value, row_params, depth)
    if isinstance(e, ast.Name) and e.id in row_params and depth < 3:
        # the parameter itself may have been re-assigned to its re-ordered self earlier in the function
        for n in walk_no_nested(m.node):
            if isinstance(n, ast.Assign) and len(n.targets) == 1 and isinstance(n.targets[0], ast.Name) \
                    and n.targets[0].id == e.id:
                ix = _indexer_of(m, n.value, [p for p in row_params if p != e.id] + [e.id], depth + 1) \
                    if isinstance(n.value, ast.Subscript) else None
                if ix:
                    # only counts if the re-assignment dominates the call on every path: it is under a condition here
                    return None
    return None


# ------------------------------------------------------------------------------------------------ M8

def rule_M8(repo: Repo) -> RuleResult:
    """(group_key, first_chunk_in, mask_chunks) = self._resolve_mask_argument_into_chunks(mask): group_key is already cut by
    a slice mask.  Every kernel call that receives it (or one of its chunks) gets its mask from mask_chunks, never the raw
    mask parameter - otherwise a slice is applied twice."""
    res = RuleResult("M8", "a key already cut by the slice mask is never paired with the raw mask")
    n = 0
    core = repo.mod(CORE)
    for name, m in core.methods("GroupBy").items():
        for s in walk_no_nested(m.node):
            if not (isinstance(s, ast.Assign) and isinstance(s.value, ast.Call)
                    and (call_name(s.value) or "").endswith("_resolve_mask_argument_into_chunks")
                    and isinstance(s.targets[0], ast.Tuple) and len(s.targets[0].elts) == 3):
                continue
            gk, fci, mch = (e.id if isinstance(e, ast.Name) else None for e in s.targets[0].elts)
            raw = s.value.args[0].id if s.value.args and isinstance(s.value.args[0], ast.Name) else None
            if not gk or not mch or not raw:
                raise AnalysisError(f"M8: cannot read the unpacking of _resolve_mask_argument_into_chunks in {m.qualname}")
            # names derived from the cut key: gk, gk.chunks, loop variables over them
            derived = {gk}
            changed = True
            while changed:
                changed = False
                for x in walk_no_nested(m.node):
                    if isinstance(x, ast.Assign) and _names(x.value) & derived:
                        if isinstance(x.value, ast.Call) and not (call_name(x.value) or "").split(".")[-1] in (
                                "_val_to_numpy", "asarray", "list", "enumerate", "zip"):
                            continue
                        for t in x.targets:
                            for nm in _names(t):
                                if nm not in derived and nm not in (fci, mch):
                                    derived.add(nm); changed = True
                    if isinstance(x, ast.For) and _names(x.iter) & derived:
                        tg = x.target.elts[-1] if isinstance(x.target, ast.Tuple) else x.target
                        for nm in _names(tg):
                            if nm not in derived:
                                derived.add(nm); changed = True
            for c in walk_no_nested(m.node):
                if not isinstance(c, ast.Call) or c is s.value:
                    continue
                args = list(c.args) + [k.value for k in c.keywords if k.arg != "mask"]
                if not any(_names(a) & derived for a in args):
                    continue
                mk = next((k.value for k in c.keywords if k.arg == "mask"), None)
                if mk is None:
                    continue
                n += 1
                construct = f"{m.qualname}: {norm(c)[:80]}"
                if raw in _names(mk) and mch not in _names(mk):
                    res.bad(m, c, construct,
                            f"the key handed to this call was already cut by the slice mask (it comes from "
                            f"_resolve_mask_argument_into_chunks) and the raw mask {raw!r} is passed as well: a slice mask is "
                            f"applied twice, rows [2a, b) are counted instead of [a, b)")
                else:
                    res.ok(m, c, construct, f"mask taken from {mch}")
    if n < 2:
        raise AnalysisError(f"M8: only {n} kernel calls on a resolved key found (floor 2)")
    return res


# ------------------------------------------------------------------------------------------------ P11b

def rule_P11b(repo: Repo) -> RuleResult:
    """every call of _build_group_sorted_index passes the common index of the inputs (4th result of _preprocess_arguments)"""
    res = RuleResult("P11b", "group-sorted result indexes are built from the inputs' common index")
    core = repo.mod(CORE)
    n = 0
    for name, m in core.methods("GroupBy").items():
        ci: Set[str] = set()
        for s in walk_no_nested(m.node):
            if isinstance(s, ast.Assign) and isinstance(s.value, ast.Call) and (call_name(s.value) or "").endswith("_preprocess_arguments") \
                    and isinstance(s.targets[0], ast.Tuple) and len(s.targets[0].elts) == 4 \
                    and isinstance(s.targets[0].elts[3], ast.Name):
                ci.add(s.targets[0].elts[3].id)
        for c in walk_no_nested(m.node):
            if isinstance(c, ast.Call) and (call_name(c) or "").endswith("_build_group_sorted_index"):
                n += 1
                a = c.args[0] if c.args else next((k.value for k in c.keywords if k.arg == "inner_index"), None)
                construct = f"{m.qualname}: {norm(c)}"
                if isinstance(a, ast.Name) and a.id in ci:
                    res.ok(m, c, construct, "inner level = the inputs' common index")
                else:
                    res.bad(m, c, construct,
                            f"the inner level of the group-sorted result index is built from {norm(a) if a is not None else 'nothing'}, "
                            f"not from the common index of the values: rows are labelled by position / by the keys' index "
                            f"instead of the values' own index")
    if n < 2:
        raise AnalysisError(f"P11b: only {n} calls of _build_group_sorted_index found (floor 2)")
    return res


# ------------------------------------------------------------------------------------------------ P13

def rule_P13(repo: Repo) -> RuleResult:
    res = RuleResult("P13", "a generated column name replaces an input name only when that name is None")
    f = repo.func(CORE, "GroupBy._col_names_from_value_names")
    n = 0
    for x in ast.walk(f.node):
        gen = None
        if isinstance(x, ast.IfExp):
            t = x.test
            ok = isinstance(t, ast.Compare) and len(t.ops) == 1 and isinstance(t.ops[0], (ast.Is, ast.IsNot)) \
                and isinstance(t.comparators[0], ast.Constant) and t.comparators[0].value is None
            n += 1
            if ok:
                res.ok(f, x, norm(x), "identity test with None")
            else:
                res.bad(f, x, norm(x), "the input name is replaced on a truthiness test: names such as 0, 0.0, False or '' are "
                                       "legitimate labels and must be kept")
        elif isinstance(x, ast.BoolOp) and isinstance(x.op, ast.Or) and any(isinstance(v, ast.JoinedStr) for v in x.values):
            n += 1
            res.bad(f, x, norm(x), "`name or default` replaces every falsy name (0, 0.0, False, ''), not only None: the result "
                                   "labels no longer follow the inputs' names")
        elif isinstance(x, ast.If) and any(isinstance(v, ast.JoinedStr) for b in x.body + x.orelse for v in ast.walk(b)):
            t = x.test
            ok = isinstance(t, ast.Compare) and len(t.ops) == 1 and isinstance(t.ops[0], (ast.Is, ast.IsNot)) \
                and isinstance(t.comparators[0], ast.Constant) and t.comparators[0].value is None
            n += 1
            (res.ok if ok else res.bad)(f, x, norm(x.test), "identity test with None" if ok else
                                        "the input name is replaced on a truthiness test")
    if n < 1:
        raise AnalysisError("P13: default-name substitution not found in _col_names_from_value_names")
    return res


# ------------------------------------------------------------------------------------------------ P14

def rule_P14(repo: Repo) -> RuleResult:
    """two complementary slices of one list inside one function (L[:a] ... L[b:]) use the same bound"""
    res = RuleResult("P14", "complementary slices of one list use the same bound")
    n = 0
    for f in repo.all_functions():
        if f.module.name not in (CORE, NB, FACT, "util", "nanops", "emas", "groupby.api"):
            continue
        heads: Dict[str, List[Tuple[ast.Subscript, str]]] = {}
        tails: Dict[str, List[Tuple[ast.Subscript, str]]] = {}
        for x in walk_no_nested(f.node):
            if isinstance(x, ast.Subscript) and isinstance(x.value, ast.Name) and isinstance(x.slice, ast.Slice) \
                    and x.slice.step is None and isinstance(x.ctx, ast.Load):
                sl = x.slice
                if sl.lower is None and sl.upper is not None and isinstance(sl.upper, ast.Name):
                    heads.setdefault(x.value.id, []).append((x, sl.upper.id))
                if sl.upper is None and sl.lower is not None and isinstance(sl.lower, ast.Name):
                    tails.setdefault(x.value.id, []).append((x, sl.lower.id))
        for L in set(heads) & set(tails):
            hb = {b for _, b in heads[L]}
            tb = {b for _, b in tails[L]}
            if len(hb) != 1 or len(tb) != 1:
                continue
            n += 1
            h, t = next(iter(hb)), next(iter(tb))
            node = tails[L][0][0]
            construct = f"{f.qualname}: {L}[:{h}] / {L}[{t}:]"
            if h == t:
                res.ok(f, node, construct, "the two parts partition the list")
            else:
                res.bad(f, node, construct,
                        f"the list {L!r} is split into a head up to {h!r} and a tail from {t!r}: unless the two bounds are equal "
                        f"elements are dropped or shared between the two parts (row and column key levels of a cross-tabulation "
                        f"with different numbers of row and column keys)")
    if n < 1:
        raise AnalysisError("P14: no complementary split found (crosstab's row/column level split is the confirmed instance)")
    return res


# ------------------------------------------------------------------------------------------------ P15 / P16

NULL_SKIPPING_WRITERS = {"update", "combine_first"}


def rule_P15(repo: Repo) -> RuleResult:
    """add_row_margin: summary rows are written into the result with an assignment (`out.loc[...] = summary`); pandas writers
    that skip nulls (`update`, `combine_first`) would leave the zero filler in a margin row whose aggregate is null."""
    res = RuleResult("P15", "margin rows are written by assignment, not by a null-skipping pandas writer")
    f = repo.func(CORE, "add_row_margin")
    n = 0
    for x in walk_no_nested(f.node):
        if isinstance(x, ast.Call) and isinstance(x.func, ast.Attribute) and x.func.attr in NULL_SKIPPING_WRITERS:
            n += 1
            res.bad(f, x, norm(x), f".{x.func.attr}() skips null values: a margin row whose aggregate is null (min/max of an "
                                   f"all-null slice) keeps the fill value 0 of the re-indexed frame instead of null")
        if isinstance(x, ast.Assign) and isinstance(x.targets[0], ast.Subscript) and isinstance(x.targets[0].value, ast.Attribute) \
                and x.targets[0].value.attr == "loc" and isinstance(x.value, ast.Name):
            n += 1
            res.ok(f, x, norm(x), "plain assignment keeps nulls")
    if n < 1:
        raise AnalysisError("P15: no write of summary rows found in add_row_margin")
    return res


def rule_P16(repo: Repo) -> RuleResult:
    """add_row_margin: inside the loop over the requested levels the per-level summary passes through the recursive call on
    every path (the nested subtotals - several levels 'All' at once - come from that recursion)."""
    res = RuleResult("P16", "the nested-subtotal recursion of add_row_margin runs for every requested level")
    f = repo.func(CORE, "add_row_margin")
    loops = [x for x in walk_no_nested(f.node) if isinstance(x, ast.For)
             and any(isinstance(c, ast.Call) and isinstance(c.func, ast.Name) and c.func.id == f.name for c in ast.walk(x))]
    if not loops:
        raise AnalysisError("P16: no loop with a recursive call found in add_row_margin")
    for loop in loops:
        paths = [p for p in enumerate_paths(loop.body) if p.exit in ("fall", "continue")]
        bad = [p for p in paths if not any(isinstance(c, ast.Call) and isinstance(c.func, ast.Name) and c.func.id == f.name
                                           for st in p.stmts for c in ast.walk(st))]
        construct = f"for {norm(loop.target)} in {norm(loop.iter)}: recursion on {len(paths) - len(bad)}/{len(paths)} paths"
        if bad:
            res.bad(f, loop, construct,
                    "on some path through the per-level loop the summary is not passed through add_row_margin again: the rows in "
                    "which several requested levels are 'All' together are never computed and are missing from the result",
                    path=bad[0].describe())
        else:
            res.ok(f, loop, construct, "")
    return res


# ------------------------------------------------------------------------------------------------ D3b

def rule_D3b(repo: Repo) -> RuleResult:
    """_rolling_max_or_min_1d: the new value is compared with the group's running extremum (a cell that starts as null) only
    where the group's count of non-null values in the window is known to be non-zero; otherwise it is installed
    unconditionally.  The non-null counter is the per-group integer array incremented only under `not is_null(value)`."""
    res = RuleResult("D3b", "a value is compared with the running extremum only when the group's non-null count is non-zero")
    f = repo.func(NB, "_rolling_max_or_min_1d")
    roles = infer_roles(f)
    # non-null counters: per-group arrays whose += 1 is nested under a test that the current value is not null
    null_flags: Set[str] = set()
    for s in walk_no_nested(f.node):
        if isinstance(s, ast.Assign) and len(s.targets) == 1 and isinstance(s.targets[0], ast.Name) \
                and isinstance(s.value, ast.Call) and norm(s.value.func) in ("is_null", "np.isnan"):
            null_flags.add(s.targets[0].id)

    def not_null_test(t: ast.AST) -> bool:
        return isinstance(t, ast.UnaryOp) and isinstance(t.op, ast.Not) and (
            (isinstance(t.operand, ast.Name) and t.operand.id in null_flags) or
            (isinstance(t.operand, ast.Call) and norm(t.operand.func) in ("is_null", "np.isnan")))

    nn: Set[str] = set()
    for i in walk_no_nested(f.node):
        if isinstance(i, ast.If) and not_null_test(i.test):
            for s in ast.walk(i):
                if isinstance(s, ast.AugAssign) and isinstance(s.op, ast.Add) and isinstance(s.target, ast.Subscript) \
                        and base_name(s.target) in roles.per_group_arrays:
                    nn.add(base_name(s.target))
    # exclude arrays that are also incremented outside such a test (row counters)
    for s in walk_no_nested(f.node):
        if isinstance(s, ast.AugAssign) and isinstance(s.op, ast.Add) and isinstance(s.target, ast.Subscript) \
                and base_name(s.target) in nn:
            inside = any(isinstance(i, ast.If) and not_null_test(i.test) and any(x is s for x in ast.walk(i))
                         for i in walk_no_nested(f.node))
            if not inside:
                nn.discard(base_name(s.target))
    if not nn:
        raise AnalysisError("D3b: non-null counter of _rolling_max_or_min_1d not found")
    # the extremum cell and its local copy
    best_arrays = {base_name(s.targets[0]) for s in walk_no_nested(f.node)
                   if isinstance(s, ast.Assign) and isinstance(s.targets[0], ast.Subscript)
                   and base_name(s.targets[0]) in roles.per_group_arrays and isinstance(s.value, ast.Name)
                   and s.value.id in roles.elem_of}
    best_locals = {s.targets[0].id for s in walk_no_nested(f.node)
                   if isinstance(s, ast.Assign) and len(s.targets) == 1 and isinstance(s.targets[0], ast.Name)
                   and isinstance(s.value, ast.Subscript) and base_name(s.value) in best_arrays}
    n = 0
    for b in walk_no_nested(f.node):
        if not (isinstance(b, ast.BoolOp) and isinstance(b.op, ast.Or)):
            continue
        cmp_idx = [i for i, v in enumerate(b.values) if any(
            isinstance(c, ast.Compare) and (_names(c) & best_locals or any(
                isinstance(x, ast.Subscript) and base_name(x) in best_arrays for x in ast.walk(c))) for c in ast.walk(v))]
        if not cmp_idx:
            continue
        n += 1
        first = b.values[0]
        ok = isinstance(first, ast.Compare) and len(first.ops) == 1 and isinstance(first.ops[0], ast.Eq) \
            and const_int(first.comparators[0]) == 0 and isinstance(first.left, ast.Subscript) and base_name(first.left) in nn \
            and cmp_idx[0] > 0
        construct = norm(b)[:110]
        if ok:
            res.ok(f, b, construct, f"short-circuit on {norm(first)}: the comparison runs only with a non-null extremum")
        else:
            res.bad(f, b, construct,
                    f"the comparison with the running extremum is not preceded by a test that the group's non-null count "
                    f"({sorted(nn)[0]}[key]) is zero: while the extremum cell still holds its null start value every ordering "
                    f"comparison is false, so the first non-null value of a group that starts with nulls is never installed")
    if n < 1:
        raise AnalysisError("D3b: comparison with the running extremum not found")
    return res


# ------------------------------------------------------------------------------------------------ E4

def rule_E4(repo: Repo) -> RuleResult:
    """_ema_adjusted and _ema_grouped (alpha kernels): on every path through the row loop that processes a row of the series
    (null-key rows excepted) the running numerator and the running weight end up multiplied by beta exactly once - the weight
    of an observation is (1-alpha)^(rows elapsed), nulls included."""
    res = RuleResult("E4", "alpha EMA kernels decay the running state once on every row")
    em = repo.mod("emas")
    total = 0
    for kname in ("_ema_adjusted", "_ema_grouped"):
        f = em.func(kname)
        loop = [x for x in walk_no_nested(f.node) if isinstance(x, ast.For)][-1]
        # beta = 1 - alpha
        beta = None
        for s in walk_no_nested(f.node):
            if isinstance(s, ast.Assign) and len(s.targets) == 1 and isinstance(s.targets[0], ast.Name) \
                    and isinstance(s.value, ast.BinOp) and isinstance(s.value.op, ast.Sub) and const_int(s.value.left) == 1:
                beta = s.targets[0].id
        if beta is None:
            raise AnalysisError(f"E4: beta = 1 - alpha not found in {kname}")
        # state: scalars / per-group cells that are multiplied by beta somewhere in the loop
        state: Set[str] = set()
        for s in ast.walk(loop):
            if isinstance(s, ast.AugAssign) and isinstance(s.op, ast.Mult) and beta in _names(s.value):
                state.add(norm(s.target))
            if isinstance(s, ast.Assign) and len(s.targets) == 1 and isinstance(s.value, ast.BinOp) \
                    and isinstance(s.value.op, ast.Mult) and beta in _names(s.value) and norm(s.targets[0]) in norm(s.value):
                state.add(norm(s.targets[0]))
        if len(state) < 2:
            raise AnalysisError(f"E4: running numerator / weight of {kname} not found (state multiplied by {beta}: {sorted(state)})")
        for p in enumerate_paths(loop.body):
            if p.exit not in ("fall", "continue"):
                continue
            # null-key rows are not rows of any group's series
            if any(pol is True and isinstance(t, ast.Compare) and len(t.ops) == 1 and isinstance(t.ops[0], ast.Lt)
                   and const_int(t.comparators[0]) == 0 for t, pol in p.conds):
                continue
            # rows that are provably filtered out by the mask are not rows of the series either (C05: mask == filtering)
            from .rules_k import _mask_aliases, _selection_of_path
            if "mask" in f.named_params and _selection_of_path(p, {"mask"}, _mask_aliases(f, {"mask"})) == "unselected":
                continue
            env: Dict[str, tuple] = {}
            for st in p.stmts:
                if isinstance(st, ast.Assign) and len(st.targets) == 1:
                    env[norm(st.targets[0])] = _canon_cells(st.value, env)
                elif isinstance(st, ast.AugAssign):
                    k = norm(st.target)
                    cur = env.get(k, ("name", k))
                    synthetic = ast.BinOp(left=ast.Name(id="__cur__", ctx=ast.Load()), op=st.op, right=st.value)
                    e2 = dict(env); e2["__cur__"] = cur
                    env[k] = _canon_cells(synthetic, e2)
            total += 1
            for cell in sorted(state):
                v = env.get(cell, ("name", cell))
                k = _beta_power(v, beta)
                construct = f"{kname}: {cell} on path {p.describe()[:70]}"
                if k == 1:
                    res.ok(f, loop, construct, f"= {beta} * (...)")
                else:
                    res.bad(f, loop, construct,
                            f"on this path {cell} ends as {_show_canon(v)[:70]}, i.e. multiplied by {beta} {k} time(s): the running "
                            f"state must be decayed exactly once per row (invalid rows age the history too), otherwise weights are "
                            f"(1-alpha)^(valid rows elapsed) and the grouped and ungrouped EMA of one series differ",
                            path=p.describe())
    if total < 4:
        raise AnalysisError(f"E4: only {total} row paths examined (floor 4)")
    seen, uniq = set(), []
    for v in res.violations:
        if v.key() not in seen:
            seen.add(v.key()); uniq.append(v)
    res.violations = uniq
    return res


def _canon_cells(e: ast.AST, env: Dict[str, tuple]) -> tuple:
    """_canon with subscript cells (state[k]) treated as variables named by their text"""
    class R(ast.NodeTransformer):
        def visit_Subscript(self, node):
            return ast.copy_location(ast.Name(id=norm(node), ctx=ast.Load()), node)
    import copy
    e2 = R().visit(copy.deepcopy(e))
    return _canon(e2, env)


def _beta_power(t: tuple, beta: str) -> int:
    """how many factors `beta` the top-level product of the canonical tree carries (0 if it is not a product with beta)"""
    if t[0] == "neg":
        return _beta_power(t[1], beta)
    if t[0] == "mul":
        k = 0
        for x in t[1:]:
            if x == ("name", beta):
                k += 1
            elif x[0] == "mul":
                k += _beta_power(x, beta)
        return k
    return 0


# ------------------------------------------------------------------------------------------------ F1b

def rule_F1b(repo: Repo) -> RuleResult:
    res = RuleResult("F1b", "RangeIndex keys: offsets are divided by the step unless the step is exactly 1")
    f = repo.func(FACT, "factorize_range_index")
    divs = [x for x in ast.walk(f.node) if (isinstance(x, ast.BinOp) and isinstance(x.op, ast.FloorDiv) and "step" in norm(x.right))
            or (isinstance(x, ast.AugAssign) and isinstance(x.op, ast.FloorDiv) and "step" in norm(x.value))]
    if not divs:
        raise AnalysisError("F1b: division by the step not found in factorize_range_index")
    for d in divs:
        guard = None
        for i in walk_no_nested(f.node):
            if isinstance(i, ast.If) and any(x is d for x in ast.walk(i)):
                guard = i
        construct = f"{norm(d)} under {norm(guard.test) if guard is not None else 'no condition'}"
        if guard is None:
            res.ok(f, d, construct, "always divided")
            continue
        t = guard.test
        in_body = any(x is d for b in guard.body for x in ast.walk(b))
        ok = isinstance(t, ast.Compare) and len(t.ops) == 1 and "step" in norm(t.left) and const_int(t.comparators[0]) == 1 and (
            (isinstance(t.ops[0], ast.NotEq) and in_body) or (isinstance(t.ops[0], ast.Eq) and not in_body))
        if ok:
            res.ok(f, d, construct, "skipped only for step == 1")
        else:
            res.bad(f, d, construct,
                    "the offsets of a RangeIndex key are divided by the step only under this condition: for a step it excludes "
                    "(e.g. a negative step, df.index[::-1]) the codes stay multiples of the step - negative codes are read as null keys "
                    "and every row but the first is dropped")
    return res


# ------------------------------------------------------------------------------------------------ S3b

def rule_S3b(repo: Repo) -> RuleResult:
    """GroupBy.__init__, copy path (`isinstance(group_keys, GroupBy)`): every attribute assigned there is taken from the
    source grouping (an attribute or property of the first parameter), none from the other constructor arguments."""
    res = RuleResult("S3b", "the copy constructor takes every attribute from the source grouping")
    f = repo.func(CORE, "GroupBy.__init__")
    params = [p for p in f.named_params if p != "self"]
    src = params[0]
    arm = None
    for i in f.node.body:
        if isinstance(i, ast.If) and isinstance(i.test, ast.Call) and norm(i.test.func) == "isinstance" \
                and isinstance(i.test.args[0], ast.Name) and i.test.args[0].id == src and "GroupBy" in norm(i.test.args[1]):
            arm = i
    if arm is None:
        raise AnalysisError("S3b: copy path of GroupBy.__init__ not found")
    n = 0
    for s in arm.body:
        if not isinstance(s, ast.Assign):
            continue
        targets = []
        for t in s.targets:
            targets.extend(t.elts if isinstance(t, ast.Tuple) else [t])
        values = s.value.elts if isinstance(s.value, ast.Tuple) and len(s.value.elts) == len(targets) else [s.value] * len(targets)
        for t, v in zip(targets, values):
            c = attr_chain(t)
            if not (c and c[0] == "self" and len(c) == 2):
                continue
            n += 1
            construct = f"{norm(t)} = {norm(v)}"
            vc = attr_chain(v)
            if vc and vc[0] == src and len(vc) == 2 and vc[1].lstrip("_") == c[1].lstrip("_"):
                res.ok(f, s, construct, "copied from the source")
            else:
                res.bad(f, s, construct,
                        f"in the copy constructor {norm(t)} is not taken from the same attribute of the source grouping: the copy "
                        f"behaves differently from the original (e.g. it re-sorts a grouping built with sort=False)")
    if n < 6:
        raise AnalysisError(f"S3b: only {n} attributes assigned on the copy path (floor 6)")
    return res
