"""L5 driver.

    python -m gbsa.cli --property C06 --tier quick|thorough
    python -m gbsa.cli --property C06 --replay /verif/evidence/replay/C06-1.json
    python -m gbsa.cli --all            (developer convenience: every claimed property, quick)

exit 0  every obligation of every rule of the property discharged (known findings excepted)
exit 1  at least one violation not listed in known_findings.json (VIOLATION line printed)
exit 2  ANALYSIS-ERROR: the checker cannot speak (never a pass, never a violation claim)
"""
from __future__ import annotations

import argparse
import json
import os
import sys
import time
import traceback
from typing import Dict, List

HERE = os.path.dirname(os.path.abspath(__file__))
VERIF = os.path.dirname(HERE)
if VERIF not in sys.path:
    sys.path.insert(0, VERIF)

from gbsa.model import AnalysisError, Repo, repo_root  # noqa: E402
from gbsa.report import RuleResult, Violation  # noqa: E402
from gbsa import registry  # noqa: E402

KNOWN_FILE = os.path.join(VERIF, "known_findings.json")
EVIDENCE_DIR = os.path.join(VERIF, "evidence")


def load_known() -> List[dict]:
    if not os.path.exists(KNOWN_FILE):
        return []
    with open(KNOWN_FILE) as fh:
        data = json.load(fh)
    return data.get("findings", [])


def match_known(v: Violation, prop: str, known: List[dict]):
    for k in known:
        if k.get("status") != "known":
            continue  # 'fixed' entries suppress nothing
        if prop not in k.get("properties", []):
            continue
        if k.get("rule") == v.rule and k.get("file") == v.file and k.get("function") == v.function \
                and k.get("construct") == v.construct:
            return k
    return None


_RULE_CACHE = {}


def run_rule(rule_id: str, repo: Repo) -> RuleResult:
    """rule_id is 'K1' or 'K1@scope' (scope = named set of functions, registry.SCOPES)."""
    base, _, scope = rule_id.partition("@")
    key = (id(repo), base)
    if key not in _RULE_CACHE:
        fn = registry.RULES[base]
        res = fn(repo)
        if res.floor is not None and len(res.instances) < res.floor:
            raise AnalysisError(
                f"{base}: {len(res.instances)} instances found, below the confirmed floor {res.floor}; "
                f"the rule no longer sees the constructs it was validated on")
        _RULE_CACHE[key] = res
    res = _RULE_CACHE[key]
    if not scope:
        return res
    funcs = registry.SCOPES[scope]
    out = RuleResult(rule_id, res.title + f" [scope {scope}: {', '.join(sorted(funcs))}]")
    out.instances = [i for i in res.instances if i.function in funcs]
    out.violations = [v for v in res.violations if v.function in funcs]
    out.analysed = res.analysed
    for v in out.violations:
        pass
    if not out.instances:
        raise AnalysisError(f"{rule_id}: no instance of {base} inside scope {scope} ({sorted(funcs)}): anchor vanished")
    return out


def run_property(prop: str, tier: str, seed: int, repo: Repo = None, write_evidence: bool = True,
                 quiet: bool = False) -> int:
    t0 = time.time()
    if prop not in registry.PROPERTIES:
        print(f"ANALYSIS-ERROR property={prop} not claimed by this framework (see MANIFEST.json not_applicable)")
        return 2
    spec = registry.PROPERTIES[prop]
    out = print if not quiet else (lambda *a, **k: None)
    try:
        repo = repo or Repo()
        stats = repo.stats()
        results: List[RuleResult] = []
        for rule_id in spec["rules"]:
            results.append(run_rule(rule_id, repo))
        selftest = None
        if tier == "thorough":
            from gbsa import selftest as st
            selftest = st.run_for_property(prop, spec["rules"], repo, seed)
            from gbsa import fixtures
            selftest["fixtures"] = fixtures.run(prop, spec["rules"], repo)
    except AnalysisError as e:
        print(f"ANALYSIS-ERROR property={prop} {e}")
        return 2
    except Exception as e:  # internal error: never a pass, never a violation claim
        print(f"ANALYSIS-ERROR property={prop} internal error: {type(e).__name__}: {e}")
        traceback.print_exc()
        return 2

    known = load_known()
    violations: List[Violation] = []
    known_hits = []
    for res in results:
        for v in res.violations:
            k = match_known(v, prop, known)
            if k is not None:
                known_hits.append((v, k))
            else:
                violations.append(v)

    out(f"gbsa property={prop} tier={tier} repo={repo.root} files={stats['files']} "
        f"functions={stats['functions']} njit={stats['njit_functions']} calls={stats['call_expressions']}")
    for note in getattr(repo, "normalisation_notes", []):
        # what the normaliser did to the source before the rules ran (e.g. a renamed private function analysed under its old name)
        out(f"  normalised: {note}")
    n_obl = n_dis = 0
    for res in results:
        n_obl += res.n_obligations
        n_dis += res.n_discharged
        out(f"  rule {res.rule}: {res.title} — {res.n_obligations} obligations, "
            f"{res.n_discharged} discharged, {len(res.violations)} violations")
        if tier == "thorough":
            for inst in res.instances:
                out(f"      [{inst.verdict}] {inst.file}:{inst.line} {inst.function}: {inst.construct}"
                    + (f" — {inst.reason}" if inst.reason else ""))
    for v, k in known_hits:
        print(f"KNOWN-FINDING: property={prop} {v.rule} {v.file} {v.function}: {v.construct} — {k.get('what', v.message)}")

    rc = 0
    replay_paths = []
    if violations:
        rc = 1
        os.makedirs(os.path.join(EVIDENCE_DIR, "replay"), exist_ok=True)
        for i, v in enumerate(violations, 1):
            print(v.text())
            rp = os.path.join(EVIDENCE_DIR, "replay", f"{prop}-{i}.json")
            try:
                with open(rp, "w") as fh:
                    json.dump({"property": prop, "violation": v.to_json()}, fh, indent=1)
            except OSError:
                pass
            replay_paths.append(rp)
            print(f"VIOLATION property={prop} replay={rp}")
    if selftest is not None:
        out(f"  self-validation: {selftest['variants']} variants of the current source "
            f"({selftest['breaking']} breaking caught, {selftest['preserving']} preserving silent, "
            f"{selftest.get('inapplicable', 0)} inapplicable), {selftest['failed']} failed, {selftest.get('wall_s', 0)} s")
        for r in selftest.get("results", []):
            if r["status"] == "inapplicable":
                out(f"      [inapplicable] {r['name']}: {r['detail']}")
        if selftest.get("degraded_rules"):
            out(f"  self-validation degraded (no applicable breaking variant): {', '.join(selftest['degraded_rules'])}")
        fx = selftest.get("fixtures")
        if fx:
            out(f"  recorded changes replayed on the current tree: {fx['seeds_caught']}/{fx['seeds']} seeded property-breaking "
                f"changes reported, {fx['refactorings_silent']}/{fx['refactorings']} behaviour-preserving refactorings silent, "
                f"{fx['inapplicable']} inapplicable, {fx['failed']} failed, {fx['wall_s']} s")
            for r in fx["results"]:
                if r["status"] == "inapplicable":
                    out(f"      [inapplicable] {r['kind']} {r['id']}: {r['detail']}")
            for r in fx["failures"]:
                print(f"SELFTEST-FAIL fixture={r['kind']} {r['id']}: {r['detail'][:300]}")
            selftest["failed"] += fx["failed"]
        if selftest["failed"]:
            for r in selftest["failures"]:
                print(f"SELFTEST-FAIL rule={r['rule']} kind={r['kind']} {r['name']}: {r['detail'][:300]}")
            print(f"ANALYSIS-ERROR property={prop} checker self-validation failed on the current tree "
                  f"({selftest['failed']} variant(s)); the verdict of the affected rule(s) is not trustworthy")
            rc = 2 if rc == 0 else rc

    if write_evidence:
        write_evidence_file(prop, tier, seed, spec, results, violations, known_hits, stats, selftest,
                            time.time() - t0, repo)
    if rc == 0:
        out(f"OK property={prop}: {n_dis}/{n_obl} obligations discharged"
            + (f", {len(known_hits)} known finding(s)" if known_hits else ""))
    return rc


def write_evidence_file(prop, tier, seed, spec, results, violations, known_hits, stats, selftest, wall, repo):
    os.makedirs(EVIDENCE_DIR, exist_ok=True)
    instances = [i for r in results for i in r.instances]
    distinct = {i.key() for i in instances if i.nontrivial}
    n_obl = sum(r.n_obligations for r in results)
    n_dis = sum(r.n_discharged for r in results)
    samples = []
    for r in results:
        for i in r.instances[:4]:
            samples.append({"rule": i.rule, "at": f"{i.file}:{i.line}", "function": i.function,
                            "construct": i.construct, "verdict": i.verdict, "reason": i.reason})
    for v in violations[:10]:
        samples.append({"rule": v.rule, "at": f"{v.file}:{v.line}", "function": v.function,
                        "construct": v.construct, "verdict": "VIOLATION", "reason": v.message})
    cov = {
        "explanation": spec["explanation"],
        "obligations": n_obl,
        "discharged": n_dis,
        "evaluations": len(instances),
        "distinct_nontrivial": len(distinct),
        "rule": ("cases are rule instances found by the analyser in /repo's current source (one per "
                 "guarded access / bound call / path / table row examined); an instance is non-trivial when the "
                 "rule had something to decide there; distinct = distinct (rule, file, function, construct) keys; "
                 "rules: " + "; ".join(f"{r.rule} = {r.title}" for r in results)),
        "samples": samples,
        "checker_cmd": f"/venv/bin/python -m gbsa.cli --property {prop} --tier {tier}",
        "trusted_base": spec.get("trusted_base", []),
        "exhaustive": True,
        "analysed": {**stats, "repo": repo.root,
                     "per_rule": {r.rule: {"instances": len(r.instances), "violations": len(r.violations),
                                           **({"analysed": r.analysed} if r.analysed else {})}
                                  for r in results}},
        "known_findings_present": [f"{v.rule} {v.file} {v.function}: {v.construct}" for v, _ in known_hits],
        "not_decided": spec.get("not_decided", []),
    }
    if selftest is not None:
        cov["self_validation"] = {k: selftest.get(k) for k in ("variants", "breaking", "preserving", "inapplicable", "failed",
                                                               "per_rule", "degraded_rules", "wall_s")}
        cov["self_validation"]["what"] = (
            "each variant is an in-memory edit of the CURRENT source of one function (ast.unparse text), re-parsed and "
            "re-analysed by the one rule; 'break' variants re-introduce a specific violation and must be reported at that "
            "function, 'keep' variants are behaviour-preserving rewrites and must stay silent; nothing is executed")
        cov["self_validation"]["samples"] = [
            {"rule": r["rule"], "kind": r["kind"], "variant": r["name"], "status": r["status"], "report": r["detail"][:200]}
            for r in selftest.get("results", [])[:40]]
        fx = selftest.get("fixtures")
        if fx:
            cov["recorded_changes_replayed"] = {
                "what": ("unified diffs committed under /verif/seeded (property-breaking changes written by independent sub-agents, "
                         "suite-passing, demonstration confirmed) and /verif/benign (behaviour-preserving refactorings written by "
                         "independent sub-agents) are applied IN MEMORY to the current source and the property's rules re-run: "
                         "every seed that targets this property must be reported, every refactoring must stay silent; nothing is executed"),
                **{k: fx[k] for k in ("seeds", "seeds_caught", "refactorings", "refactorings_silent", "inapplicable", "failed", "wall_s")},
                "results": [{"kind": r["kind"], "id": r["id"], "status": r["status"], "report": r["detail"][:160]} for r in fx["results"]],
            }
    ev = {
        "property_id": prop,
        "tier": tier,
        "seed": seed,
        "level": "other",
        "coverage": cov,
        "assumptions": spec.get("assumptions", []),
        "wall_s": round(wall, 3),
        "violations": len(violations),
    }
    path = os.path.join(EVIDENCE_DIR, f"{prop}.json")
    tmp = path + ".tmp"
    with open(tmp, "w") as fh:
        json.dump(ev, fh, indent=1, sort_keys=False)
    os.replace(tmp, path)


def replay(prop: str, path: str) -> int:
    try:
        with open(path) as fh:
            data = json.load(fh)
        want = data["violation"]
        repo = Repo()
        fn = registry.RULES[want["rule"]]
        res = fn(repo)
    except AnalysisError as e:
        print(f"ANALYSIS-ERROR property={prop} {e}")
        return 2
    except Exception as e:
        print(f"ANALYSIS-ERROR property={prop} replay failed: {type(e).__name__}: {e}")
        return 2
    for v in res.violations:
        if (v.rule, v.file, v.function, v.construct) == (want["rule"], want["file"], want["function"], want["construct"]):
            print(v.text())
            print(f"VIOLATION property={prop} replay={path}")
            return 1
    print(f"replay: violation {want['rule']} {want['file']} {want['function']}: {want['construct']} no longer present")
    return 0


def main(argv=None) -> int:
    ap = argparse.ArgumentParser(prog="gbsa")
    ap.add_argument("--property")
    ap.add_argument("--tier", default=os.environ.get("VERIF_TIER", "quick"), choices=["quick", "thorough"])
    ap.add_argument("--replay")
    ap.add_argument("--all", action="store_true")
    ap.add_argument("--no-evidence", action="store_true")
    args = ap.parse_args(argv)
    try:
        seed = int(os.environ.get("VERIF_SEED", "0"))
    except ValueError:
        seed = 0
    if args.all:
        worst = 0
        for prop in sorted(registry.PROPERTIES):
            rc = run_property(prop, args.tier, seed, write_evidence=not args.no_evidence)
            worst = max(worst, rc)
        return worst
    if not args.property:
        ap.error("--property or --all required")
    if args.replay:
        return replay(args.property, args.replay)
    return run_property(args.property, args.tier, seed, write_evidence=not args.no_evidence)


if __name__ == "__main__":
    try:
        rc = main()
    except SystemExit:
        raise
    except BaseException as e:  # never exit 1 on a traceback
        print(f"ANALYSIS-ERROR internal error: {type(e).__name__}: {e}")
        traceback.print_exc()
        rc = 2
    sys.exit(rc)
