"""Thorough tier: checker self-validation on the current tree (filled in by gbsa/variants.py)."""
from __future__ import annotations


def run_for_property(prop, rule_ids, repo, seed):
    try:
        from . import variants
    except ImportError:
        return {"variants": 0, "breaking": 0, "preserving": 0, "failed": 0, "failures": [], "samples": []}
    return variants.run(prop, rule_ids, repo, seed)
