"""Guarded-command normal form of loop-free functions (DESIGN.md L2 / section 10).

A function body (if/elif/else, early returns, local rebinding, IfExp) is turned into a decision
table  {path condition -> result}  by forward substitution.  Conditions are conjunctions of atoms

    ('NULL', e)       is_null(e) / np.isnan(e)
    ('NZ', e)         truthiness of an integer expression
    ('ORD', a, b)     order of a and b:  '<' '=' '>' or 'U' (unordered: an operand is NaN)
    ('FLAG', e)       truthiness of anything else (opaque)

Expressions are canonicalised (parameters by position, commutative operands sorted,
``c + 1 == 1 + c``, ``x ** 2`` as SQ(x)).  Two tables are compared on every consistent valuation
of the atoms; under ORD '=' the two operands are interchangeable.
"""
from __future__ import annotations

import ast
import itertools
from dataclasses import dataclass, field
from typing import Dict, FrozenSet, Iterable, List, Optional, Set, Tuple

from .model import AnalysisError, Func, docstring_stripped, norm

Expr = tuple
Atom = tuple

DOMAIN = {
    "NULL": (True, False),
    "NZ": (True, False),
    "FLAG": (True, False),
    "ORD": ("<", "=", ">", "U"),
}


def P(i: int) -> Expr:
    return ("p", i)


def C(v) -> Expr:
    return ("c", v)


def add(*xs) -> Expr:
    flat: List[Expr] = []
    const = 0
    has_const = False
    for x in xs:
        if x[0] == "add":
            for y in x[1:]:
                if y[0] == "c" and isinstance(y[1], (int, float)) and not isinstance(y[1], bool):
                    const += y[1]; has_const = True
                else:
                    flat.append(y)
        elif x[0] == "c" and isinstance(x[1], (int, float)) and not isinstance(x[1], bool):
            const += x[1]; has_const = True
        else:
            flat.append(x)
    if has_const and const != 0:
        flat.append(C(const))
    if not flat:
        return C(const)
    if len(flat) == 1:
        return flat[0]
    return ("add",) + tuple(sorted(flat, key=repr))


def inc(x: Expr) -> Expr:
    return add(x, C(1))


def sq(x: Expr) -> Expr:
    return ("sq", x)


def show(e: Expr, names: Optional[List[str]] = None) -> str:
    k = e[0]
    if k == "p":
        return names[e[1]] if names and e[1] < len(names) else f"P{e[1]}"
    if k == "c":
        return repr(e[1])
    if k == "add":
        return "(" + " + ".join(show(x, names) for x in e[1:]) + ")"
    if k == "mul":
        return "(" + " * ".join(show(x, names) for x in e[1:]) + ")"
    if k == "sq":
        return show(e[1], names) + "**2"
    if k == "tuple":
        return "(" + ", ".join(show(x, names) for x in e[1:]) + ")"
    if k in ("sub", "div", "pow", "floordiv", "mod"):
        return f"({show(e[1], names)} {k} {show(e[2], names)})"
    if k == "neg":
        return "-" + show(e[1], names)
    if k == "call":
        return f"{e[1]}(" + ", ".join(show(x, names) for x in e[2:]) + ")"
    if k == "mcall":
        return f"{show(e[1], names)}.{e[2]}(" + ", ".join(show(x, names) for x in e[3:]) + ")"
    if k == "attr":
        return f"{show(e[1], names)}.{e[2]}"
    if k == "g":
        return e[1]
    if k == "cmp":
        return "(" + show(e[2], names) + "".join(f" {o} {show(c, names)}" for o, c in zip(e[1], e[3:])) + ")"
    return repr(e)


def show_atom(a: Atom, names=None) -> str:
    if a[0] == "ORD":
        return f"ORD({show(a[1], names)},{show(a[2], names)})"
    return f"{a[0]}({show(a[1], names)})"


@dataclass
class Row:
    pc: Dict[Atom, FrozenSet]      # atom -> allowed outcomes
    result: Expr
    line: int = 0

    def show(self, names=None) -> str:
        conds = []
        for a, allowed in sorted(self.pc.items(), key=lambda kv: repr(kv[0])):
            if a[0] == "ORD":
                conds.append(f"{show_atom(a, names)}∈{{{','.join(sorted(allowed))}}}")
            else:
                v = next(iter(allowed)) if len(allowed) == 1 else allowed
                conds.append(("" if v is True else "¬") + show_atom(a, names))
        return (" ∧ ".join(conds) or "⊤") + " → " + show(self.result, names)


@dataclass
class Table:
    func: str
    params: List[str]
    rows: List[Row] = field(default_factory=list)

    def atoms(self) -> List[Atom]:
        seen: List[Atom] = []
        for r in self.rows:
            for a in r.pc:
                if a not in seen:
                    seen.append(a)
        return seen

    def lookup(self, val: Dict[Atom, object]) -> Row:
        hits = []
        for r in self.rows:
            if all(val.get(a) in allowed for a, allowed in r.pc.items()):
                hits.append(r)
        if len(hits) != 1:
            # rows with identical results are not a conflict
            if hits and all(h.result == hits[0].result for h in hits):
                return hits[0]
            raise AnalysisError(
                f"GCNF table of {self.func} is malformed: {len(hits)} rows match valuation "
                f"{ {show_atom(a, self.params): v for a, v in val.items()} }")
        return hits[0]

    def show(self) -> List[str]:
        return [r.show(self.params) for r in self.rows]


class Unsupported(AnalysisError):
    pass


NULL_PREDICATES = {"is_null", "np.isnan", "numpy.isnan", "math.isnan", "isnan"}


class Normaliser:
    def __init__(self, func: Func):
        self.func = func
        self.params = func.named_params
        self.table = Table(func.qualname, list(self.params))

    # ---- expressions
    def expr(self, e: ast.AST, env: Dict[str, Expr]) -> Expr:
        if isinstance(e, ast.Name):
            if e.id in env:
                return env[e.id]
            if e.id in self.params:
                return P(self.params.index(e.id))
            return ("g", e.id)
        if isinstance(e, ast.Constant):
            return C(e.value)
        if isinstance(e, ast.Tuple):
            return ("tuple",) + tuple(self.expr(x, env) for x in e.elts)
        if isinstance(e, ast.BinOp):
            l, r = self.expr(e.left, env), self.expr(e.right, env)
            if isinstance(e.op, ast.Add):
                return add(l, r)
            if isinstance(e.op, ast.Mult):
                return ("mul",) + tuple(sorted([l, r], key=repr))
            if isinstance(e.op, ast.Pow):
                if r == C(2):
                    return sq(l)
                return ("pow", l, r)
            if isinstance(e.op, ast.Sub):
                return ("sub", l, r)
            if isinstance(e.op, ast.Div):
                return ("div", l, r)
            if isinstance(e.op, ast.FloorDiv):
                return ("floordiv", l, r)
            if isinstance(e.op, ast.Mod):
                return ("mod", l, r)
            raise Unsupported(f"{self.func.qualname}: operator {type(e.op).__name__} outside the GCNF subset")
        if isinstance(e, ast.UnaryOp) and isinstance(e.op, ast.USub):
            return ("neg", self.expr(e.operand, env))
        if isinstance(e, ast.Call):
            if isinstance(e.func, ast.Attribute) and not isinstance(e.func.value, ast.Name):
                return ("mcall", self.expr(e.func.value, env), e.func.attr) + tuple(self.expr(a, env) for a in e.args)
            if isinstance(e.func, ast.Attribute) and isinstance(e.func.value, ast.Name) \
                    and (e.func.value.id in env or e.func.value.id in self.params):
                return ("mcall", self.expr(e.func.value, env), e.func.attr) + tuple(self.expr(a, env) for a in e.args)
            return ("call", norm(e.func)) + tuple(self.expr(a, env) for a in e.args)
        if isinstance(e, ast.Attribute):
            return ("attr", self.expr(e.value, env), e.attr)
        if isinstance(e, ast.Compare):
            return ("cmp", tuple(type(o).__name__ for o in e.ops), self.expr(e.left, env)) + tuple(
                self.expr(c, env) for c in e.comparators)
        if isinstance(e, ast.Subscript):
            return ("idx", self.expr(e.value, env), self.expr(e.slice, env))
        raise Unsupported(f"{self.func.qualname}: expression {norm(e)} outside the GCNF subset")

    # ---- tests: yields (pc', truth)
    def fork(self, t: ast.AST, env, pc) -> List[Tuple[Dict[Atom, FrozenSet], bool]]:
        if isinstance(t, ast.UnaryOp) and isinstance(t.op, ast.Not):
            return [(p, not v) for p, v in self.fork(t.operand, env, pc)]
        if isinstance(t, ast.BoolOp):
            outs: List[Tuple[Dict, bool]] = []
            live = [(pc, None)]
            is_and = isinstance(t.op, ast.And)
            for v in t.values:
                nxt = []
                for p, _ in live:
                    for p2, val in self.fork(v, env, p):
                        if val is (not is_and):
                            outs.append((p2, not is_and))       # short-circuit
                        else:
                            nxt.append((p2, val))
                live = nxt
            outs += [(p, is_and) for p, _ in live]
            return outs
        if isinstance(t, ast.Call) and norm(t.func) in NULL_PREDICATES and len(t.args) == 1:
            return self._split(("NULL", self.expr(t.args[0], env)), {True: (True,), False: (False,)}, pc)
        if isinstance(t, ast.Compare) and len(t.ops) == 1 and isinstance(
                t.ops[0], (ast.Lt, ast.Gt, ast.LtE, ast.GtE)):
            a, b = self.expr(t.left, env), self.expr(t.comparators[0], env)
            op = type(t.ops[0])
            true_set = {ast.Lt: {"<"}, ast.LtE: {"<", "="}, ast.Gt: {">"}, ast.GtE: {">", "="}}[op]
            if repr(a) > repr(b):           # canonical operand order
                a, b = b, a
                true_set = {{"<": ">", ">": "<", "=": "="}[x] for x in true_set}
            false_set = set(DOMAIN["ORD"]) - true_set
            return self._split(("ORD", a, b), {True: tuple(true_set), False: tuple(false_set)}, pc)
        if isinstance(t, ast.Constant):
            return [(pc, bool(t.value))]
        # truthiness of an expression
        e = self.expr(t, env)
        kind = "NZ" if isinstance(t, ast.Name) else "FLAG"
        return self._split((kind, e), {True: (True,), False: (False,)}, pc)

    def _split(self, atom: Atom, outcomes: Dict[bool, tuple], pc) -> List[Tuple[Dict, bool]]:
        res = []
        cur = pc.get(atom, frozenset(DOMAIN[atom[0]]))
        for truthv, allowed in outcomes.items():
            inter = cur & frozenset(allowed)
            if inter:
                p2 = dict(pc)
                p2[atom] = inter
                res.append((p2, truthv))
        return res

    # ---- statements
    def run(self) -> Table:
        body = docstring_stripped(self.func.node.body)
        self.block(body, {}, {}, top=True)
        if not self.table.rows:
            raise Unsupported(f"{self.func.qualname}: no return found")
        return self.table

    def emit(self, value: ast.AST, env, pc, line):
        # IfExp in value position forks
        if isinstance(value, ast.IfExp):
            for p2, tv in self.fork(value.test, env, pc):
                self.emit(value.body if tv else value.orelse, env, p2, line)
            return
        inner = next((n for n in ast.walk(value) if isinstance(n, ast.IfExp)), None)
        if inner is not None:
            # a conditional expression nested in the returned value (e.g. inside the result tuple) forks too
            for p2, tv in self.fork(inner.test, env, pc):
                self.emit(_replace_node(value, inner, inner.body if tv else inner.orelse), env, p2, line)
            return
        self.table.rows.append(Row(dict(pc), self.expr(value, env), line))

    def block(self, stmts, env, pc, top=False) -> List[Tuple[Dict[str, Expr], Dict]]:
        """returns the list of (env, pc) states that fall through the block"""
        states = [(env, pc)]
        for st in stmts:
            nxt = []
            for env_i, pc_i in states:
                nxt += self.stmt(st, env_i, pc_i)
            states = nxt
            if not states:
                break
        if top and states:
            raise Unsupported(f"{self.func.qualname}: a path falls off the end without return")
        return states

    def stmt(self, st, env, pc):
        if isinstance(st, ast.Return):
            if st.value is None:
                raise Unsupported(f"{self.func.qualname}: bare return")
            self.emit(st.value, env, pc, st.lineno)
            return []
        if isinstance(st, ast.If):
            outs = []
            for p2, tv in self.fork(st.test, env, pc):
                outs += self.block(st.body if tv else st.orelse, dict(env), p2)
            return outs
        if isinstance(st, ast.Assign) and len(st.targets) == 1 and isinstance(st.targets[0], ast.Name):
            if isinstance(st.value, ast.IfExp):
                outs = []
                for p2, tv in self.fork(st.value.test, env, pc):
                    e2 = dict(env)
                    e2[st.targets[0].id] = self.expr(st.value.body if tv else st.value.orelse, env)
                    outs.append((e2, p2))
                return outs
            e2 = dict(env)
            e2[st.targets[0].id] = self.expr(st.value, env)
            return [(e2, pc)]
        if isinstance(st, ast.AugAssign) and isinstance(st.target, ast.Name):
            e2 = dict(env)
            synthetic = ast.BinOp(left=ast.Name(id=st.target.id, ctx=ast.Load()), op=st.op, right=st.value)
            e2[st.target.id] = self.expr(synthetic, env)
            return [(e2, pc)]
        if isinstance(st, ast.Pass):
            return [(env, pc)]
        if isinstance(st, ast.Expr) and isinstance(st.value, ast.Constant):
            return [(env, pc)]
        raise Unsupported(f"{self.func.qualname}: statement {norm(st)[:60]} outside the GCNF subset")


def _replace_node(root: ast.AST, target: ast.AST, repl: ast.AST) -> ast.AST:
    """copy of root with the node `target` (by identity) replaced by `repl`; root is not modified"""
    def rec(node):
        if node is target:
            return repl
        if isinstance(node, ast.AST):
            new = type(node)()
            for k, v in vars(node).items():
                setattr(new, k, rec(v))
            return new
        if isinstance(node, list):
            return [rec(x) for x in node]
        return node

    return rec(root)


def normalise(func: Func) -> Table:
    return Normaliser(func).run()


# ---------------------------------------------------------------------- valuations

def consistent_valuations(atoms: List[Atom]) -> Iterable[Dict[Atom, object]]:
    """every valuation of the atoms that is consistent:
    ORD(a,b) = 'U' iff NULL(a) or NULL(b) is true, when such NULL atoms are in the universe;
    if neither operand has a NULL atom, 'U' is a separate (unconstrained) case."""
    atoms = list(atoms)
    nulls = {a[1] for a in atoms if a[0] == "NULL"}
    for combo in itertools.product(*[DOMAIN[a[0]] for a in atoms]):
        val = dict(zip(atoms, combo))
        ok = True
        for a in atoms:
            if a[0] == "ORD":
                ops_with_null_atom = [x for x in (a[1], a[2]) if x in nulls]
                any_null = any(val[("NULL", x)] for x in ops_with_null_atom)
                if any_null and val[a] != "U":
                    ok = False
                if ops_with_null_atom and len(ops_with_null_atom) == 2 and not any_null and val[a] == "U":
                    ok = False
        if ok:
            yield val


def subst(e: Expr, a: Expr, b: Expr) -> Expr:
    """replace a by b in e"""
    if e == a:
        return b
    if isinstance(e, tuple):
        return tuple(subst(x, a, b) if isinstance(x, tuple) else x for x in e)
    return e


def unify_equal(e: Expr, val: Dict[Atom, object]) -> Expr:
    for a, v in val.items():
        if a[0] == "ORD" and v == "=":
            e = subst(e, a[2], a[1])
    return e
