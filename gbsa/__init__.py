"""gbsa - repository-specific static analyser for eoincondron/groupby-lib.

Everything here works on the *source text* of /repo (Python ``ast``); nothing imports
``groupby_lib``, runs a kernel or calls a solver.  See /verif/DESIGN.md.
"""
