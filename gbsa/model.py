"""L0 source model: modules, classes, functions, decorators, parameters.

The repository is re-parsed from the working tree on every run.  ``Repo`` can also be built
from in-memory source overrides, which is how the thorough tier analyses variants of the
current source without writing scratch trees to disk.
"""
from __future__ import annotations

import ast
import os
from dataclasses import dataclass, field
from typing import Dict, Iterator, List, Optional, Set, Tuple

PKG = "groupby_lib"

# modules analysed (relative to <repo>/groupby_lib); everything else is parsed and counted only
CORE_MODULES = [
    "groupby/core.py",
    "groupby/numba.py",
    "groupby/factorization.py",
    "groupby/api.py",
    "groupby/monkey_patch.py",
    "util.py",
    "emas.py",
    "nanops.py",
]


class AnalysisError(Exception):
    """The checker cannot speak (vanished anchor, unrecognised construct, floor not met)."""


class AnchorMissing(AnalysisError):
    pass


def repo_root() -> str:
    return os.environ.get("GBSA_REPO", "/repo")


def unparse(node) -> str:
    try:
        return ast.unparse(node)
    except Exception:  # pragma: no cover
        return "<unparse-failed>"


def norm(node) -> str:
    """Normalised text of a construct (used as key of findings, never a line number)."""
    return " ".join(unparse(node).split())


@dataclass(eq=False)
class Func:
    module: "Module"
    qualname: str
    node: ast.FunctionDef
    cls: Optional[str] = None
    parent: Optional["Func"] = None
    decorators: List[str] = field(default_factory=list)

    @property
    def name(self) -> str:
        return self.node.name

    @property
    def file(self) -> str:
        return self.module.relpath

    @property
    def lineno(self) -> int:
        return self.node.lineno

    @property
    def is_njit(self) -> bool:
        for d in self.decorators:
            if d.startswith("nb.njit") or d.startswith("njit") or d.startswith("numba.njit"):
                return True
            if d.startswith("_scalar_func_decorator"):
                return True
        return False

    @property
    def params(self) -> List[str]:
        a = self.node.args
        out = [x.arg for x in a.posonlyargs + a.args]
        if a.vararg:
            out.append("*" + a.vararg.arg)
        out += [x.arg for x in a.kwonlyargs]
        if a.kwarg:
            out.append("**" + a.kwarg.arg)
        return out

    @property
    def named_params(self) -> List[str]:
        a = self.node.args
        return [x.arg for x in a.posonlyargs + a.args + a.kwonlyargs]

    def param_defaults(self) -> Dict[str, ast.AST]:
        a = self.node.args
        pos = a.posonlyargs + a.args
        out: Dict[str, ast.AST] = {}
        for p, d in zip(pos[len(pos) - len(a.defaults):], a.defaults):
            out[p.arg] = d
        for p, d in zip(a.kwonlyargs, a.kw_defaults):
            if d is not None:
                out[p.arg] = d
        return out

    def loc(self, node=None) -> str:
        ln = getattr(node, "lineno", None) or self.node.lineno
        return f"{self.module.relpath}:{ln}"

    def __repr__(self):
        return f"<Func {self.module.name}:{self.qualname}>"


@dataclass(eq=False)
class Module:
    name: str          # e.g. "groupby.core"
    relpath: str       # e.g. "groupby_lib/groupby/core.py"
    source: str
    tree: ast.Module
    functions: Dict[str, Func] = field(default_factory=dict)
    classes: Dict[str, ast.ClassDef] = field(default_factory=dict)

    def func(self, qualname: str) -> Func:
        try:
            return self.functions[qualname]
        except KeyError:
            raise AnchorMissing(
                f"anchor vanished: function {qualname} not found in {self.relpath}"
            )

    def cls(self, name: str) -> ast.ClassDef:
        try:
            return self.classes[name]
        except KeyError:
            raise AnchorMissing(f"anchor vanished: class {name} not found in {self.relpath}")

    def methods(self, clsname: str) -> Dict[str, Func]:
        pre = clsname + "."
        return {
            q[len(pre):]: f
            for q, f in self.functions.items()
            if q.startswith(pre) and "." not in q[len(pre):]
        }


def _dec_name(d: ast.AST) -> str:
    return norm(d)


def _index_functions(mod: Module):
    def visit(body, prefix: str, cls: Optional[str], parent: Optional[Func]):
        for st in body:
            if isinstance(st, (ast.FunctionDef, ast.AsyncFunctionDef)):
                q = prefix + st.name
                f = Func(mod, q, st, cls=cls, parent=parent,
                         decorators=[_dec_name(d) for d in st.decorator_list])
                # overloads define the same qualname several times: keep all under #n
                if q in mod.functions:
                    n = 2
                    while f"{q}#{n}" in mod.functions:
                        n += 1
                    q = f"{q}#{n}"
                    f.qualname = q
                mod.functions[q] = f
                visit(st.body, q + ".", cls, f)
            elif isinstance(st, ast.ClassDef):
                mod.classes[prefix + st.name] = st
                visit(st.body, prefix + st.name + ".", prefix + st.name, parent)
            elif isinstance(st, (ast.If, ast.Try, ast.With, ast.For, ast.While)):
                # functions defined under control flow (e.g. overload bodies) are still indexed
                for sub in _sub_bodies(st):
                    visit(sub, prefix, cls, parent)

    visit(mod.tree.body, "", None, None)


def _sub_bodies(st) -> Iterator[list]:
    for fld in ("body", "orelse", "finalbody"):
        b = getattr(st, fld, None)
        if b:
            yield b
    for h in getattr(st, "handlers", []) or []:
        yield h.body


class _TrackingDict(dict):
    """module table that remembers which modules were looked at (fixtures.py skips a rule on a diff that touches none of the
    modules the rule consults; any bulk access counts as 'all')"""
    def __init__(self):
        super().__init__()
        self.accessed: Set[str] = set()

    def __getitem__(self, k):
        self.accessed.add(k)
        return super().__getitem__(k)

    def get(self, k, default=None):
        self.accessed.add(k)
        return super().get(k, default)

    def __contains__(self, k):
        self.accessed.add(k)
        return super().__contains__(k)

    def _all(self):
        self.accessed.update(super().keys())

    def values(self):
        self._all()
        return super().values()

    def items(self):
        self._all()
        return super().items()

    def keys(self):
        self._all()
        return super().keys()

    def __iter__(self):
        self._all()
        return super().__iter__()


class Repo:
    def __init__(self, root: Optional[str] = None, overrides: Optional[Dict[str, str]] = None):
        self.root = root or repo_root()
        self.modules: Dict[str, Module] = _TrackingDict()
        self.parsed_files: List[str] = []
        self.normalisation_notes: List[str] = []
        overrides = overrides or {}
        parsed: List[Tuple[str, str, str, ast.Module]] = []
        pkgdir = os.path.join(self.root, PKG)
        if not os.path.isdir(pkgdir):
            raise AnchorMissing(f"anchor vanished: package directory {pkgdir} not found")
        for dirpath, dirnames, filenames in sorted(os.walk(pkgdir)):
            dirnames[:] = sorted(d for d in dirnames if d != "__pycache__")
            for fn in sorted(filenames):
                if not fn.endswith(".py"):
                    continue
                full = os.path.join(dirpath, fn)
                rel = os.path.relpath(full, self.root)
                inner = os.path.relpath(full, pkgdir)
                if rel in overrides:
                    src = overrides[rel]
                else:
                    with open(full, "r", encoding="utf-8") as fh:
                        src = fh.read()
                try:
                    tree = ast.parse(src, filename=rel)
                except SyntaxError as e:
                    raise AnalysisError(f"cannot parse {rel}: {e}")
                name = inner[:-3].replace(os.sep, ".")
                if name.endswith(".__init__"):
                    name = name[: -len(".__init__")]
                parsed.append((name, rel, src, tree))
        # N0: private functions that were merely renamed get their inventory name back, in every module that refers to them
        from .normalize import normalise, renamed_private_functions, apply_renames
        renames: Dict[str, str] = {}
        if not os.environ.get("GBSA_NO_NORMALIZE"):
            for name, rel, src, tree in parsed:
                try:
                    r = renamed_private_functions(tree, name)
                except Exception as e:
                    r = {}
                    self.normalisation_notes.append(f"{name}: rename recovery skipped ({type(e).__name__}: {e})")
                for new_, old_ in r.items():
                    self.normalisation_notes.append(f"{name}: private function {new_} is taken to be the renamed {old_}")
                renames.update(r)
        for name, rel, src, tree in parsed:
            if renames:
                apply_renames(tree, renames)
            # behaviour-preserving normalisation (normalize.py): new private helpers inlined, `x = a if c else b` as if/else, ...
            try:
                self.normalisation_notes.extend(normalise(tree, name))
            except Exception as e:        # the normaliser must never make the analysis worse than not having it
                self.normalisation_notes.append(f"{name}: normalisation skipped ({type(e).__name__}: {e})")
                tree = ast.parse(src, filename=rel)
            mod = Module(name=name, relpath=rel, source=src, tree=tree)
            _index_functions(mod)
            self.modules[name] = mod
            self.parsed_files.append(rel)
        for inner in CORE_MODULES:
            name = inner[:-3].replace("/", ".")
            if name not in self.modules:
                raise AnchorMissing(f"anchor vanished: module {PKG}/{inner} not found")

    # ------------------------------------------------------------------ access helpers
    def mod(self, name: str) -> Module:
        try:
            return self.modules[name]
        except KeyError:
            raise AnchorMissing(f"anchor vanished: module {name}")

    def func(self, modname: str, qualname: str) -> Func:
        return self.mod(modname).func(qualname)

    def has_func(self, modname: str, qualname: str) -> bool:
        return modname in self.modules and qualname in self.modules[modname].functions

    def all_functions(self) -> Iterator[Func]:
        for m in self.modules.values():
            yield from m.functions.values()

    def kernels(self) -> List[Func]:
        return [f for f in self.all_functions() if f.is_njit]

    def stats(self) -> Dict[str, int]:
        nfun = sum(len(m.functions) for m in self.modules.values())
        ncalls = 0
        for m in self.modules.values():
            for n in ast.walk(m.tree):
                if isinstance(n, ast.Call):
                    ncalls += 1
        return {
            "files": len(self.parsed_files),
            "functions": nfun,
            "njit_functions": len(self.kernels()),
            "call_expressions": ncalls,
        }


# ---------------------------------------------------------------------- small ast helpers

def walk_no_nested(node: ast.AST) -> Iterator[ast.AST]:
    """ast.walk that does not descend into nested function/class/lambda definitions."""
    stack = [node]
    first = True
    while stack:
        n = stack.pop()
        if not first and isinstance(n, (ast.FunctionDef, ast.AsyncFunctionDef, ast.ClassDef, ast.Lambda)):
            continue
        first = False
        yield n
        stack.extend(reversed(list(ast.iter_child_nodes(n))))


def body_nodes(func: Func) -> Iterator[ast.AST]:
    for st in func.node.body:
        yield from walk_no_nested(st)


def names_in(node: ast.AST) -> set:
    return {n.id for n in ast.walk(node) if isinstance(n, ast.Name)}


def is_name(node, name: str) -> bool:
    return isinstance(node, ast.Name) and node.id == name


def attr_chain(node) -> Optional[Tuple[str, ...]]:
    """('self','_group_ikey','chunks') for self._group_ikey.chunks; None if not a pure chain."""
    parts = []
    while isinstance(node, ast.Attribute):
        parts.append(node.attr)
        node = node.value
    if isinstance(node, ast.Name):
        parts.append(node.id)
        return tuple(reversed(parts))
    return None


def call_name(call: ast.Call) -> Optional[str]:
    c = attr_chain(call.func)
    return ".".join(c) if c else None


def const_str(node) -> Optional[str]:
    if isinstance(node, ast.Constant) and isinstance(node.value, str):
        return node.value
    return None


def docstring_stripped(body: list) -> list:
    if body and isinstance(body[0], ast.Expr) and isinstance(body[0].value, ast.Constant) \
            and isinstance(body[0].value.value, str):
        return body[1:]
    return body


def eval_bool(test: ast.AST, leaf) -> Optional[bool]:
    """three-valued evaluation of a branch test: `leaf(expr)` gives True / False / None for an atom; not / and / or are
    evaluated with Kleene logic.  Rules use it to find the arm a condition selects under an assumption, instead of relying on
    the polarity or the order in which the author happened to write the test (De Morgan, swapped arms, early returns)."""
    if isinstance(test, ast.UnaryOp) and isinstance(test.op, ast.Not):
        v = eval_bool(test.operand, leaf)
        return None if v is None else not v
    if isinstance(test, ast.BoolOp):
        vals = [eval_bool(v, leaf) for v in test.values]
        if isinstance(test.op, ast.And):
            return False if False in vals else (None if None in vals else True)
        return True if True in vals else (None if None in vals else False)
    return leaf(test)
