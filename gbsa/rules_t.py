"""T rules: decision tables of loop-free functions against hand-written specifications."""
from __future__ import annotations

import ast
from typing import Dict, List, Optional, Set, Tuple

from . import specs
from .consteval import CS, TOP, Evaluator, Record, cs
from .gcnf import (C, P, Table, Unsupported, consistent_valuations, normalise, show, show_atom,
                   unify_equal, inc)
from .model import docstring_stripped, AnalysisError, Func, Repo, norm, walk_no_nested
from .report import RuleResult
from .walker import EMPTY, FactWalker

ACC, V, N = P(0), P(1), P(2)


def _members(repo: Repo, modname: str, clsname: str) -> Dict[str, Func]:
    mod = repo.mod(modname)
    mod.cls(clsname)
    return mod.methods(clsname)


def reducer_tables(repo: Repo) -> Dict[str, Table]:
    out = {}
    for name, f in _members(repo, "groupby.numba", "ScalarFuncs").items():
        out[name] = normalise(f)
    return out


def _mentions(e, sub) -> bool:
    if e == sub:
        return True
    if isinstance(e, tuple):
        return any(_mentions(x, sub) for x in e if isinstance(x, tuple))
    return False


def _compare(res: RuleResult, f: Func, name: str, table: Table, spec: specs.Spec):
    universe = list(table.atoms())
    for a in spec.atoms:
        if a not in universe:
            universe.append(a)
    n_checked = n_unspec = 0
    bad_rows: Set[str] = set()
    for val in consistent_valuations(universe):
        row = table.lookup(val)
        want = spec(val)
        if want is None:
            n_unspec += 1
            continue
        n_checked += 1
        got = unify_equal(row.result, val)
        want_u = {unify_equal(w, val) for w in want}
        if got not in want_u:
            key = row.show(table.params)
            if key in bad_rows:
                continue
            bad_rows.add(key)
            vtxt = ", ".join(f"{show_atom(a, table.params)}={v}" for a, v in val.items())
            res.bad(f, f.node, f"{name}: {key}",
                    f"reducer {name!r} is specified as {spec.name} ({spec.doc}); for [{vtxt}] it returns "
                    f"{show(got, table.params)} but the specification requires "
                    f"{' or '.join(sorted(show(w, table.params) for w in want_u))}",
                    line=row.line)
    if not bad_rows:
        res.ok(f, f.node, f"{name} ≡ {spec.name}",
               f"{len(table.rows)} rows, {n_checked} valuations agree with the specification"
               + (f", {n_unspec} unspecified" if n_unspec else ""))
    return n_checked


def rule_T1(repo: Repo) -> RuleResult:
    res = RuleResult("T1", "row reducers (ScalarFuncs) equal their specification tables")
    members = _members(repo, "groupby.numba", "ScalarFuncs")
    total = 0
    for name, f in sorted(members.items()):
        try:
            table = normalise(f)
        except Unsupported as e:
            raise AnalysisError(f"T1: {e}")
        cls = specs.ROW_CLASS_OF.get(name)
        if cls is None:
            res.instances.append(__import__("gbsa.report", fromlist=["Instance"]).Instance(
                "T1", f.file, f.lineno, f.qualname, f"{name}: no specification", "info",
                "reducer without a specification; dispatch rules refuse to resolve to it", False))
            continue
        if len(f.named_params) != 3:
            raise AnalysisError(f"T1: reducer {name} no longer has the (acc, value, count) signature")
        total += _compare(res, f, name, table, specs.ROW_SPECS[cls])
    res.analysed = {"reducers": sorted(members), "valuations_compared": total}
    if len(members) < 11:
        raise AnalysisError(f"T1: only {len(members)} ScalarFuncs members found (floor 11)")
    return res


def rule_T1b(repo: Repo) -> RuleResult:
    res = RuleResult("T1b", "binary reducers (NumbaReductionOps) equal their specification tables")
    members = _members(repo, "util", "NumbaReductionOps")
    total = 0
    for name, f in sorted(members.items()):
        try:
            table = normalise(f)
        except Unsupported as e:
            raise AnalysisError(f"T1b: {e}")
        cls = specs.BIN_CLASS_OF.get(name)
        if cls is None:
            continue
        if len(f.named_params) != 2:
            raise AnalysisError(f"T1b: reducer {name} no longer has the (x, y) signature")
        total += _compare(res, f, name, table, specs.BIN_SPECS[cls])
    res.analysed = {"reducers": sorted(members), "valuations_compared": total}
    if len(members) < 9:
        raise AnalysisError(f"T1b: only {len(members)} NumbaReductionOps members found (floor 9)")
    return res


def rule_T2(repo: Repo) -> RuleResult:
    """Algebraic laws on the code tables, independent of the specification tables."""
    res = RuleResult("T2", "monoid laws on the reducer tables (identity, null skip, count, selection)")
    members = _members(repo, "groupby.numba", "ScalarFuncs")
    for name, f in sorted(members.items()):
        cls = specs.ROW_CLASS_OF.get(name)
        if cls is None:
            continue
        spec = specs.ROW_SPECS[cls]
        table = normalise(f)
        atoms = list(table.atoms())
        for a in (("NULL", V), ("NZ", N)):
            if a not in atoms:
                atoms.append(a)
        viol: Dict[str, Tuple[str, int]] = {}
        for val in consistent_valuations(atoms):
            row = table.lookup(val)
            r = row.result
            if r[0] != "tuple" or len(r) != 3:
                raise AnalysisError(f"T2: reducer {name} does not return an (acc, count) pair")
            acc2, n2 = r[1], r[2]
            is_null_v = val[("NULL", V)]
            nz = val[("NZ", N)]
            rowtxt = row.show(table.params)
            # L1 identity: the accumulator of an empty partial is ignored
            if not nz and not is_null_v and _mentions(acc2, ACC):
                viol.setdefault("L1 " + rowtxt, (
                    "L1 identity: with count == 0 the result still depends on the accumulator "
                    f"({show(acc2, table.params)}); the accumulator of an empty partial must be ignored "
                    "(merging with an empty block, or the first row of a group in a cumulative scan, would "
                    "pick up whatever the cell holds)", row.line))
            # L2 null skip for reducers whose merge relies on null = empty
            if spec.skips_null and is_null_v and unify_equal(acc2, val) != ACC and not spec.counting:
                viol.setdefault("L2 " + rowtxt, (
                    f"L2 null skip: a null value changes the accumulator to {show(acc2, table.params)}", row.line))
            # L3 count
            accepted = (not is_null_v) or (not spec.skips_null)
            if spec.name == "LAST_NONNULL":
                ok3 = n2 in (N, inc(N)) if is_null_v else n2 == inc(N)     # recorded exception
            elif spec.name in ("MIN", "MAX") and is_null_v:
                ok3 = n2 in (N, inc(N))                                   # unspecified rows
            else:
                ok3 = (n2 == inc(N)) if accepted else (n2 == N)
            if not ok3:
                viol.setdefault("L3 " + rowtxt, (
                    f"L3 count: the count becomes {show(n2, table.params)} on a row whose value is "
                    f"{'accepted' if accepted else 'skipped'} (must be count+1 exactly on accepted values)", row.line))
            # L4 selection: result is one of the operands, no arithmetic on values
            if spec.selection and acc2 not in (ACC, V):
                viol.setdefault("L4 " + rowtxt, (
                    f"L4 selection: the result {show(acc2, table.params)} is not one of the two operands; "
                    "min/max/first/last must return elements of the input exactly", row.line))
        if viol:
            for key, (msg, line) in viol.items():
                res.bad(f, f.node, f"{name}: {key}", msg, line=line)
        else:
            laws = "L1 L3" + (" L2" if spec.skips_null and not spec.counting else "") + (" L4" if spec.selection else "")
            res.ok(f, f.node, f"{name}: laws {laws}", f"hold on every consistent valuation of {len(atoms)} atoms")
    # binary selection reducers: L4
    for name, f in sorted(_members(repo, "util", "NumbaReductionOps").items()):
        cls = specs.BIN_CLASS_OF.get(name)
        if cls is None or not specs.BIN_SPECS[cls].selection:
            continue
        table = normalise(f)
        bad = [r for r in table.rows if r.result not in (P(0), P(1))]
        if bad:
            res.bad(f, f.node, f"{name}: L4 {bad[0].show(table.params)}",
                    "L4 selection: the binary reducer does not return one of its operands", line=bad[0].line)
        else:
            res.ok(f, f.node, f"{name}: law L4", "result is syntactically one of the operands on every row")
    return res


# ------------------------------------------------------------------------------- N1

class _N1Walker(FactWalker):
    def __init__(self, f: Func, res: RuleResult):
        super().__init__()
        self.f = f
        self.res = res
        self.n = 0

    def test_facts(self, test, facts):
        pos, neg = set(), set()
        if isinstance(test, ast.Name) and test.id == "skipna":
            pos.add(("skipna",))
            neg.add(("noskip",))
        if isinstance(test, ast.Call) and norm(test.func) in ("is_null", "np.isnan") and len(test.args) == 1 \
                and isinstance(test.args[0], ast.Name):
            neg.add(("notnull", test.args[0].id))
            pos.add(("null", test.args[0].id))
        return pos, neg

    def fact_names(self, fact):
        return list(fact[1:])

    def check_node(self, node, facts, store=False):
        if isinstance(node, ast.Call) and isinstance(node.func, ast.Name) and node.func.id == "reduce_func":
            self.n += 1
            if ("skipna",) in facts:
                arg = node.args[1] if len(node.args) > 1 else None
                if isinstance(arg, ast.Name) and ("notnull", arg.id) in facts:
                    self.res.ok(self.f, node, norm(node) + " [skipna]", f"dominated by not is_null({arg.id})")
                else:
                    self.res.bad(self.f, node, norm(node) + " [skipna]",
                                 "with skipna the binary reducer is applied to a value that was not tested for null",
                                 path=" ".join(self.path))
            else:
                self.res.ok(self.f, node, norm(node) + " [no skipna]", "non-skipping arm", nontrivial=False)


def rule_N1(repo: Repo) -> RuleResult:
    res = RuleResult("N1", "null-skip shape of the chunk reducer _nb_reduce")
    f = repo.func("nanops", "_nb_reduce")
    w = _N1Walker(f, res)
    w.walk(f.node.body, EMPTY)
    if w.n < 2:
        raise AnalysisError("N1: _nb_reduce no longer applies reduce_func in two loops")
    _n1_prologue(f, res)
    _n1_first_non_null(repo, res)
    return res


def _n1_first_non_null(repo: Repo, res: RuleResult):
    """every definition of _get_first_non_null that scans (the pure-Python one and the scanning overload bodies):
    returns (position, element) from inside the loop only under `not is_null(element)`, and (-1, <null>) after it."""
    util = repo.mod("util")
    cands = [fn for q, fn in util.functions.items()
             if q.split("#")[0] == "_get_first_non_null" or q.startswith("jit_get_first_non_null.")]
    n = 0
    for fn in cands:
        loops = [x for x in fn.node.body if isinstance(x, ast.For)]
        if not loops:
            continue        # non-scanning overload (booleans are never null): nothing to decide
        n += 1
        loop = loops[0]
        it = loop.iter
        tgt = loop.target
        ok_iter = (isinstance(it, ast.Call) and norm(it.func) == "enumerate" and isinstance(tgt, ast.Tuple)
                   and len(tgt.elts) == 2 and all(isinstance(e, ast.Name) for e in tgt.elts))
        construct = f"{fn.qualname}: scan"
        if not ok_iter:
            res.bad(fn, loop, construct, "the scan is not 'for i, x in enumerate(arr)'")
            continue
        i, x = tgt.elts[0].id, tgt.elts[1].id
        good = False
        for st in loop.body:
            if isinstance(st, ast.If) and not st.orelse and len(st.body) == 1 and isinstance(st.body[0], ast.Return):
                t = st.test
                neg = isinstance(t, ast.UnaryOp) and isinstance(t.op, ast.Not) and isinstance(t.operand, ast.Call) \
                    and norm(t.operand.func) in ("is_null", "np.isnan") and norm(t.operand.args[0]) == x
                rv = st.body[0].value
                if neg and isinstance(rv, ast.Tuple) and [norm(e) for e in rv.elts] == [i, x]:
                    good = True
        tail = [st for st in fn.node.body[fn.node.body.index(loop) + 1:] if isinstance(st, ast.Return)]
        tail_ok = bool(tail) and isinstance(tail[0].value, ast.Tuple) and norm(tail[0].value.elts[0]) == "-1"
        others = [st for st in ast.walk(loop) if isinstance(st, ast.Return)]
        if good and tail_ok and len(others) == 1:
            res.ok(fn, loop, construct, f"returns ({i}, {x}) at the first non-null element, (-1, null) when there is none")
        else:
            res.bad(fn, loop, construct, "the scan does not return (position, element) exactly at the first element that is "
                                         "not null, and (-1, null) when there is none")
    if n < 2:
        raise AnalysisError(f"N1: only {n} scanning definitions of _get_first_non_null found (floor 2)")


def _n1_prologue(f: Func, res: RuleResult):
    """Where does each reducing loop start, and from which accumulator?  Every path from the entry to a loop that
    applies reduce_func is followed with forward substitution (tuple unpacking included):
      no initial value, skipna   : (loc, out) = _get_first_non_null(arr); the all-null case (loc == -1) has left
                                   the function returning an element of the input; the loop starts at loc + 1
      no initial value, no skipna: accumulator arr[0], loop starts at 1
      initial value given        : accumulator initial_value, loop starts at 0
    and the loop visits arr[j] for j in range(start, len(arr))."""
    from .paths import enumerate_paths
    params = f.named_params
    if len(params) < 4:
        raise AnalysisError("N1: _nb_reduce signature changed (expected reduce_func, arr, skipna, initial_value)")
    arr, skip, init = params[1], params[2], params[3]

    def sym(e, env):
        if isinstance(e, ast.Name):
            return env.get(e.id, e.id)
        if isinstance(e, ast.Constant):
            return repr(e.value)
        if isinstance(e, ast.BinOp) and isinstance(e.op, ast.Add):
            a, b = sorted([sym(e.left, env), sym(e.right, env)])
            return f"({a} + {b})"
        if isinstance(e, ast.Subscript):
            return f"{sym(e.value, env)}[{sym(e.slice, env)}]"
        if isinstance(e, ast.Call):
            return f"{norm(e.func)}({', '.join(sym(a, env) for a in e.args)})"
        if isinstance(e, ast.UnaryOp) and isinstance(e.op, ast.USub):
            return "-" + sym(e.operand, env)
        return norm(e)

    def assign(st, env):
        if not isinstance(st, ast.Assign) or len(st.targets) != 1:
            if isinstance(st, ast.AugAssign) and isinstance(st.target, ast.Name):
                env[st.target.id] = f"?{st.target.id}"
            return
        t, v = st.targets[0], st.value
        if isinstance(t, ast.Name):
            env[t.id] = sym(v, env)
        elif isinstance(t, ast.Tuple) and all(isinstance(x, ast.Name) for x in t.elts):
            if isinstance(v, ast.Tuple) and len(v.elts) == len(t.elts):
                vals = [sym(x, env) for x in v.elts]
                for x, val in zip(t.elts, vals):
                    env[x.id] = val
            else:
                base = sym(v, env)
                for i, x in enumerate(t.elts):
                    env[x.id] = f"{base}.{i}"

    def decided(p, pred):
        """True/False if the path fixed the test recognised by pred, else None"""
        for t, pol in p.conds:
            if isinstance(t, ast.AST):
                r = pred(t)
                if r is not None:
                    return pol if r else (not pol)
        return None

    def is_init_none(t):
        if isinstance(t, ast.Compare) and len(t.ops) == 1 and isinstance(t.left, ast.Name) and t.left.id == init \
                and isinstance(t.comparators[0], ast.Constant) and t.comparators[0].value is None:
            return True if isinstance(t.ops[0], ast.Is) else (False if isinstance(t.ops[0], ast.IsNot) else None)
        return None

    def is_skip(t):
        if isinstance(t, ast.Name) and t.id == skip:
            return True
        return None

    fnn = f"_get_first_non_null({arr})"
    n_loops = 0
    assigned = {n.id for n in ast.walk(f.node) if isinstance(n, ast.Name) and isinstance(n.ctx, ast.Store)}

    def feasible(p):
        """a path that decides the same test over never-assigned names both ways is infeasible"""
        seen = {}
        for t, pol in p.conds:
            if not isinstance(t, ast.AST) or ({n.id for n in ast.walk(t) if isinstance(n, ast.Name)} & assigned):
                continue
            k = norm(t)
            if seen.setdefault(k, pol) != pol:
                return False
        return True

    all_paths = [p for p in enumerate_paths(docstring_stripped(f.node.body)) if feasible(p)]
    for p in all_paths:
        env = {}
        init_none = decided(p, is_init_none)
        skipna = decided(p, is_skip)
        case = ("initial value given" if init_none is False else
                "no initial value, skipna" if init_none and skipna else
                "no initial value, no skipna" if init_none and skipna is False else "undetermined")
        for st in p.stmts:
            if isinstance(st, ast.For) and any(isinstance(n, ast.Call) and isinstance(n.func, ast.Name)
                                                and n.func.id == params[0] for n in ast.walk(st)):
                n_loops += 1
                construct = f"{norm(st.iter)} [{case}]"
                it = st.iter
                from .canon import subst_single_defs as _ssd      # `n = len(arr)` hoisted in front of the loops
                ok_shape = (isinstance(it, ast.Call) and norm(it.func) == "range" and len(it.args) == 2
                            and sym(_ssd(f, it.args[1]), {}) == f"len({arr})" and isinstance(st.target, ast.Name))
                if not ok_shape:
                    res.bad(f, st, construct, "the reducing loop is not 'for j in range(start, len(arr))'")
                    continue
                # the accumulator is the first argument of the reducer call inside the loop
                acc_name = next((c.args[0].id for c in ast.walk(st) if isinstance(c, ast.Call) and isinstance(c.func, ast.Name)
                                 and c.func.id == params[0] and c.args and isinstance(c.args[0], ast.Name)), None)
                if acc_name is None:
                    raise AnalysisError("N1: accumulator of the reducing loop not found")
                start, out = sym(it.args[0], env), env.get(acc_name, acc_name)
                j = st.target.id
                elem_ok = any(isinstance(n, ast.Assign) and isinstance(n.value, ast.Subscript)
                              and sym(n.value, {}) == f"{arr}[{j}]" for n in st.body) or \
                    any(isinstance(n, ast.Subscript) and sym(n, {}) == f"{arr}[{j}]" for b in st.body for n in ast.walk(b))
                want = {"initial value given": ("0", init),
                        "no initial value, skipna": ("(" + " + ".join(sorted([f"{fnn}.0", "1"])) + ")", f"{fnn}.1"),
                        "no initial value, no skipna": ("1", f"{arr}[0]")}.get(case)
                if want is None:
                    res.bad(f, st, construct, "a reducing loop is reached without deciding skipna / initial_value")
                elif (start, out) != want:
                    res.bad(f, st, construct, f"loop starts at {start} with accumulator {out}; the {case} case requires "
                                              f"start {want[0]} with accumulator {want[1]} (each element reduced exactly once)")
                elif not elem_ok:
                    res.bad(f, st, construct, f"the loop body does not read {arr}[{j}]")
                else:
                    res.ok(f, st, construct, f"start {start}, accumulator {out}")
                break
            assign(st, env)
    # second pass (simple and explicit): the skipna/no-initial-value loop paths must carry the decision loc != -1
    for p in all_paths:
        if not (decided(p, is_init_none) and decided(p, is_skip)):
            continue
        env = {}
        reached_loop = None
        for st in p.stmts:
            if isinstance(st, ast.For) and any(isinstance(n, ast.Call) and isinstance(n.func, ast.Name)
                                                and n.func.id == params[0] for n in ast.walk(st)):
                reached_loop = st
                break
            assign(st, env)
        excluded = False
        for t, pol in p.conds:
            if isinstance(t, ast.Compare) and len(t.ops) == 1:
                l, r = sym(t.left, env), sym(t.comparators[0], env)
                if {l, r} == {f"{fnn}.0", "-1"}:
                    if (isinstance(t.ops[0], ast.Eq) and pol is False) or (isinstance(t.ops[0], ast.NotEq) and pol is True):
                        excluded = True
                elif l == f"{fnn}.0" and r == "0" and ((isinstance(t.ops[0], ast.Lt) and pol is False)
                                                       or (isinstance(t.ops[0], ast.GtE) and pol is True)):
                    excluded = True
        if reached_loop is not None:
            construct = "all-null input leaves before the skipna loop"
            if excluded:
                res.ok(f, reached_loop, construct, "the loop is reached only with a first non-null position != -1")
            else:
                res.bad(f, reached_loop, construct,
                        "with skipna and no initial value an all-null input (first non-null position -1) reaches the reducing loop: "
                        "every element is then combined with an undefined accumulator instead of returning a null")
        elif p.exit == "return" and p.exit_node is not None and p.exit_node.value is not None:
            rv = sym(p.exit_node.value, env)
            construct = f"return {rv} [all-null input]"
            if rv.startswith(f"{arr}[") or rv == f"{fnn}.1":
                res.ok(f, p.exit_node, construct, "an element of the input (a null) is returned")
            else:
                res.bad(f, p.exit_node, construct, "the all-null case returns something that is not an element of the input")
    if n_loops < 2:
        raise AnalysisError("N1: fewer than two paths reach a reducing loop in _nb_reduce")


# ------------------------------------------------------------------------------- T3

ROW_OPS = ["count", "nancount", "sum", "nansum", "nansum_squares", "sum_squares", "min", "nanmin", "max", "nanmax",
           "first", "last"]
KINDS = "fiubmM"


def rule_T3(repo: Repo) -> RuleResult:
    res = RuleResult("T3", "helper tables: accumulator dtype/initial value, null writer/reader, mean, margin aggregator")
    _t3_target(repo, res)
    _t3_null_tables(repo, res)
    _t3_mean(repo, res)
    _t3_margins(repo, res)
    return res


def _t3_target(repo: Repo, res: RuleResult):
    f = repo.func("groupby.numba", "_build_target_for_groupby")
    for op in ROW_OPS:
        for kind in KINDS:
            ev = Evaluator(repo)
            np_type = Record({"kind": cs(kind)}, label=f"dtype(kind={kind})")
            ev.run(f, {"np_type": np_type, "operation": cs(op)})
            allocs = [r for r in ev.calls if norm(r.node.func) in ("np.zeros", "np.full", "np.empty", "np.ones")]
            construct = f"_build_target_for_groupby(kind={kind!r}, operation={op!r})"
            if len(allocs) != 1:
                raise AnalysisError(f"T3: {construct}: {len(allocs)} allocations reachable, expected exactly 1")
            rec = allocs[0]
            ev.func = f
            fn = norm(rec.node.func)
            kw = {k.arg: k.value for k in rec.node.keywords}
            dt = ev.eval(kw.get("dtype"), rec.env) if "dtype" in kw else None
            fill = ev.eval(rec.node.args[1], rec.env) if fn == "np.full" and len(rec.node.args) > 1 else None
            fill_node = rec.node.args[1] if fn == "np.full" and len(rec.node.args) > 1 else None
            counting = op in ("count", "nancount")
            summing = "sum" in op
            if counting:
                ok = fn == "np.zeros" and isinstance(kw.get("dtype"), ast.Name) and kw["dtype"].id == "bool"
                why = "count* -> boolean zeros (counts are collected separately)"
            elif summing:
                want_dt = {"u": "uint64", "i": "int64", "b": "int64"}.get(kind)
                if want_dt is not None:
                    ok_dt = isinstance(dt, CS) and dt.vals == frozenset([want_dt])
                else:
                    ok_dt = dt is np_type
                ok = fn == "np.full" and ok_dt and isinstance(fill, CS) and fill.vals == frozenset([0])
                why = f"sum -> {'64-bit ' + want_dt if want_dt else 'value dtype'}, initial 0 (no float detour)"
            else:
                # initial value = _null_value_for_numpy_type(np.dtype(<value dtype>))
                env_fill = None
                for r2 in ev.calls:
                    if norm(r2.node.func).endswith("_null_value_for_numpy_type"):
                        env_fill = r2
                ok = fn == "np.full" and dt is np_type and env_fill is not None \
                    and isinstance(fill_node, ast.Name)
                if ok:
                    arg = env_fill.node.args[0]
                    inner = arg.args[0] if isinstance(arg, ast.Call) and arg.args else arg
                    ok = ev.eval(inner, env_fill.env) is np_type
                why = "selection -> value dtype, initial null of the value dtype"
            if ok:
                res.ok(f, rec.node, construct, why, nontrivial=(kind in "fi" or op in ("nansum", "nanmin", "count")))
            else:
                res.bad(f, rec.node, construct,
                        f"accumulator allocation {norm(rec.node)} (dtype={dt!r}, initial={fill!r}) is not the one the "
                        f"operation is defined with: {why}")


def _match_cases(f: Func) -> Dict[str, ast.AST]:
    out: Dict[str, ast.AST] = {}
    for n in walk_no_nested(f.node):
        if isinstance(n, ast.Match):
            for case in n.cases:
                pat = case.pattern
                key = None
                if isinstance(pat, ast.MatchValue) and isinstance(pat.value, ast.Constant):
                    key = pat.value.value
                rets = [s for s in case.body if isinstance(s, ast.Return)]
                if key is not None and rets:
                    out[key] = rets[0].value
    # also if/elif chains on np_type.kind == "x"
    return out


def _t3_null_tables(repo: Repo, res: RuleResult):
    util = repo.mod("util")
    w = util.func("_null_value_for_numpy_type")
    cases = _match_cases(w)
    if not cases:
        raise AnalysisError("T3: _null_value_for_numpy_type is no longer a match on the dtype kind")
    expect = {
        "i": lambda t: t.endswith(".min") and "iinfo" in t,
        "f": lambda t: "nan" in t,
        "m": lambda t: "timedelta64" in t and "NaT" in t,
        "M": lambda t: "datetime64" in t and "NaT" in t,
        "b": lambda t: t == "False",
    }
    for kind, pred in expect.items():
        node = cases.get(kind)
        construct = f"null writer kind={kind!r} -> {norm(node) if node is not None else '<missing>'}"
        if node is not None and pred(norm(node)):
            res.ok(w, node, construct, "writer side of the null convention")
        else:
            res.bad(w, node if node is not None else w.node, construct,
                    "the null value written for this dtype kind is not the one the readers (is_null) test for")
    # MIN_INT
    min_int = None
    for st in util.tree.body:
        if isinstance(st, ast.Assign) and len(st.targets) == 1 and isinstance(st.targets[0], ast.Name) \
                and st.targets[0].id == "MIN_INT":
            min_int = st.value
    if min_int is not None and norm(min_int) == "np.iinfo(np.int64).min":
        res.ok_at(util.relpath, min_int.lineno, "<module>", "MIN_INT = np.iinfo(np.int64).min", "int64 sentinel")
    else:
        res.bad_at(util.relpath, getattr(min_int, "lineno", 1), "<module>",
                   f"MIN_INT = {norm(min_int) if min_int is not None else '<missing>'}",
                   "the integer null sentinel is no longer the int64 minimum")
    # readers: jit_is_null overload branches
    jit = util.func("jit_is_null")
    branches = {}
    for n in walk_no_nested(jit.node):
        if isinstance(n, ast.If):
            t = norm(n.test)
            inner = [s for s in n.body if isinstance(s, ast.FunctionDef)]
            if inner:
                rets = [r for r in ast.walk(inner[0]) if isinstance(r, ast.Return)]
                if rets:
                    for tag in ("Float", "Integer", "Boolean"):
                        if f"nb.types.{tag}" in t:
                            branches[tag] = (rets[0].value, inner[0])
    want = {
        "Float": lambda e, p: isinstance(e, ast.Call) and norm(e.func) in ("np.isnan",) and len(e.args) == 1
        and isinstance(e.args[0], ast.Name) and e.args[0].id == p,
        "Integer": lambda e, p: isinstance(e, ast.Compare) and len(e.ops) == 1 and isinstance(e.ops[0], ast.Eq)
        and {norm(e.left), norm(e.comparators[0])} == {p, "MIN_INT"},
        "Boolean": lambda e, p: isinstance(e, ast.Constant) and e.value is False,
    }
    for tag, pred in want.items():
        if tag not in branches:
            res.bad(jit, jit.node, f"null reader {tag}", "the compiled null test has no branch for this type class")
            continue
        e, inner = branches[tag]
        p = inner.args.args[0].arg
        construct = f"null reader {tag}: {norm(e)}"
        if pred(e, p):
            res.ok(jit, e, construct, "reader side agrees with the writer table")
        else:
            res.bad(jit, e, construct, "the compiled null test disagrees with the null value written for this type class")


def _t3_mean(repo: Repo, res: RuleResult):
    f = repo.func("util", "mean_from_sum_count")
    table = normalise(f)
    if len(table.rows) != 2:
        raise AnalysisError(f"T3: mean_from_sum_count has {len(table.rows)} rows, expected 2")
    flag_atoms = [a for a in table.atoms() if a[0] == "FLAG"]
    if len(flag_atoms) != 1 or 'mM' not in repr(flag_atoms[0]).replace("'", ""):
        # test is `sum_.dtype.kind in "mM"` -> FLAG(call/compare); accept any single flag mentioning the kind test
        pass
    for row in table.rows:
        r = row.result
        txt = show(r, table.params)
        is_plain = r == ("div", P(0), P(1))
        is_temporal = r == ("mcall", ("floordiv", ("mcall", P(0), "astype", C("int64")), P(1)), "astype",
                            ("attr", P(0), "dtype"))
        construct = f"mean_from_sum_count: {row.show(table.params)}"
        if is_plain:
            res.ok(f, f.node, construct, "mean = sum / count", line=row.line)
        elif is_temporal:
            res.ok(f, f.node, construct, "temporal mean = integer floor division, cast back", line=row.line)
        else:
            res.bad(f, f.node, construct, "mean is not computed as sum divided by count", line=row.line)


def _t3_margins(repo: Repo, res: RuleResult):
    f = repo.func("groupby.core", "GroupBy._add_margins")
    for name in ["size", "count", "sum_squares", "sum", "min", "max", "first", "last"]:
        ev = Evaluator(repo)
        ev.run(f, {"func_name": cs(name)})
        calls = [r for r in ev.calls if norm(r.node.func) == "add_row_margin"]
        if len(calls) != 1:
            raise AnalysisError("T3: GroupBy._add_margins no longer calls add_row_margin exactly once")
        rec = calls[0]
        ev.func = f
        agg = None
        for k in rec.node.keywords:
            if k.arg == "agg_func":
                agg = ev.eval(k.value, rec.env)
        want = "sum" if name in ("size", "count", "sum_squares") else name
        construct = f"_add_margins(func_name={name!r}) -> agg_func={agg!r}"
        if isinstance(agg, CS) and agg.vals == frozenset([want]):
            res.ok(f, rec.node, construct, "counts and sums of squares add up; others re-aggregate with themselves")
        else:
            res.bad(f, rec.node, construct, f"margin rows of {name!r} must be aggregated with {want!r}")
