"""Thorough tier: checker self-validation on the *current* tree (DESIGN.md section 7).

For every rule of the property a list of variants of the current source is derived in memory:

* ``break`` variants re-introduce one specific way of violating the rule at one instance
  (guard deleted, argument dropped, restore put under an extra test, ...).  The rule, run on the
  variant, must report a violation *that is not reported on the unchanged tree*, located in the
  function the variant names.
* ``keep`` variants are behaviour-preserving rewrites of the same constructs (guard inverted and
  branches swapped, keyword <-> positional, a local alias introduced, ...).  The rule must stay
  silent: no new violation and no ANALYSIS-ERROR.

A variant is an edit of the *normalised text* (``ast.unparse``) of one function of the working
tree; the edited module is re-parsed, the whole repository model is rebuilt with that module
overridden (``Repo(overrides=...)``) and the single rule is re-run.  Nothing is executed, nothing
is written to disk.  A variant whose ``old`` fragment is not present in the current tree (the
code was legitimately changed) is *inapplicable*: it is counted and listed, never a failure.
A rule whose variants are all inapplicable is reported as ``selftest-degraded`` in the evidence.

A surviving ``break`` variant or a firing ``keep`` variant is ``SELFTEST-FAIL`` (exit 2: the
checker cannot be trusted on this tree — never reported as a violation of the property).
"""
from __future__ import annotations

import ast
import copy
import os
import random
import time
import traceback
from concurrent.futures import ProcessPoolExecutor
from dataclasses import dataclass, field
from typing import Callable, Dict, List, Optional, Tuple

from .model import AnalysisError, Repo


@dataclass
class Variant:
    rule: str                  # base rule id, e.g. "K1"
    kind: str                  # "break" | "keep"
    mod: str                   # module name, e.g. "groupby.numba"
    func: str                  # function qualname whose text is edited
    old: str                   # fragment of ast.unparse(function) to replace
    new: str
    name: str = ""
    expect_func: Optional[str] = None   # where the violation must be reported (default: func, last component match)
    count: int = 1             # how many occurrences to replace (0 = all)
    occurrence: int = 0        # which occurrence (0-based) when count == 1
    also: Tuple = ()           # further (mod, func, old, new) edits applied together (cooperating sites)
    accept_error: bool = False  # an ANALYSIS-ERROR counts as detection (anchor-removal variants only)

    def label(self) -> str:
        return self.name or f"{self.rule}/{self.kind}/{self.func}: {self.old[:40]!r} -> {self.new[:40]!r}"


class Inapplicable(Exception):
    pass


def _find_func_node(tree: ast.Module, qualname: str):
    """Return (parent_body_list, index, node) of the function with this qualname; 'a.f#2' is the second
    definition of f inside a (the model's numbering of re-definitions, e.g. overload bodies)."""
    qualname, _, nth = qualname.partition("#")
    want = int(nth) if nth else 1
    parts = qualname.split(".")
    hits = []

    def search(body, parts):
        for i, st in enumerate(body):
            if isinstance(st, (ast.FunctionDef, ast.AsyncFunctionDef, ast.ClassDef)) and st.name == parts[0]:
                if len(parts) == 1:
                    if not isinstance(st, ast.ClassDef):
                        hits.append((body, i, st))
                else:
                    search(st.body, parts[1:])
            elif isinstance(st, (ast.If, ast.Try, ast.With, ast.For, ast.While)):
                for fld in ("body", "orelse", "finalbody"):
                    sub = getattr(st, fld, None)
                    if sub:
                        search(sub, parts)
                for h in getattr(st, "handlers", []) or []:
                    search(h.body, parts)

    search(tree.body, parts)
    return hits[want - 1] if len(hits) >= want else None


def _edit_module(tree: ast.Module, qualname: str, old: str, new: str, count: int, occurrence: int) -> None:
    found = _find_func_node(tree, qualname)
    if not found:
        raise Inapplicable(f"function {qualname} not found")
    body, i, node = found
    text = ast.unparse(node)
    n = text.count(old)
    if n == 0:
        raise Inapplicable(f"fragment not present in {qualname}: {old[:60]!r}")
    if count == 0:
        text2 = text.replace(old, new)
    else:
        if occurrence >= n:
            raise Inapplicable(f"occurrence {occurrence} of fragment not present in {qualname}")
        pos = -1
        for _ in range(occurrence + 1):
            pos = text.find(old, pos + 1)
        text2 = text[:pos] + new + text[pos + len(old):]
    try:
        newnodes = ast.parse(text2).body
    except SyntaxError as e:
        raise Inapplicable(f"edited text of {qualname} does not parse: {e}")
    body[i:i + 1] = newnodes          # an edit may add a sibling definition (e.g. a new cached property)


def build_overrides(repo: Repo, v: Variant) -> Dict[str, str]:
    edits = [(v.mod, v.func, v.old, v.new, v.count, v.occurrence)]
    for e in v.also:
        m, f, o, n = e[:4]
        edits.append((m, f, o, n, 1, 0))
    trees: Dict[str, ast.Module] = {}
    for m, f, o, n, c, occ in edits:
        if m not in repo.modules:
            raise Inapplicable(f"module {m} not found")
        if m not in trees:
            trees[m] = ast.parse(repo.modules[m].source)     # the source as written (before normalize.py)
        _edit_module(trees[m], f, o, n, c, occ)
    out = {}
    for m, t in trees.items():
        ast.fix_missing_locations(t)
        src = ast.unparse(t)
        compile(src, repo.modules[m].relpath, "exec")   # the variant must still compile
        out[repo.modules[m].relpath] = src
    return out


def _viol_keys(res) -> set:
    return {(x.rule, x.file, x.function, x.construct) for x in res.violations}


_BASE: Dict[str, set] = {}
_ROOT = None


def _baseline(rule: str, root: str) -> set:
    key = (rule, root)
    if key not in _BASE:
        from . import registry
        _BASE[key] = _viol_keys(registry.RULES[rule](Repo(root)))
    return _BASE[key]


def run_variant(args) -> dict:
    v, root = args
    from . import registry
    out = {"rule": v.rule, "kind": v.kind, "name": v.label(), "function": v.func, "status": "?", "detail": ""}
    try:
        repo = Repo(root)
        try:
            ov = build_overrides(repo, v)
        except Inapplicable as e:
            out["status"] = "inapplicable"
            out["detail"] = str(e)
            return out
        base = _baseline(v.rule, root)
        try:
            res = registry.RULES[v.rule](Repo(root, overrides=ov))
        except AnalysisError as e:
            if v.kind == "break" and v.accept_error:
                out["status"] = "pass"
                out["detail"] = f"ANALYSIS-ERROR (accepted for this variant): {e}"
            else:
                out["status"] = "fail"
                out["detail"] = f"ANALYSIS-ERROR on the variant: {e}"
            return out
        new = [x for x in res.violations if (x.rule, x.file, x.function, x.construct) not in base]
        if v.kind == "break":
            want = (v.expect_func or v.func).split("#")[0]
            hit = [x for x in new if x.function == want or x.function.split(".")[-1] == want.split(".")[-1]
                   or want == "*"]
            if hit:
                out["status"] = "pass"
                out["detail"] = hit[0].text()[:300]
            elif new:
                out["status"] = "fail"
                out["detail"] = "fired, but not at the broken instance: " + new[0].text()[:240]
            else:
                out["status"] = "fail"
                out["detail"] = "the rule stayed silent on a variant that breaks this instance"
        else:
            if new:
                out["status"] = "fail"
                out["detail"] = "false alarm on a behaviour-preserving rewrite: " + new[0].text()[:240]
            else:
                out["status"] = "pass"
    except Exception as e:  # internal error of the self-test
        out["status"] = "fail"
        out["detail"] = f"internal error: {type(e).__name__}: {e}\n" + traceback.format_exc()[-600:]
    return out


def variants_for(rule_ids: List[str]) -> List[Variant]:
    from . import variant_specs
    bases = []
    for r in rule_ids:
        b = r.partition("@")[0]
        if b not in bases:
            bases.append(b)
    out = []
    for b in bases:
        out.extend(variant_specs.SPECS.get(b, []))
    return out


def run(prop: str, rule_ids: List[str], repo: Repo, seed: int, jobs: Optional[int] = None) -> dict:
    t0 = time.time()
    vs = variants_for(rule_ids)
    rnd = random.Random(seed)
    rnd.shuffle(vs)      # the seed only orders the variants; the analysis is deterministic
    jobs = jobs or min(16, os.cpu_count() or 4)
    work = [(v, repo.root) for v in vs]
    if len(work) <= 2 or jobs == 1:
        results = [run_variant(w) for w in work]
    else:
        with ProcessPoolExecutor(max_workers=jobs) as ex:
            results = list(ex.map(run_variant, work, chunksize=1))
    results.sort(key=lambda r: (r["rule"], r["kind"], r["name"]))
    bases = sorted({r.partition("@")[0] for r in rule_ids})
    per_rule = {}
    for b in bases:
        rr = [r for r in results if r["rule"] == b]
        per_rule[b] = {
            "break_pass": sum(1 for r in rr if r["kind"] == "break" and r["status"] == "pass"),
            "keep_pass": sum(1 for r in rr if r["kind"] == "keep" and r["status"] == "pass"),
            "fail": sum(1 for r in rr if r["status"] == "fail"),
            "inapplicable": sum(1 for r in rr if r["status"] == "inapplicable"),
        }
    failures = [r for r in results if r["status"] == "fail"]
    degraded = [b for b in bases if per_rule[b]["break_pass"] == 0]
    return {
        "variants": len(results),
        "breaking": sum(1 for r in results if r["kind"] == "break" and r["status"] == "pass"),
        "preserving": sum(1 for r in results if r["kind"] == "keep" and r["status"] == "pass"),
        "inapplicable": sum(1 for r in results if r["status"] == "inapplicable"),
        "failed": len(failures),
        "failures": failures,
        "per_rule": per_rule,
        "degraded_rules": degraded,
        "results": results,
        "wall_s": round(time.time() - t0, 2),
    }
