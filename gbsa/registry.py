"""Rule registry and the property -> rules map (DESIGN.md sections 0, 4, 5)."""
from __future__ import annotations

from typing import Callable, Dict

from . import rules_k

RULES: Dict[str, Callable] = {}


def _reg(mod):
    for name in dir(mod):
        if name.startswith("rule_"):
            RULES[name[len("rule_"):]] = getattr(mod, name)


_reg(rules_k)
for _m in ("rules_t", "rules_d", "rules_m", "rules_s", "rules_p", "rules_a", "rules_a1", "rules_o", "rules_e", "rules_x", "rules_y", "rules_z"):
    try:
        _mod = __import__(f"gbsa.{_m}", fromlist=["*"])
    except ImportError:
        continue
    _reg(_mod)

TRUST_COMMON = [
    "Python ast module parses /repo's working tree faithfully",
    "numba executes a kernel with the semantics of its Python source (wrap-around negative indexing, no bounds checks)",
    "third-party behaviour (pandas factorize/sort/reindex, arrow dictionary encoding, polars conversion, NumPy casting) is as documented",
]

# Every entry: rules (ids that must exist in RULES to be claimed), explanation (what is decided),
# not_decided (clauses of the property out of reach of this family), technique.
_ALL = {
    "C01": dict(
        want=["T1", "T3", "D1", "D2", "D6", "D6b", "M1", "M2", "P2", "P3", "K1@reduce", "K4@reduce", "K2", "M6", "M8", "M5", "P26", "P26b", "P2c", "K4c", "D9c"],
        explanation=("Static analysis of /repo's source. Decides: every row reducer (ScalarFuncs) normalised to a decision "
                     "table over NULL/NZ/ORD atoms equals the hand-written specification of the operation it is dispatched as "
                     "(size, count, sum, mean=sum/count, min, max, first, last); op->kernel->reducer dispatch by constant "
                     "propagation; mean is computed from sums and counts after margins; the observed-label filter is fed by "
                     "key counts with one container kind; null writer/reader tables agree; null-code guard and row counter "
                     "in the reduction loop."
                     ' Also: merges of partial results receive and skip by counts (M1, M2, D2); pointer lookups and slice-start normalisation on chunked keys (M5, M6); a key already cut by a slice is never paired with the raw mask (M8); the null code survives every re-mapping (K2); the per-group count array of the reduction loop is 64 bit (K4).'
                     ' Means by true division (P26).'
                     ' mean_from_sum_count operands are pandas objects (P26b); per-column counts (P2c).'
                     ' Typed dictionaries for combined codes are 64-bit (K4c); positional masks on chunked keys go through the whole key (D9c).'),
        not_decided=["that _group_by_reduce visits every selected row exactly once beyond K1/K6 (loop-bound arithmetic)",
                     "label-set equality with pandas; polars/arrow conversions (third party)"],
        technique="GCNF decision tables vs spec tables; constant-propagated dispatch; fact-walker dominance; path rules",
    ),
    "C02": dict(
        want=["K1@factorize", "K2", "K6@factorize", "F1", "P7", "K4b", "P7b", "F1b", "H2", "P25", "S3b", "S2", "Q1", "S7", "K4c"],
        explanation=("Decides the structural part of faithful factorization: the null code -1 is produced for a null in ANY key "
                     "position and preserved by every code re-mapping (K2); every factorization route tests the key for null "
                     "before an ordering comparison decides its code or delegates to a library call documented to emit the "
                     "sentinel (F1); pointer tables are built against the final label index (P7); the counting sort and code "
                     "combination guard the null code (K1) and advance their row counter unconditionally (K6)."
                     ' Also: identifier arrays never take their width from an input and counter tables handed to kernels are wide (K4b); the chunk-wise label union keeps first-appearance order and every pointer table is a get_indexer lookup (P7b); RangeIndex offsets are divided by the step unless it is exactly 1 (F1b); the counting sort behind `groups` uses prefix-sum group starts and writes every accepted row once at the position of its group (H2).'
                     ' The group-sorted layout (groups, apply, ema) is cut with counts permuted into label order (P25); a copy of a grouping takes every attribute, and codes are read as global codes only when they are (S3b, S2).'
                     ' Polars dtype comparisons (Q1); sorted flag (S7).'
                     ' 64-bit typed dictionaries (K4c).'),
        not_decided=["that equal keys get equal codes and unequal keys different codes (delegated to pd.factorize / arrow "
                     "dictionary_encode / mixed-radix arithmetic incl. int64 overflow of the cartesian product)",
                     "ascending positions inside groups (counting-sort arithmetic)"],
        technique="null-code preservation (taint + idiom table), fact-walker dominance, route table",
    ),
    "C03": dict(
        want=["M1", "M2", "M3", "M4", "M5", "D2", "D6b", "D9", "S2", "K2", "M6", "P7b", "P18", "M9", "D9b", "P6", "S7", "S8", "D9c"],
        explanation=("Decides the structural causes of strategy dependence: every merge of partial results receives the "
                     "accumulated count (M1) which is updated after the merge (M2); parallel_map places results by submission "
                     "index (M3); all row-aligned arrays are split by one splitter (M4); pointer lookups are offset by the "
                     "first chunk in the mask (M5); merge reducers are MERGE[class] (D2); every consumer of global codes is "
                     "dominated by unification (S2)."
                     ' Also: null-code preservation (K2); slice-start normalisation (M6); order-preserving label union and looked-up pointer tables (P7b); per-thread chunks cover the whole array (P18).'
                     " The merge target of a value column takes its dtype from that column's partials (M9)."
                     ' A positional mask is not converted by an order- and multiplicity-forgetting scatter on the chunked route only (D9b).'
                     ' Merge target with the null slot (P6); sorted flag from evidence on every factorization route (S7); chunkedness decided live (S8).'
                     ' Positional masks on chunked keys (D9c).'),
        not_decided=["floating-point agreement of sums/means", "the 1,000,000-row thresholds (constants)",
                     "thread schedules are covered structurally by M3, not explored"],
        technique="call-site binding rules, def-use on the completion loop, typestate of the key representation",
    ),
    "C04": dict(
        want=["T1", "T2", "D2", "D6", "D8", "D9", "M1", "M2", "M4", "K1@reduce", "K4@reduce", "P26"],
        explanation=("Decides the monoid contract of the block-wise kernels: reducer decision tables equal their specs (T1); "
                     "algebraic laws on the tables — empty partial is the identity, nulls are skipped, count +1 exactly on "
                     "accepted values, selection reducers return one of their operands, merge classes are closed (T2); both "
                     "merge sites fold to MERGE[class] (D2), count arrays are merged for counting ops (D6); mask-kind dispatch "
                     "shape (D8); merges see and update the accumulated count (M1, M2); one splitter (M4); negative codes "
                     "are skipped (K1)."
                     ' Also: the per-group count array of the reduction loop is 64 bit (K4).'
                     ' Kernel-level means divide by the counts with true division: a zero count gives a null (P26).'),
        not_decided=["exhaustive small-scope enumeration (a dynamic technique)",
                     "behaviour of out-of-range positive positions beyond the presence of the bounds check"],
        technique="GCNF decision tables + algebraic laws on tables; dispatch folding; call-site rules",
    ),
    "C05": dict(
        want=["K3", "A3m", "M4", "M5", "P3", "D9", "M6", "E3", "M7", "M8", "K7", "D9b", "S4", "S6", "D9c", "P5b", "M1", "M2"],
        explanation=("Decides masked-row non-interference: in every kernel with a mask parameter, every store to per-group "
                     "state on a path where the row is not provably selected is an identity (K3, path enumeration with a "
                     "symbolic store); the mask is forwarded at every delegation that has one (A3m); slice masks are applied "
                     "to keys and values together and mask chunks/pointers are offset consistently (M4, M5); the observed "
                     "filter is recomputed under the mask (P3)."
                     ' Also: slice start normalised before the first chunk is located (M6); row-aligned inputs of one kernel call are re-ordered by one indexer (M7); a sliced key is never paired with the raw mask (M8); in the timed EMA the clock moves exactly where the state was decayed (E3).'
                     ' A mask is bound into the row-wise kernels (which read mask[row] as a truth value) only after it was established to be boolean, on every path (K7); positions are never turned into a boolean row mask by scatter unless established strictly increasing (D9b: repeated / unordered positions).'
                     ' No hidden state keyed on a mask object (S4, S6).'
                     " Positional masks on chunked keys (D9c); selector index space (P5b); merges see the partial's own counts also under a mask (M1, M2)."),
        not_decided=["slice arithmetic with negative/None bounds", "fancy->boolean conversion",
                     "equality with the filtered run as a two-execution relation"],
        technique="path enumeration + symbolic identity detection; parameter-forwarding rule over resolved call sites",
    ),
    "C06": dict(
        want=["K1", "K2", "P6", "P8", "K6", "U1", "F1", "V1"],
        explanation=("Decides that no information flows from a null-key row into group state: every per-group state access "
                     "indexed by a code is dominated by a null test (K1); every code re-mapping preserves -1 (K2); a null "
                     "slot is allocated wherever codes index result arrays (P6); null-key rows get a constant marker in "
                     "cumulative outputs (P8); row counters advance on skipped rows (K6)."
                     ' Every factorization route gives a null key the code -1 (F1): a key that is given an ordinary code forms a group.'
                     ' value_counts(normalize=True) divides by the total of the counts, never by a number of rows (V1).'),
        not_decided=["third-party null detection in the delegated factorization routes"],
        technique="fact-walker dominance over inferred code variables; null-preservation idiom table",
    ),
    "C07": dict(
        want=["P5", "P6", "S2", "P11", "P2", "D2", "D6b", "K2", "P12", "P5b", "P25", "P27", "P26b", "P2c", "A3c", "A1"],
        explanation=("Decides that transform indexes code-ordered arrays only: the base of every subscript indexed by the row "
                     "codes carries no sort-permutation taint (P5), has a null slot (P6), is indexed after unification (S2), "
                     "and the transform path restores the input's index/container (P11)."
                     ' Also: merge classes (D2), null-code preservation (K2), polars receives datetime results as integers only without null sentinel (P12), label-sorted arrays are filtered only by selectors in label-sorted order (P5b).'
                     ' Group-sorted layout sized by label-ordered counts (P25).'
                     " Transform results carry the inputs' common index whenever there is one (P27); mean_from_sum_count is handed pandas objects (P26b); every column is divided by its own counts (P2c)."
                     " Composites forward transform (A3c); inputs validated as given (A1); merge target built with the reduction's null (D6b)."),
        not_decided=["value equality of broadcast and reduction beyond the index-space argument (the reduction itself is C01)"],
        technique="taint analysis of index spaces; typestate; path rule",
    ),
    "C08": dict(
        want=["T1", "U1", "U2", "K1@cumulative", "K3@cumulative", "K4@cumulative", "T3", "P1", "P8", "D4", "K7", "P28", "W5", "K4b", "T5", "U3"],
        explanation=("Decides the structure of the per-group prefix reduction: reducer tables (T1, skip and non-skip pairs); "
                     "the running value is read from the output at the group's previous accepted row (U1) and per-group "
                     "bookkeeping is updated only on accepted rows (U2); null keys skipped (K1), masked rows do not interfere "
                     "(K3); accumulator dtype table has no float detour (T3); temporal cast/restore pairing on all paths "
                     "(P1); null-key post-fill (P8); cum-op -> reducer dispatch (D4)."
                     ' Also: the cumulative count array is at least 32 bit (K4).'
                     ' The cumulative kernels receive boolean masks only (K7).'
                     ' Converted cumulative results are not passed through dtype-changing pandas operations (P28).'
                     ' Null tests in the dtype-generic kernels use is_null (W5).'
                     ' Per-group bookkeeping arrays that hold row positions are 64-bit, not of the code dtype (K4b); int64 views of temporal values are not routed through float64 (T5); the non-skipping sum reducer must hand on the null sentinel of those views (U3, known finding).'),
        not_decided=["'last cumulative value equals the reduction' as a value relation (follows by induction, not performed)"],
        technique="GCNF tables; loop-body obligations; path pairing rule",
    ),
    "C09": dict(
        want=["K1@rolling", "K3@rolling", "K4@rolling", "K5", "D3", "P10", "P11b", "D3b", "W1", "W2", "W3", "W4", "K7", "W5"],
        explanation=("Decides the periphery of the rolling kernels, not the window arithmetic: null/mask guards (K1, K3); "
                     "counter width (K4); dtype provenance on selection paths so min/max/shift return input elements exactly "
                     "(K5); op -> kernel/flag dispatch and flag -> orientation (D3); restoration keeps the input's time unit (P10)."
                     " Also: the comparison with the running extremum is guarded by the group's non-null count (D3b); group-sorted results are indexed by the inputs' common index (P11b)."
                     ' The whole buffer row is rescanned only when the buffer is full (W4).'
                     ' The rolling / shift / diff kernels receive boolean masks only (K7).'
                     ' Null tests in the dtype-generic kernels use is_null (W5).'),
        not_decided=["circular-buffer arithmetic (eviction, wrap, recomputation of the extremum, min_periods) — loop "
                     "invariants over runtime quantities", "the group-sorted layout"],
        technique="fact walker, path enumeration, dtype-provenance classification, dispatch folding",
    ),
    "C10": dict(
        want=["K1@ema", "E1", "E2", "E3", "A2", "K3@ema", "M7", "E4", "E5", "E6", "E7", "P24", "K7", "P25", "E8", "E9"],
        explanation=("Decides the periphery of the EMA, not the closed form: null-key guard in the grouped kernels (K1); "
                     "invalid rows read the group's own carried value (E2); the halflife->alpha conversion is the same "
                     "function of the raw parameter in both entry points (E1); the alignment decorator names real "
                     "parameters (A2); masked rows (K3, with the documented exemption and known finding)."
                     ' Also: the time-weighted kernel advances the clock exactly where it decays (E3, both directions); the alpha kernels multiply the running state by beta exactly once on every row path (E4); row-aligned inputs are re-ordered by one indexer (M7); on every valid-row path of the four adjusted kernels out = (x + R)/(1 + W) followed by R += x and W += 1 (E5).'
                     ' ema / ema_grouped dispatch only to the kernels of their own family (E6); the per-group clock of the timed kernel is an integer array (E7); integer views of timestamps are taken only after an explicit unit normalisation and zones are never dropped with tz_localize(None) (P24).'
                     ' The grouped EMA kernels receive boolean masks only (K7).'
                     ' ema(index_by_groups=True) repeats the group codes with counts in label order (P25); the codes handed to the kernel are the grouping\'s own codes, never one level of an index (E8); the integer clock of the timed kernels is in nanoseconds like the integer half-life (E9).'),
        not_decided=["the closed form, alpha/beta arithmetic, time decay, equality of grouped and ungrouped series"],
        technique="fact walker; expression normal-form comparison; decorator-name rule",
    ),
    "C11": dict(
        want=["P4", "P9", "P7b", "P11b", "P13", "M5", "P5b", "L1", "L2", "A3c", "D7", "M9", "A11", "P2c", "P27", "S4", "S6", "S7", "Q1"],
        explanation=("Decides two structural necessary conditions: the sort permutation derived from the labels reaches the "
                     "result and count frames on every non-transform path (P4); key names are assigned on every constructing "
                     "path (P9)."
                     ' Also: first-appearance order of the chunk-wise label union (P7b); common index of group-sorted results (P11b); generated names only for None (P13); pointer offsets (M5); selector index space (P5b); the label sort key ranks each level by the inverse permutation, in level order, and is the identity for categorical / already sorted labels (L1); the result is squeezed to 1-D exactly for a single 1-D input and loses its name only when the input had none (L2).'
                     ' std/var forward observed_only (A3c, D7); the merge target dtype comes from the merged partials (M9); no shortcut around the lexicographic sort for several label levels (L1).'
                     ' Facade key order (A11).'
                     ' Each column is computed with its own counts (P2c); transform index (P27).'
                     ' No hidden state / memo tables (S4, S6); sorted flag from evidence (S7); polars dtypes compared by equality (Q1).'),
        not_decided=["actual order, category order, lexicographic order, column independence (value-level)"],
        technique="path rules over _apply_gb_reduction / __init__",
    ),
    "C12": dict(
        want=["P1", "T2", "T3", "K5", "P10", "K4b", "P12", "F1b", "P7b", "M7", "P17", "D7c", "M9", "P24", "O1", "P28", "P26b", "T5", "M1", "M2", "D10"],
        explanation=("Decides the dtype/exactness clauses: temporal cast<->restore pairing on all paths (P1); selection "
                     "reducers never do arithmetic on values (T2-L4); accumulator dtype table (T3); dtype provenance in "
                     "rolling selection paths (K5); unit-preserving restoration (P10)."
                     ' Also: identifier widths (K4b); polars NaT preservation (P12); RangeIndex step (F1b); container-independent label order (P7b); one permutation (M7); value columns are never stacked into one array (P17).'
                     ' The group sums are cast to float64 before they are squared in var (D7c); merge target dtype per column (M9); temporal integer views (P24); no operation writes a caller-owned container (O1).'
                     ' No .mask/.where on converted results (P28); temporal means through pandas objects (P26b).'
                     " Temporal int64 views stay integers up to the restoring cast (T5); the merge of per-chunk partial results, which chunked containers and the threaded path go through, is the reducer's own (M1, M2); chunked values reach the chunk dispatcher in the container type it recognises (D10)."),
        not_decided=["equivalence of containers (third-party conversions)", "integer-sum wrap beyond the accumulator dtype table"],
        technique="path pairing; table laws; dtype provenance",
    ),
    "C13": dict(
        want=["S1", "S2", "S3", "S4", "K2", "M8", "S3b", "H2", "S5", "S6", "S7", "S8"],
        explanation=("Decides history independence structurally: finite typestate interpretation of the key-representation "
                     "mutator from every state (S1); every consumer of global codes sees global codes (S2); every attribute "
                     "read by a method is initialised on every constructor path (S3); logical attributes are assigned only "
                     "during construction (S4)."
                     ' Also: null-code preservation in the unifier (K2); a sliced key is never paired with the raw mask (M8); the copy constructor takes every attribute from the source (S3b).'
                     ' No cached property holds a value computed from the codes / pointer tables unless it is in the reviewed table of representation-invariant caches (S5); every attribute the regular constructor sets is copied by the copy constructor (S3b).'
                     ' No memo tables on the grouping (S6); the sorted flag only from evidence (S7); chunkedness decided live, not from cached lengths (S8).'),
        not_decided=["equality of outputs across histories as a value relation (implied by the above)"],
        technique="finite abstract interpretation (typestate), definite-assignment, mutation containment",
    ),
    "C14": dict(
        want=["A8", "P2", "T3", "A3x", "P14", "P15", "P16", "P15b", "A3y", "MG1"],
        explanation=("Decides the periphery of margins: imports on the margin path resolve in the pinned environment (A8); "
                     "margins are applied to sums and counts before the division (P2); margin aggregator table (T3); crosstab "
                     "forwards mask/margins/aggfunc (A3x)."
                     ' Also: complementary row/column level split (P14); margin rows written by assignment, not by a null-skipping writer (P15); the nested-subtotal recursion runs for every requested level (P16).'
                     ' Margin subtotals group observed combinations only and the margin grid is filled with an integer-preserving value (P15b); crosstab hands the requested margin levels - derived from the row/column level split - to the grouping (A3y).'
                     ' The re-aggregation itself (MG1): a level\'s All rows are the per-group result grouped by exactly the other levels and aggregated with the caller\'s aggregator, nested subtotals by recursion with the same aggregator, the All label moved back to the level\'s position by the inverse permutation, unrequested levels dropped, single-key total = data.agg(agg_func).'
                     " _add_margins decides 'a list of levels' by dimensionality, not by one concrete container type (MG1)."),
        not_decided=["add_row_margin re-aggregation/re-indexing arithmetic, unstacking and column order"],
        technique="link check; path rule; table; forwarding rule",
    ),
    "C15": dict(
        want=["K4@rowsel", "K1@rowsel", "A1", "R1", "P17", "H1", "K2", "P21", "P25", "S6", "P29", "S4"],
        explanation=("Decides the stated failure modes: per-group row counters are wide enough (K4); null-key rows are never "
                     "selected (K1); selection inputs are validated against the keys (A1)."
                     ' Also: the backward scan of tail is flipped back (R1); the selected columns are not stacked into one array (P17); the occurrence counter of the scans is compared (== n / slot < n) before it is incremented, once per accepted row, and a negative n scans backwards with n := -n - 1 (H1).'
                     ' The null code survives the unification that head/tail/nth trigger (K2); the selected rows are taken from the values as given, not from the aggregation pre-processor (P21).'
                     " Group-sorted layout (P25); no memo tables (S6); selected rows keep the inputs' labels (P29); no hidden state (S4)."),
        not_decided=["that the scan picks the n-th occurrence (seen[k] == n arithmetic)", "index restoration"],
        technique="allocation-width rule; fact walker; must-validate",
    ),
    "C16": dict(
        want=["A3c", "D7", "P5b", "P20", "D7b", "D7c", "P22", "P25", "P5"],
        explanation=("Decides composition consistency: composites forward every semantic parameter to the primitives they are "
                     "defined by (A3c); var uses the three primitives with one shared keyword set and std delegates to var (D7)."
                     ' Also: label-sorted arrays are filtered only by selectors in the same order (P5b); the composites apply no null-suppressing function (P20); the value returned by var is (sum_squares - sum^2/count)/(count - ddof) in canonical arithmetic form and std is its square root (D7b).'
                     ' The sums are squared in float64 (D7c); the non-reduce probe doubles a one-element input by tiling (P22).'
                     ' apply / median / quantile split the group-sorted rows with counts in label order (P25).'
                     ' apply/median(transform=True) scatter the per-group results through the label permutation (P5).'),
        not_decided=["variance accuracy, quantile equality with NumPy, apply semantics, densities summing to 100"],
        technique="parameter-forwarding over resolved call sites",
    ),
    "C17": dict(
        want=["A4", "A5", "A6", "A7", "A3f", "A10", "A11", "A12", "A13", "Q2"],
        explanation=("Decides facade<->core agreement structurally: every facade delegation passes the selected value columns "
                     "(A4), binds actuals to parameters of the same role (A5), forwards mask (A3f); iteration is positional "
                     "(A6); key columns are excluded from the values (A7)."
                     ' The value columns handed to the engine are exactly the selected columns, unfiltered (A10); every `by` entry contributes its key at once, in the order given, `level` keys after them (A11); engine results are relabelled by position, never re-aligned through a pandas constructor with index= (A12).'
                     " Facade adds no policy: constants equal the engine's defaults, iteration yields rows of the whole object (A13); numeric parameters defaulted by `is None` (Q2)."),
        not_decided=["numerical agreement with pandas"],
        technique="call binding over facade delegations",
    ),
    "C18": dict(
        want=["A1", "A2", "A9", "A14"],
        explanation=("Decides 'misaligned => some validator runs before any consumer': every array parameter of every public "
                     "entry point reaches a validator that compares with the key length and key index before it is consumed "
                     "(A1); decorator names are real parameters (A2)."
                     ' Grouping keys and inputs are never re-aligned by label (no reindex/align) before grouping (A9); a parameter re-bound to an index-free copy before validation does not count as validated (A1).'
                     ' _preprocess_arguments validates a snapshot of the inputs taken before timestamp Series are replaced by bare arrays (A14).'),
        not_decided=["that aligned inputs are never rejected", "label alignment inside pandas calls"],
        technique="must-pass-through over the call graph; decorator-name rule",
    ),
    "C19": dict(
        want=["O1", "O2", "S6", "O3"],
        explanation=("Decides absence of write-through: no store, in-place call, out=/inplace= or augmented assignment reaches "
                     "caller-owned or grouping-owned storage (O1); operation results are fresh (O2)."
                     ' No stores into containers of the grouping (S6).'
                     ' overwrite_input= never enabled (O3).'),
        not_decided=["freshness of the listed third-party constructors is trusted"],
        technique="interprocedural mod/ref + freshness analysis",
    ),
    "C20": dict(
        want=["T1b", "D5", "P1", "N1", "P18", "P19", "D5b", "P23", "P24", "NV1", "ND1", "PC1"],
        explanation=("Decides the structure of the stand-alone reducers: binary reducer tables (T1b); reducer name -> (initial "
                     "value, chunk-combine reducer) table and null-skipping combine stage (D5); view/convert pairing in "
                     "reduce_1d (P1); null-skip shape of the chunk reducer (N1)."
                     ' Also: the prologue of _nb_reduce (start index and accumulator per case, all-null exit) and the first-non-null scan (N1); per-thread chunks cover the array (P18); the array handed to searchsorted is sorted on every path (P19).'
                     ' Per-thread partial results keep the dtype the reducer produced (D5b); bools_to_categorical packs and decodes the same frame (P23); temporal integer views only after unit normalisation (P24).'
                     ' The composites: nanmean = nansum/count, nanvar = (SS - S^2/n)/(n - ddof) in canonical arithmetic with all three parts over the same array / axis / skipna / threads, nanstd = nanvar ** 0.5 (NV1); the matrix-vector kernel accumulates a[col][row]*b[col] into a zero-initialised out[row] from a list of columns (ND1); pretty_cut bins with the side that matches its printed right-closed bounds, nulls to no bin, one label per code (PC1).'
                     ' pretty_cut skips the null assignment only under a flag that implies integer values (PC1).'),
        not_decided=["floating-point equality with NumPy, 2-D axis handling, label formatting of pretty_cut (value-level)"],
        technique="GCNF tables; dispatch folding; path pairing",
    ),
}

# named function scopes: a property looks at the instances of a shared rule inside its own anchors
SCOPES = {
    "reduce": {"_group_by_reduce"},
    "factorize": {"_combine_factorizations", "_weight_code_sum", "GroupBy._build_group_sorted_indexer_numba"},
    "cumulative": {"_cumulative_reduce"},
    "rolling": {"_rolling_sum_or_mean_1d", "_rolling_max_or_min_1d", "_rolling_shift_or_diff_1d",
                "min_or_max_and_position", "_apply_rolling"},
    "ema": {"_ema_grouped", "_ema_grouped_timed"},
    "rowsel": {"_find_nth", "_find_first_or_last_n"},
}

PROPERTIES: Dict[str, dict] = {}
PENDING: Dict[str, list] = {}
for _pid, _spec in _ALL.items():
    have = [r for r in _spec["want"] if r.partition("@")[0] in RULES]
    missing = [r for r in _spec["want"] if r.partition("@")[0] not in RULES]
    if missing:
        PENDING[_pid] = missing
    if have:
        PROPERTIES[_pid] = dict(
            rules=have,
            explanation=_spec["explanation"] + (
                f" [rules not built yet and therefore not part of this verdict: {', '.join(missing)}]" if missing else ""),
            not_decided=_spec["not_decided"],
            technique=_spec["technique"],
            trusted_base=TRUST_COMMON,
            assumptions=["< 2^31 rows per group / labels (32-bit counters accepted)"],
        )
